#!/usr/bin/env python3
"""Writes /verif/MANIFEST.json from the table below (kept in one place so it stays consistent)."""
import json, os, subprocess
ROOT = os.path.dirname(os.path.dirname(os.path.abspath(__file__)))

HIST = "history engine: stateful property-based testing (proptest, model-based oracle) over generated API histories"
checks = {
 "C01": ("3", "model-based stateful PBT: generated mutator/collector histories vs. shadow-graph reachability, drop log and tracking allocator",
         "Exploration. Every generated history is executed on the real crate in lock-step with a shadow graph; no destructor or dealloc event may name an object in the strong closure computed before the call, and a walk of the real graph at every callback entry must find every stored edge, owned by the allocator and reading back its payload. Right level: the property quantifies over interleavings, which a generator samples densely (single-unit increments via epsilon debt) but cannot exhaust."),
 "C02": ("3", "model-based stateful PBT with a Settle oracle (finish_cycle x2): undestructed set == strong closure, Gc count == closure + weakly referenced shells",
         "Exploration. After two finish_cycle calls the set of undestructed objects must equal the model's strong closure, every other object must be released unless a reachable weak pointer refers to it, and total_gc_count must equal closure + shells."),
 "C03": ("3", "stateful PBT: drop/dealloc log bracketed by every callback, temporaries re-read at callback end",
         "Exploration. The merged event log must be empty of destructor / release events between entry and exit of every callback kind, under natural and artificial debt up to 1e12, and every pointer obtained in the callback must still be owned by the allocator and read back its payload at the end."),
 "C04": ("3", "stateful PBT with arena drop in every phase: exactly-once destructor counts, allocator pairing with layout equality, double-free quarantine",
         "Exploration. At the end of every history each allocated value has exactly one destructor event, each Gc block was released exactly once with the layout it was requested with (tracking global allocator, quarantine makes a second release certain to be seen), none is outstanding and a retained Metrics handle reads zero."),
 "C05": ("3", "model-based stateful PBT of weak queries (upgrade / is_dropped / upgrade-and-store) against object status and phase",
         "Exploration. Each weak query is first checked for queryability at the allocator, then compared with the model: is_dropped == destructor ran; upgrade None only for destructed targets or weak-only targets while Sweeping; an upgraded-and-stored target joins the strong closure and is protected by the C01 oracle."),
 "C06": ("3", "stateful PBT where every store goes through a numbered adoption path; coverage of (path, phase, parent colour, child colour) measured with the read-only hook; both build profiles",
         "Exploration. Every adoption path (9 Write projections, 6 explicit barrier forms incl. general forms reused for several stores, Lock/RefLock/OnceLock setters, Gc::unlock, mutate_root, map_root, try_map_root, stash, weak variants) is exercised in every phase and colour combination the generator reaches; the adopted target must survive the running and the next cycle (C01 oracle), weak targets stay queryable, and no call may panic (also run with debug assertions and overflow checks)."),
 "C07": ("3", "model-based stateful PBT of finalize callbacks: is_dead scan vs. reachability at callback start, resurrection protection until the next cycle-start marker",
         "Exploration. At the start of every finalize callback no reachable object (or weak pointer to one) may report is_dead, and with no mutation since the cycle woke is_dead must hold exactly for the unreachable objects that can be named; resurrect returns None exactly for destructed targets, makes the arena report Marking, and protects the strong closure (taken at the last moment before marking ends) until the next cycle starts."),
 "C08": ("3", "stateful PBT of API call sequences against the phase-transition table and the trace*/drop* order of work inside one call",
         "Exploration. Every collection call from every phase with zero / tiny / natural / huge debt is checked against the transition table of the statement (return Option-ness, resulting phase, no-ops while Sweeping) and the merged trace/drop log of one call must be a single mark-then-sweep pass (two for collect_debt)."),
 "C09": ("3", "stateful PBT with natural pacing (allocation bursts, no artificial debt reduction): debt-after-call clauses, completion bound A < rho*H/(1-rho), sleep allowance",
         "Exploration. Debt-driven calls must return with zero debt or at their stopping phase; stop-the-world pacing must reach Sleeping; for cycles whose wake-up was observed the allocation bound is checked after every unfinished cycle_debt; after a cycle with no debt carried the debt must read zero and no progress be made until allocations exceed max(min_sleep, sleep_factor x survivors), and be positive afterwards. The liveness half ('cycles always complete') is checked only in this quantitative safety form."),
 "C10": ("3", "stateful PBT: total_gc_count vs. allocator/model count, debt sign/finite/monotone inequalities around every callback and adjust_debt, panic capture; both build profiles",
         "Exploration. After every step total_gc_count must equal the number of unreleased Gc blocks, debt must be finite, non-negative, zero for an empty arena, change by exactly x on adjust_debt while positive, and never drop across a callback except by mark_factor per forward-barrier/resurrect call; arithmetic faults are caught as panics in the overflow-checking build and as debt collapse in the release-like build."),
 "C11": ("3", "fault-injection PBT: trace panic at the k-th trace call, callback panic at every op index, failing constructors / map_root; C01-C05 oracles continue afterwards",
         "Exploration over fault sequences. After each caught unwind the history continues and the C01-C05 oracles keep running to the end (including Settle and the final drop); a failed constructor or map_root must release every block and destruct each value once."),
 "C14": ("3", "model-based stateful PBT over root sets, handles (clone/drop in any order), slot reuse, foreign and dead handles",
         "Exploration. Targets of live handles of reachable sets belong to the strong closure (C01 oracle) and are collected after the last handle is dropped (Settle); fetch/try_fetch/contains accept exactly the issuing set and resolve to the stashed object's address; handle clone/drop never touches an arena."),
 "C20": ("3", "stateful PBT interleaving up to three arenas: per-step bit-identical (phase, Gc count, debt) snapshots of the other arenas, event ownership",
         "Exploration. Every trace/drop/release event produced by a step on one arena must belong to that arena, and phase, Gc count and debt of all other arenas must be bit-identical before and after; each arena separately satisfies the C01-C05 oracles."),
}
notes = {
 "C01": "Trusted: harness Collect impls, tracking allocator, shadow model. Bounds: <=64 live objects, <=150 steps, 1-3 arenas. Memory faults (SIGSEGV) during a history are reported as violations with the unshrunk history.",
}
default_note = "Trusted: harness Collect impls (Probe, RNode), tracking allocator, event log, shadow model built from the harness's own mutations. Bounds: <=64 live objects, <=150 steps per history, <=3 arenas; exploration never establishes absence."

manifest = {
 "version": 1,
 "setup_cmd": "./check setup",
 "hooks": {
  "guard": "--cfg gc_arena_verif",
  "enable": "rustflags = [\"--cfg\", \"gc_arena_verif\"] in /verif/engine/.cargo/config.toml (./check runs cargo from /verif/engine; the probes pass the flag to rustc directly)",
  "baseline_off_cmd": "cd /repo && CARGO_NET_OFFLINE=true cargo test --workspace --no-fail-fast --offline",
  "source_commits": ["899a3ae", "24c620d"],
  "add_only": True,
 },
 "engines": [
  {"name": "history", "path": "engine/", "serves_properties": sorted(checks.keys()), "kind_free_text": HIST},
 ],
 "checks": [],
 "not_applicable": [],
 "notes": "All checks go through ./check, which rebuilds the engine (and with it gc-arena, a path dependency on /repo) before running. Fix commits in /repo: c7759d9 (C10), 91a2c58 (C13), af55683 (C19), 3a228d4 (C09), 12051e7 (C12), 5a94f0f (C19), 94c854b + 393f13d (C13), de53846 (C15), b5e747b (C12), 625df6e (C19), 0348bf7 + bbde156 (C13). Three known findings are listed and excluded by signature: C12 and C13 non-wf-root-implies-static (one root cause), C15 crate-alias-hijacks-derive-paths (./check C12 / C13 / C15 print their KNOWN-FINDING lines and exit 0). See KNOWN_FINDINGS.txt and DESIGN.md section 5.",
}
extra = os.path.join(ROOT, "tools", "manifest_extra.json")
extra_checks = json.load(open(extra)) if os.path.exists(extra) else {}
allc = dict(checks)
for pid in sorted(allc):
    sec, tech, text = allc[pid]
    manifest["checks"].append({
        "property_id": pid,
        "quick_cmd": f"./check {pid} quick",
        "thorough_cmd": f"./check {pid} thorough",
        "evidence_file": f"/verif/evidence/{pid}.json",
        "replay_cmd_template": "./check replay {path}",
        "engine": "history",
        "level_claimed": {"category": "exploration", "text": text, "design_ref": f"DESIGN.md section {sec} ({pid})"},
        "level_note": notes.get(pid, default_note),
        "technique": tech,
    })
for c in extra_checks.get("checks", []):
    manifest["checks"].append(c)
for e in extra_checks.get("engines", []):
    manifest["engines"].append(e)
manifest["checks"].sort(key=lambda c: c["property_id"])
claimed = {c["property_id"] for c in manifest["checks"]}
allp = [json.loads(l)["id"] for l in open(os.path.join(ROOT, "properties.jsonl"))]
for p in allp:
    if p not in claimed:
        manifest["not_applicable"].append({"property_id": p, "reason": extra_checks.get("pending", {}).get(p, "check under construction in this session; the technique applies (see DESIGN.md) but no command is registered yet")})
json.dump(manifest, open(os.path.join(ROOT, "MANIFEST.json"), "w"), indent=1)
print("claimed", sorted(claimed), "not claimed", [p for p in allp if p not in claimed])
