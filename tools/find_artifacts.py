#!/usr/bin/env python3
"""Reads `cargo build --message-format=json` on stdin, prints shell exports with the gc_arena rlib,
the derive proc-macro and the deps directory."""
import json, os, sys
rlib = derive = None
extern = {}
for line in sys.stdin:
    line = line.strip()
    if not line.startswith("{"):
        continue
    try:
        m = json.loads(line)
    except Exception:
        continue
    if m.get("reason") != "compiler-artifact":
        continue
    name = m.get("target", {}).get("name")
    for f in m.get("filenames", []):
        if name == "gc_arena" and f.endswith(".rlib"):
            rlib = f
        if name == "gc_arena_derive" and f.endswith(".so"):
            derive = f
        if name in ("hashbrown", "indexmap", "slotmap", "smallvec", "enum_map") and f.endswith(".rlib"):
            pid = m.get("package_id", "")
            # the versions gc-arena itself depends on
            want = {"hashbrown": "0.17", "indexmap": "2.", "slotmap": "1.", "smallvec": "1.", "enum_map": "2."}[name]
            ver = pid.split("@")[-1] if "@" in pid else pid.split("#")[-1]
            if ver.startswith(want):
                extern[name] = f
if not rlib or not derive:
    sys.exit(1)
print(f'export GCV_RLIB="{rlib}"')
print(f'export GCV_DERIVE="{derive}"')
print(f'export GCV_DEPS="{os.path.dirname(rlib)}"')
print('export GCV_EXTERNS="' + " ".join(f"{k}={v}" for k, v in sorted(extern.items())) + '"')
