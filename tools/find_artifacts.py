#!/usr/bin/env python3
"""Reads `cargo build --message-format=json` on stdin, prints shell exports with the gc_arena rlib,
the derive proc-macro and the deps directory."""
import json, os, sys
rlib = derive = None
for line in sys.stdin:
    line = line.strip()
    if not line.startswith("{"):
        continue
    try:
        m = json.loads(line)
    except Exception:
        continue
    if m.get("reason") != "compiler-artifact":
        continue
    name = m.get("target", {}).get("name")
    for f in m.get("filenames", []):
        if name == "gc_arena" and f.endswith(".rlib"):
            rlib = f
        if name == "gc_arena_derive" and f.endswith(".so"):
            derive = f
if not rlib or not derive:
    sys.exit(1)
print(f'export GCV_RLIB="{rlib}"')
print(f'export GCV_DERIVE="{derive}"')
print(f'export GCV_DEPS="{os.path.dirname(rlib)}"')
