#!/usr/bin/env bash
# tools/try_patch.sh <patch.diff> <Cxx> [<Cxx> ...] : apply a change to /repo, run the quick checks, undo it.
set -u
PATCH="$(realpath "$1")"; shift
cd /verif
git -C /repo diff --quiet || { echo "/repo has local changes"; exit 2; }
git -C /repo apply "$PATCH" || { echo "patch does not apply"; exit 2; }
for p in "$@"; do
  t0=$(date +%s)
  out=$(./check "$p" ${TIER:-quick} 2>&1); rc=$?
  t1=$(date +%s)
  orc=$(grep -m1 'violated oracle' <<<"$out" | cut -c1-220)
  steps=$(grep -m1 -o 'minimal history ([0-9]* steps)' <<<"$out")
  echo "$p rc=$rc $((t1-t0))s ${orc:-} ${steps:-}"
done
git -C /repo checkout -- . ; git -C /repo status --short
