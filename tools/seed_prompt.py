#!/usr/bin/env python3
"""tools/seed_prompt.py <round-dir> <Cxx> [...]: creates <round-dir>/<Cxx>/{wt,out,prompt.txt} for seeding
sub-agents: a scratch worktree of /repo (HEAD) and a prompt that contains only the property text, the
list of ideas already used (seeded/TAKEN.txt) and the task.  Nothing from /verif goes into the prompt."""
import json, os, subprocess, sys
ROOT = os.path.dirname(os.path.dirname(os.path.abspath(__file__)))
props = {json.loads(l)['id']: json.loads(l) for l in open(os.path.join(ROOT, 'properties.jsonl'))}
taken = open(os.path.join(ROOT, 'seeded', 'TAKEN.txt')).read().strip()
rd = sys.argv[1]
for i in sys.argv[2:]:
    p = props[i]; d = f'{rd}/{i}'
    os.makedirs(d + '/out', exist_ok=True)
    subprocess.run(['git', '-C', '/repo', 'worktree', 'add', '--detach', d + '/wt', 'HEAD'], capture_output=True)
    subprocess.run(['cp', '/repo/Cargo.lock', d + '/wt/'])
    open(d + '/prompt.txt', 'w').write(f"""You are helping to evaluate a test suite for the Rust crate `gc-arena` (kyren/gc-arena: a single-threaded incremental, exact, cycle-collecting mark-and-sweep garbage collector with lifetime-branded arenas, write barriers, weak pointers and finalization).

You have your own scratch git worktree of the crate at: {d}/wt   (work ONLY inside {d}/ ; do not read or touch /repo or /verif, do not look at other directories under /tmp).
Everything is offline: use `CARGO_NET_OFFLINE=true cargo test --offline` (the existing test suite lives in tests/tests.rs; `cargo test --workspace --offline` must still pass). (src/verif.rs and the `verif_*` accessors are an inert, cfg-guarded snapshot hook: ignore them.)

Here is a semantic property the crate is supposed to satisfy:

Property {i}: {p['title']}

Statement: {p['statement']}

Quantified over: {p['quantifier']['text']}

ALREADY TAKEN (do NOT reuse these ideas; find something in a different place, ideally a code path, type, macro arm, trait impl, attribute combination, feature-gated module (hashbrown / indexmap / slotmap / smallvec / enum_map / tracing), conversion, or API entry point that none of these touch): {taken}

YOUR TASK: make a small, realistic change to the crate's source (src/*.rs or derive/src/lib.rs) that BREAKS this property while
  (a) still compiling,
  (b) still passing the whole existing test suite unedited (run it: `cd {d}/wt && CARGO_NET_OFFLINE=true cargo test --workspace --offline 2>&1 | tail -20`), and
  (c) looking like a plausible mistake or "optimisation" a maintainer could make (an off-by-one, a dropped or weakened condition or trait bound, a reordered statement, a missing case, two sites that each look fine alone) -- not sabotage like `panic!()` or deleting a function.
The breakage must need something SPECIFIC to manifest -- a particular interleaving of mutation and incremental collection steps, a particular phase/colour combination, a fault at a particular point, a multi-step sequence, an unusual input or type, or two cooperating sites -- not something ordinary use would expose at once (if the existing tests fail, the change is too blunt: refine it).

Also write a DEMONSTRATION: a standalone integration test file `tests/seeded_demo.rs` (using only the crate's public API, std, and no new dependencies) containing one `#[test]` that FAILS (assertion failure, panic, or crash) with your change applied and PASSES on the original code. (If the property is about programs that must not compile, the demonstration may instead be a program `examples/seeded_demo.rs` that is rejected by the compiler on the original code and accepted with your change; say so in meta.txt.) Verify both directions yourself: run it with your change, then `git diff -- src derive > {d}/out/patch.diff; git checkout src derive` and run it again on the original source, then re-apply the change with `git apply {d}/out/patch.diff`.

Read the source first (src/context.rs, src/arena.rs, src/metrics.rs, src/gc.rs, src/gc_weak.rs, src/lock.rs, src/barrier.rs, src/dynamic_roots.rs, src/gc_ptr.rs, src/slice.rs, src/collect.rs, src/collect_impl.rs, src/unsize.rs, src/zst_cache.rs, src/static_wrapper.rs, src/no_drop.rs, src/meta.rs, derive/src/lib.rs as relevant) and tests/tests.rs for API usage examples.

DELIVERABLES (write them to {d}/out/):
  1. patch.diff  -- `git diff` of the source change only (NOT including the demonstration file), applicable with `git apply` to the original tree.
  2. seeded_demo.rs -- a copy of your demonstration file.
  3. meta.txt -- 5-15 lines: what you changed, why it breaks the property, what specific circumstances are needed for it to manifest, and the exact commands + observed results (demo fails with change / passes without / existing suite passes with change).
Leave the worktree with your change applied and the demo file in place. In your final answer, summarise the change in a few sentences.
""")
print("prepared", sys.argv[2:])
