#!/usr/bin/env bash
# tools/try_patch_scratch.sh <patch.diff> <Cxx> [...] : like try_patch.sh, but in a scratch copy
# (worktree of /repo + copy of /verif/engine under /tmp/gcv-try), so /repo itself stays untouched.
# The scratch copy is reused between calls; remove it with: tools/try_patch_scratch.sh --clean
set -u
WT=/tmp/gcv-try
if [ "${1:-}" = "--clean" ]; then git -C /repo worktree remove --force "$WT/repo" 2>/dev/null; rm -rf "$WT"; git -C /repo worktree prune; exit 0; fi
PATCH="$(realpath "$1")"; shift
if [ ! -d "$WT/repo" ]; then
  mkdir -p "$WT/verif"; git -C /repo worktree prune
  git -C /repo worktree add --detach "$WT/repo" HEAD >/dev/null 2>&1 || exit 2
  cp /repo/Cargo.lock "$WT/repo/"
fi
rsync -a --exclude target --exclude fuzz/target /verif/engine "$WT/verif/"
rsync -a /verif/check /verif/tools /verif/KNOWN_FINDINGS.txt "$WT/verif/"
[ -d /verif/corpus ] && rsync -a /verif/corpus "$WT/verif/"
sed -i "s|path = \"/repo\"|path = \"$WT/repo\"|" "$WT/verif/engine/Cargo.toml"
export GCVERIF_REPO="$WT/repo"
git -C "$WT/repo" checkout -q -- . ; git -C "$WT/repo" clean -fdq -e target -e Cargo.lock
git -C "$WT/repo" apply "$PATCH" || { echo "patch does not apply"; exit 2; }
for p in "$@"; do
  t0=$(date +%s)
  out=$(cd "$WT/verif" && ./check "$p" ${TIER:-quick} 2>&1); rc=$?
  t1=$(date +%s)
  orc=$(grep -m1 'violated oracle\|memory fault' <<<"$out" | cut -c1-240)
  steps=$(grep -m1 -o 'minimal history ([0-9]* steps)' <<<"$out")
  echo "$p rc=$rc $((t1-t0))s ${orc:-} ${steps:-}"
  if [ $rc -eq 1 ] && [ -n "${HARVEST:-}" ]; then
    f=$(ls -t "$WT/verif/failures/$p-"*.json 2>/dev/null | grep -v -- "-crash-\|-miri-\|-fuzz-\|-asan-" | head -1)
    if [ -n "$f" ] && ! grep -q '^  "kind"' "$f" && grep -q '"case"' "$f"; then
      mkdir -p "/verif/corpus/regress/$p"; cp "$f" "/verif/corpus/regress/$p/$HARVEST.json"
    fi
  fi
done
git -C "$WT/repo" checkout -q -- .
