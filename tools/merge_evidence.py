#!/usr/bin/env python3
"""Merge the evidence parts written by the workers of one ./check run into evidence/<Cxx>.json."""
import glob, json, os, sys

root, prop = sys.argv[1], sys.argv[2]
parts = sorted(glob.glob(os.path.join(root, "evidence", f"{prop}.*.part.json")))
if not parts:
    sys.exit(1)
docs = [json.load(open(p)) for p in parts]
# the primary part is the release-like build (or the only one)
docs.sort(key=lambda d: 0 if d["coverage"].get("build", "rel") == "rel" else 1)
out = docs[0]
cov = out["coverage"]
if len(docs) > 1:
    cov["per_build"] = {}
    total_eval = 0
    for d in docs:
        c = d["coverage"]
        total_eval += c["evaluations"]
        cov["per_build"][c.get("build", "?")] = {
            "evaluations": c["evaluations"],
            "distinct_nontrivial": c["distinct_nontrivial"],
            "wall_s": d["wall_s"],
            "violations": d.get("violations", 0),
        }
    cov["evaluations"] = total_eval
    # the builds replay the same seeds: distinct cases are counted once (primary build)
    out["wall_s"] = sum(d["wall_s"] for d in docs)
    out["violations"] = sum(d.get("violations", 0) for d in docs)
fp = os.path.join(root, "evidence", f"{prop}.fuzz.json")
if os.path.exists(fp):
    cov["coverage_guided"] = json.load(open(fp))
    cov["evaluations"] += cov["coverage_guided"]["fuzz_runs"]
    os.remove(fp)
mp = os.path.join(root, "evidence", f"{prop}.miri.json")
if os.path.exists(mp):
    cov["miri"] = json.load(open(mp))
    cov["evaluations"] += cov["miri"]["miri_cases"]
    os.remove(mp)
json.dump(out, open(os.path.join(root, "evidence", f"{prop}.json"), "w"), indent=1)
for p in parts:
    os.remove(p)
