#!/usr/bin/env bash
# tools/miri_stage.sh <Cxx> <n-cases> : replay a sample of this run's generated cases under Miri.
# exit 0 clean; 1 + VIOLATION line if Miri reports undefined behaviour inside gc-arena; 2 otherwise.
set -u
ROOT="$(cd "$(dirname "${BASH_SOURCE[0]}")/.." && pwd)"
PROP="$1"; N="$2"
ENGINE="$ROOT/engine"; BIN="$ENGINE/target/rel/gcverif"
S="$ROOT/scratch/miri-$PROP-$$"; mkdir -p "$S"
"$BIN" sample "$PROP" "$N" "$S/cases.jsonl" || exit 2
TOTAL=$(wc -l < "$S/cases.jsonl")
JOBS=16; PER=$(( (TOTAL + JOBS - 1) / JOBS ))
export MIRIFLAGS="-Zmiri-disable-isolation -Zmiri-ignore-leaks"
export CARGO_NET_OFFLINE=true
# build once (also compiles gc-arena from /repo for the Miri target)
( cd "$ENGINE" && cargo +nightly miri run -- replay-many "$PROP" "$S/cases.jsonl" 0 0 ) >"$S/build.log" 2>&1 || { echo "miri_stage: cannot build under Miri" >&2; tail -20 "$S/build.log" >&2; rm -rf "$S"; exit 2; }
t0=$(date +%s)
for j in $(seq 0 $((JOBS-1))); do
  from=$((j*PER)); to=$(((j+1)*PER))
  [ $from -ge $TOTAL ] && continue
  ( cd "$ENGINE" && timeout 1500 cargo +nightly miri run -- replay-many "$PROP" "$S/cases.jsonl" $from $to >"$S/out.$j" 2>"$S/err.$j"; echo $? >"$S/rc.$j" ) &
done
wait
t1=$(date +%s)
rc=0; ub=0; viol=0
for f in "$S"/rc.*; do
  j="${f##*.}"; r=$(cat "$f")
  if [ "$r" -ne 0 ]; then
    if grep -q "Undefined Behavior\|error: memory leaked\|deallocating\|has been freed\|out-of-bounds" "$S/err.$j"; then
      ub=$((ub+1))
      k=$(grep -o "MIRI-CASE [0-9]*" "$S/err.$j" | tail -1 | grep -o "[0-9]*")
      where=$(grep -m1 -- "-->" "$S/err.$j" | sed 's/^ *--> *//')
      msg=$(grep -m1 "^error" "$S/err.$j" | cut -c1-300)
      if grep -m3 -- "-->" "$S/err.$j" | grep -q "/repo/\|gc-arena\|gc_arena"; then
        mkdir -p "$ROOT/failures"
        out="$ROOT/failures/$PROP-miri-$k.json"
        line=$(sed -n "$((k+1))p" "$S/cases.jsonl")
        case "$PROP" in C17) kind=',"kind":"layout"';; C18) kind=',"kind":"builders"';; *) kind='';; esac
        printf '{"property":"%s"%s,"oracle":"miri","message":%s,"case":%s}\n' "$PROP" "$kind" "$(python3 -c 'import json,sys; print(json.dumps(sys.argv[1]))' "$msg at $where")" "$line" > "$out"
        echo "Miri: $msg at $where (case $k)"
        echo "VIOLATION property=$PROP replay=$out"
        viol=1
      else
        echo "miri_stage: Miri diagnostic outside gc-arena ($where): $msg — cannot decide" >&2
        rc=2
      fi
    elif grep -q "with violations" "$S/out.$j" && grep -q "CASE-JSON" "$S/out.$j"; then
      mkdir -p "$ROOT/failures"
      out="$ROOT/failures/$PROP-miri-oracle.json"
      line=$(grep -m1 "CASE-JSON" "$S/out.$j" | sed 's/^CASE-JSON //')
      case "$PROP" in C17) kind=',"kind":"layout"';; C18) kind=',"kind":"builders"';; *) kind='';; esac
      printf '{"property":"%s"%s,"oracle":"oracle under Miri","case":%s}\n' "$PROP" "$kind" "$line" > "$out"
      grep -m1 "oracle" "$S/out.$j"
      echo "VIOLATION property=$PROP replay=$out"
      viol=1
    else
      echo "miri_stage: job $j ended with rc $r — cannot decide" >&2; tail -5 "$S/err.$j" >&2
      rc=2
    fi
  fi
done
python3 - "$ROOT" "$PROP" "$TOTAL" "$ub" "$((t1-t0))" <<'PY'
import json,sys
root,prop,total,ub,wall=sys.argv[1:6]
json.dump({"miri_cases":int(total),"miri_reports":int(ub),"miri_wall_s":int(wall),"flags":"-Zmiri-disable-isolation -Zmiri-ignore-leaks (stacked borrows, quarantine and red zones compiled out)"}, open(f"{root}/evidence/{prop}.miri.json","w"))
PY
rm -rf "$S"
[ $viol -eq 1 ] && exit 1
exit $rc
