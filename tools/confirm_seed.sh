#!/usr/bin/env bash
# tools/confirm_seed.sh <seed-id> <dir-with-patch.diff+seeded_demo.rs+meta.txt> <property>
# (SEED_FEATURES=indexmap,... adds cargo features to the demonstration runs)
# Confirms a seeded change in a scratch worktree (never in /repo): the demonstration passes on the
# original tree, the existing suite passes with the change, the demonstration fails with the change.
set -u
ID="$1"; SRC="$(realpath "$2")"; PROP="$3"
WT=/tmp/confirm-$ID
rm -rf "$WT"; git -C /repo worktree prune
git -C /repo worktree add --detach "$WT" HEAD >/dev/null 2>&1 || exit 2
cp /repo/Cargo.lock "$WT/"
cp "$SRC/seeded_demo.rs" "$WT/tests/seeded_demo.rs"
cd "$WT"
export CARGO_NET_OFFLINE=true
timeout 900 cargo test --offline ${SEED_FEATURES:+--features $SEED_FEATURES} --test seeded_demo >"$WT/demo_orig.log" 2>&1; d0=$?
git apply "$SRC/patch.diff" || { echo "patch does not apply"; exit 2; }
timeout 900 cargo test --offline --test tests >"$WT/suite.log" 2>&1; s1=$?
timeout 900 cargo test --offline --doc >>"$WT/suite.log" 2>&1; s2=$?
timeout 900 cargo test --offline ${SEED_FEATURES:+--features $SEED_FEATURES} --test seeded_demo >"$WT/demo_patched.log" 2>&1; d1=$?
echo "demo on original: rc=$d0 (want 0); existing suite with change: rc=$s1/$s2 (want 0/0); demo with change: rc=$d1 (want != 0)"
ok=0; [ $d0 -eq 0 ] && [ $s1 -eq 0 ] && [ $s2 -eq 0 ] && [ $d1 -ne 0 ] && ok=1
if [ $ok -eq 1 ]; then
  OUT=/verif/seeded/$ID; mkdir -p "$OUT"
  cp "$SRC/patch.diff" "$OUT/patch.diff"; cp "$SRC/seeded_demo.rs" "$OUT/seeded_demo.rs"; cp "$SRC/meta.txt" "$OUT/agent_notes.txt" 2>/dev/null
  grep -E "^test |panicked|assert" "$WT/demo_patched.log" | head -5 > "$OUT/demo_failure_excerpt.txt"
  python3 - "$OUT" "$PROP" "$d0" "$s1" "$d1" <<'PY'
import json,sys
out,prop,d0,s1,d1=sys.argv[1:6]
notes=open(out+'/agent_notes.txt').read() if __import__('os').path.exists(out+'/agent_notes.txt') else ''
json.dump({"breaks_property":prop,"needs_to_manifest":notes[:1500],
 "confirmed_in_scratch_worktree":{"demo_on_original_rc":int(d0),"existing_suite_with_change_rc":int(s1),"demo_with_change_rc":int(d1),
 "commands":["cargo test --offline --test seeded_demo (original tree)","git apply patch.diff","cargo test --offline --test tests && cargo test --offline --doc","cargo test --offline --test seeded_demo"]},
 "checks_run":"see DESIGN.md section 10 and seeded/RESULTS.txt"}, open(out+'/meta.json','w'), indent=1)
PY
  echo "CONFIRMED -> $OUT"
else
  echo "NOT CONFIRMED"; tail -5 "$WT/demo_orig.log" "$WT/suite.log" "$WT/demo_patched.log"
fi
cd /; git -C /repo worktree remove --force "$WT"; rm -rf "$WT"; git -C /repo worktree prune
[ $ok -eq 1 ]
