#!/usr/bin/env bash
# tools/fuzz_stage.sh <target: history|layout|builders> <Cxx> <runs-per-job> [jobs]
# Fixed-work coverage-guided campaign (libFuzzer + ASan) with the semantic oracle inside the target.
# exit 0 clean; 1 + VIOLATION line; 2 cannot decide.
set -u
ROOT="$(cd "$(dirname "${BASH_SOURCE[0]}")/.." && pwd)"
TARGET="$1"; PROP="$2"; RUNS="$3"; JOBS="${4:-16}"
SEED="${VERIF_SEED:-1}"
FZ="$ROOT/engine/fuzz"
cp "$ROOT/engine/Cargo.lock" "$FZ/Cargo.lock" 2>/dev/null
( cd "$FZ" && RUSTFLAGS="--cfg gc_arena_verif" CARGO_NET_OFFLINE=true cargo +nightly fuzz build "$TARGET" ) >"$ROOT/.build.fuzz.log" 2>&1 || { echo "fuzz_stage: cannot build the fuzz target; see $ROOT/.build.fuzz.log" >&2; tail -15 "$ROOT/.build.fuzz.log" >&2; exit 2; }
BIN="$FZ/target/x86_64-unknown-linux-gnu/release/$TARGET"
[ -x "$BIN" ] || { echo "fuzz_stage: $BIN missing" >&2; exit 2; }
S="$ROOT/scratch/fuzz-$PROP-$$"; mkdir -p "$S" "$ROOT/failures"
t0=$(date +%s)
for j in $(seq 1 "$JOBS"); do
  mkdir -p "$S/corpus.$j" "$S/art.$j"
  python3 - "$S/corpus.$j" "$SEED" "$j" <<'PY'
import random, sys
d, seed, j = sys.argv[1], int(sys.argv[2]), int(sys.argv[3])
r = random.Random(seed * 1000 + j)
for i in range(48):
    n = r.choice([8, 24, 64, 160, 400, 900])
    open(f"{d}/s{i}", "wb").write(bytes(r.randrange(256) for _ in range(n)))
PY
  ( GCV_FUZZ_PROP="$PROP" GCV_FUZZ_OUT="$ROOT/failures" ASAN_OPTIONS=detect_leaks=0:abort_on_error=1 timeout 2400 "$BIN" "$S/corpus.$j" -runs="$RUNS" -seed=$((SEED*100+j)) -len_control=0 -max_len=1024 -artifact_prefix="$S/art.$j/" >"$S/log.$j" 2>&1; echo $? >"$S/rc.$j" ) &
done
wait
t1=$(date +%s)
rc=0; viol=0; total=0
for j in $(seq 1 "$JOBS"); do
  r=$(cat "$S/rc.$j" 2>/dev/null || echo 99)
  done_runs=$(grep -o "Done [0-9]* runs" "$S/log.$j" | grep -o "[0-9]*" | tail -1); total=$((total + ${done_runs:-0}))
  if [ "$r" -ne 0 ]; then
    if grep -q "FUZZ-VIOLATION" "$S/log.$j"; then
      line=$(grep -m1 "FUZZ-VIOLATION" "$S/log.$j")
      path="${line##*replay=}"
      echo "coverage-guided campaign (job $j): oracle violated"
      echo "VIOLATION property=$PROP replay=$path"
      viol=1
    elif grep -q "AddressSanitizer" "$S/log.$j"; then
      art=$(ls "$S/art.$j"/crash-* 2>/dev/null | head -1)
      if [ -n "$art" ]; then
        out="$ROOT/failures/$PROP-asan-$(basename "$art" | cut -c7-22).json"
        case "$TARGET" in layout) kind=',"kind":"layout"';; builders) kind=',"kind":"builders"';; *) kind='';; esac
        printf '{"property":"%s"%s,"oracle":"AddressSanitizer","message":%s,"case":%s}\n' "$PROP" "$kind" "$(grep -m1 'ERROR: AddressSanitizer' "$S/log.$j" | python3 -c 'import json,sys; print(json.dumps(sys.stdin.read().strip()[:300]))')" "$("$ROOT/engine/target/rel/gcverif" decode "$TARGET" "$art")" > "$out"
        grep -m1 "ERROR: AddressSanitizer" "$S/log.$j" | cut -c1-200
        echo "VIOLATION property=$PROP replay=$out"
        viol=1
      else
        echo "fuzz_stage: ASan report without artifact (job $j)" >&2; rc=2
      fi
    elif [ "$r" -eq 124 ]; then
      echo "fuzz_stage: job $j timed out — inconclusive" >&2; rc=2
    else
      echo "fuzz_stage: job $j ended with rc $r" >&2; tail -5 "$S/log.$j" >&2; rc=2
    fi
  fi
done
python3 - "$ROOT" "$PROP" "$total" "$JOBS" "$((t1-t0))" "$TARGET" <<'PY'
import json,sys,os
root,prop,total,jobs,wall,target=sys.argv[1:7]
p=f"{root}/evidence/{prop}.fuzz.json"
json.dump({"fuzz_target":target,"fuzz_runs":int(total),"jobs":int(jobs),"wall_s":int(wall),"engine":"libFuzzer + AddressSanitizer, total byte decoder, fresh random corpus per job, -len_control=0 -max_len=1024"}, open(p,"w"))
PY
rm -rf "$S"
[ $viol -eq 1 ] && exit 1
exit $rc
