//! Attack 9: like attack 2, but the root *is* `Collect` for every `'gc`: the `'gc: 'static`
//! assumption is smuggled in through a `PhantomData<&'static Gc<'gc, ()>>` (PhantomData<T> is
//! Collect for every T). The arena can therefore also be collected.
#![forbid(unsafe_code)]
use std::any::Any;
use std::marker::PhantomData;
use std::sync::atomic::{AtomicUsize, Ordering::SeqCst};

use gc_arena::{Arena, Gc, Rootable};

static DROPPED: AtomicUsize = AtomicUsize::new(0);
struct Payload(u64);
impl Drop for Payload {
    fn drop(&mut self) {
        self.0 = 0xDEAD_DEAD_DEAD_DEAD;
        DROPPED.fetch_add(1, SeqCst);
    }
}

type R = Rootable![(Gc<'_, Payload>, PhantomData<&'static Gc<'_, ()>>)];

fn main() {
    let mut arena = Arena::<R>::new(|mc| (Gc::new_static(mc, Payload(0x1234_5678)), PhantomData));
    arena.finish_cycle();
    // Inside the callback the compiler lets us assume `Gc<'gc, _>: 'static`.
    let escaped: Box<dyn Any> = arena.mutate(|_mc, root| Box::new(root.0) as Box<dyn Any>);
    drop(arena);
    let gc: &Gc<'static, Payload> = escaped.downcast_ref().unwrap();
    println!(
        "payload destructors run = {}, but a Gc to it is still held outside the arena; it reads {:#x}",
        DROPPED.load(SeqCst),
        gc.0
    );
}
