//! Attack 10: token injection through `#[collect(bound = "...")]`.
//!
//! The derive pastes the string verbatim where a `where` clause is expected inside synstructure's
//! `gen impl ... for @Self <here> { body }`. synstructure takes the first `{...}` after the where
//! clause as the impl body and re-emits everything after it verbatim. So the string can supply
//! its own (empty) body for the `unsafe impl Collect`, and redirect the real, field-tracing body
//! into a harmless inherent impl.
#![forbid(unsafe_code)]
use std::sync::atomic::{AtomicUsize, Ordering::SeqCst};

use gc_arena::{Arena, Collect, Gc, Rootable};

static DROPPED: AtomicUsize = AtomicUsize::new(0);

struct Payload(u64);
impl Drop for Payload {
    fn drop(&mut self) {
        self.0 = 0xDEAD_DEAD_DEAD_DEAD;
        DROPPED.fetch_add(1, SeqCst);
    }
}

#[derive(Collect)]
#[collect(
    no_drop,
    bound = "where u8: Copy { const NEEDS_TRACE: bool = false; } impl<'gc> Untraced<'gc>"
)]
struct Untraced<'gc> {
    ptr: Gc<'gc, Payload>,
}

fn main() {
    let mut arena = Arena::<Rootable![Untraced<'_>]>::new(|mc| Untraced {
        ptr: Gc::new_static(mc, Payload(0x1234_5678)),
    });
    arena.mutate(|_, root| println!("before collection: payload = {:#x}", root.ptr.0));
    arena.finish_cycle();
    arena.mutate(|_, root| {
        println!(
            "after collection: payload destructors run = {}, rooted Gc reads {:#x}",
            DROPPED.load(SeqCst),
            root.ptr.0
        )
    });
}
