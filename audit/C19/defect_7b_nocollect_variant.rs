//! Attack 2: root type `&'static Gc<'gc, T>`: does the callback get to assume `'gc: 'static`?
#![forbid(unsafe_code)]
use std::any::Any;

use gc_arena::{Arena, Gc, Rootable};

fn main() {
    let arena = Arena::<Rootable![&'static Gc<'_, String>]>::new(|mc| {
        Box::leak(Box::new(Gc::new(mc, String::from("hello"))))
    });
    let escaped: Box<dyn Any> = arena.mutate(|_mc, root| {
        let gc: Gc<'_, String> = **root;
        let b: Box<dyn Any> = Box::new(gc);
        b
    });
    drop(arena);
    let gc = escaped.downcast_ref::<Gc<'static, String>>().unwrap();
    println!("{}", gc.as_str());
}
