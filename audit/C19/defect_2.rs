//! `DynamicRoot::as_ptr` is a *safe* fn, documented to be callable at any time (only turning the
//! result back into a `Gc` is unsafe). Internally it derefs the stored `Gc<'static, _>` to a
//! reference before casting it to a raw pointer, so once the stashed object has been freed it
//! manufactures a dangling `&T` (language-level UB, reported by Miri) in 100% safe code.
//!
//! Run with Miri:  cargo +nightly miri run --example defect_2 [-- set]
#![forbid(unsafe_code)]
use gc_arena::{Arena, Collect, DynamicRoot, DynamicRootSet, Gc, Lock, Rootable};

#[derive(Collect)]
#[collect(no_drop)]
struct Root<'gc> {
    set: Lock<Option<DynamicRootSet<'gc>>>,
}

fn main() {
    let variant_set = std::env::args().nth(1).as_deref() == Some("set");

    let mut arena = Arena::<Rootable![Gc<'_, Root<'_>>]>::new(|mc| {
        Gc::new(
            mc,
            Root {
                set: Lock::new(Some(DynamicRootSet::new(mc))),
            },
        )
    });
    let handle: DynamicRoot<Rootable![String]> = arena.mutate(|mc, root| {
        let set = root.set.get().unwrap();
        set.stash::<Rootable![String]>(mc, Gc::new_static(mc, String::from("payload")))
    });

    if variant_set {
        // Variant "set": the arena lives on, only the root set becomes unreachable.
        arena.mutate(|mc, root| {
            gc_arena::barrier::unlock!(Gc::write(mc, *root), Root, set).set(None);
        });
        arena.finish_cycle();
        arena.finish_cycle();
    } else {
        // Default variant: the handle simply outlives its arena (it is `'static`).
        drop(arena);
    }

    // Safe call; the stashed String has been destructed and its memory released.
    let p: *const String = handle.as_ptr();
    println!("ptr = {:p} (never dereferenced by this program)", p);
}
