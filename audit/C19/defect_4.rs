//! Attack 7: `dyn_collect!` applied to a *sized* local type. The blanket
//! `impl<T: Collect> DynCollect for T` makes the generated body type-check (circularly), so safe
//! code obtains `unsafe impl Collect for Evil` without any of the derive's checks
//! (no `__MustNotImplDrop`, no field tracing).
#![forbid(unsafe_code)]
use std::sync::atomic::{AtomicUsize, Ordering::SeqCst};

use gc_arena::{Arena, Gc, RefLock, Rootable, barrier::unlock, collect::dyn_collect};

static PAYLOAD_DROPPED: AtomicUsize = AtomicUsize::new(0);

struct Payload {
    sentinel: u64,
}
impl Drop for Payload {
    fn drop(&mut self) {
        self.sentinel = 0xDEAD_DEAD_DEAD_DEAD;
        PAYLOAD_DROPPED.fetch_add(1, SeqCst);
    }
}

struct Evil<'gc> {
    ptr: RefLock<Option<Gc<'gc, Payload>>>,
}

dyn_collect!(Evil<'gc>);

impl<'gc> Drop for Evil<'gc> {
    fn drop(&mut self) {
        if let Some(p) = *self.ptr.borrow() {
            println!(
                "Evil::drop: payload destructors run so far = {}, sentinel read through Gc = {:#x}",
                PAYLOAD_DROPPED.load(SeqCst),
                p.sentinel
            );
        }
    }
}

fn main() {
    let mut arena = Arena::<Rootable![()]>::new(|_| ());
    arena.mutate(|mc, _| {
        // older object: swept *after* the newer payload
        let evil = Gc::new(mc, Evil { ptr: RefLock::new(None) });
        let payload = Gc::new_static(mc, Payload { sentinel: 0x1234_5678 });
        *unlock!(Gc::write(mc, evil), Evil, ptr).borrow_mut() = Some(payload);
    });
    // both are unreachable: nothing is ever traced, both are swept in the same cycle
    arena.finish_cycle();
    println!("done");
}
