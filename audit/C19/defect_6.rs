//! Attack 5: `Arena::new` / `Arena::mutate` do not require the root to be `Collect`, and `Arena`
//! drops its `Context` (freeing every Gc allocation) *before* it drops the root value.
//! A root with a destructor that looks at its `Gc` pointers therefore runs on freed memory.
#![forbid(unsafe_code)]
use std::cell::Ref;
use std::sync::atomic::{AtomicUsize, Ordering::SeqCst};

use gc_arena::{Arena, Gc, RefLock, Rootable};

static PAYLOAD_DROPPED: AtomicUsize = AtomicUsize::new(0);

struct Payload {
    sentinel: u64,
}
impl Drop for Payload {
    fn drop(&mut self) {
        self.sentinel = 0xDEAD_DEAD_DEAD_DEAD;
        PAYLOAD_DROPPED.fetch_add(1, SeqCst);
    }
}

// Not `Collect`: nothing asks for it.
struct Evil<'gc> {
    ptr: Gc<'gc, Payload>,
}
impl<'gc> Drop for Evil<'gc> {
    fn drop(&mut self) {
        println!(
            "Evil::drop: payload destructors run so far = {}, Gc still dereferenceable, sentinel = {:#x}",
            PAYLOAD_DROPPED.load(SeqCst),
            self.ptr.sentinel
        );
    }
}

fn main() {
    // Variant A: a user type with a destructor.
    let arena = Arena::<Rootable![Evil<'_>]>::new(|mc| Evil {
        ptr: Gc::new_static(mc, Payload { sentinel: 0x1234_5678 }),
    });
    arena.mutate(|_, root| assert_eq!(root.ptr.sentinel, 0x1234_5678));
    drop(arena);

    // Variant B: no user Drop at all, only std's `Ref` guard (writes the borrow flag on drop).
    let arena = Arena::<Rootable![Ref<'_, Vec<u8>>]>::new(|mc| {
        Gc::new(mc, RefLock::new(vec![1u8, 2, 3])).borrow()
    });
    arena.mutate(|_, root| assert_eq!(root.len(), 3));
    drop(arena); // `Ref::drop` decrements a borrow counter that lives in a freed allocation
    println!("done");
}
