//! Attack 1: `ZstCache::alloc` / `alloc_static` given a zero-sized value that has a destructor.
//!
//! The value is consumed and destructed *inside* `alloc`, yet the returned `Gc<T>` (stored in the
//! root, fully reachable) keeps dereferencing to "the" `T`.
#![forbid(unsafe_code)]

use std::sync::atomic::{AtomicBool, AtomicUsize, Ordering::SeqCst};

use gc_arena::{Arena, Collect, Gc, Rootable, zst_cache::ZstCache};

/// A module with a zero-sized capability token. Its (safe, local) invariant is the usual RAII one:
/// "as long as somebody can reach a `&Session`, the session is open".
mod session {
    use super::*;

    pub static OPEN: AtomicBool = AtomicBool::new(false);
    pub static CTOR: AtomicUsize = AtomicUsize::new(0);
    pub static DTOR: AtomicUsize = AtomicUsize::new(0);

    /// Zero-sized, private field: can only be made by `Session::open`.
    pub struct Session(());

    impl Session {
        pub fn open() -> Session {
            CTOR.fetch_add(1, SeqCst);
            OPEN.store(true, SeqCst);
            Session(())
        }

        /// Only callable while the session value exists, hence (in safe Rust) while it is open.
        pub fn is_open_as_seen_through_ref(&self) -> bool {
            OPEN.load(SeqCst)
        }
    }

    impl Drop for Session {
        fn drop(&mut self) {
            DTOR.fetch_add(1, SeqCst);
            OPEN.store(false, SeqCst);
        }
    }
}
use session::*;

#[derive(Collect)]
#[collect(no_drop)]
struct Root<'gc> {
    cache: ZstCache<'gc, 8>,
    // `Session: 'static`, so it is stored with `alloc_static` / `Gc::new_static`.
    via_cache: Gc<'gc, Session>,
    via_new: Gc<'gc, Session>,
}

fn main() {
    assert_eq!(std::mem::size_of::<Session>(), 0);

    let mut arena = Arena::<Rootable![Root<'_>]>::new(|mc| {
        let cache = ZstCache::<8>::new(mc);

        // Reference behaviour: Gc::new_static keeps the value alive as long as it is reachable.
        let via_new = Gc::new_static(mc, Session::open());
        println!(
            "after Gc::new_static      : ctor={} dtor={}",
            CTOR.load(SeqCst),
            DTOR.load(SeqCst)
        );
        assert_eq!(DTOR.load(SeqCst), 0);

        let via_cache = cache.alloc_static(mc, Session::open());
        println!(
            "after ZstCache::alloc_static: ctor={} dtor={}  (is_cached={})",
            CTOR.load(SeqCst),
            DTOR.load(SeqCst),
            cache.is_cached(via_cache)
        );

        Root {
            cache,
            via_cache,
            via_new,
        }
    });

    arena.finish_cycle();
    arena.finish_cycle();

    arena.mutate(|_, root| {
        let _ = root.cache;
        let s: &Session = &root.via_cache;
        println!(
            "reachable Gc<Session> from the cache: dtor so far = {}, session open as seen through &Session = {}",
            DTOR.load(SeqCst),
            s.is_open_as_seen_through_ref()
        );
        let s2: &Session = &root.via_new;
        let _ = s2;
    });

    let dtor_before_drop = DTOR.load(SeqCst);
    drop(arena);
    println!(
        "dtor before arena drop = {}, after = {}",
        dtor_before_drop,
        DTOR.load(SeqCst)
    );

    if dtor_before_drop >= 1 {
        println!(
            "VIOLATION: a Session value was destructed while a Gc<Session> to it was still rooted and dereferenceable"
        );
    }
}
