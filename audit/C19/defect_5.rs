//! Attack 11: token injection through the `where` tokens of `dyn_collect!` (same idea as attack
//! 10, but in a macro_rules macro): the "bounds" close the `unsafe impl Collect` with an empty body
//! (default no-op `trace`) and divert the generated body into an inherent impl of a dummy type.
#![forbid(unsafe_code)]
use std::sync::atomic::{AtomicUsize, Ordering::SeqCst};

use gc_arena::{Arena, Collect, Gc, Rootable, collect::dyn_collect};

static DROPPED: AtomicUsize = AtomicUsize::new(0);

struct Payload(u64);
impl Drop for Payload {
    fn drop(&mut self) {
        self.0 = 0xDEAD_DEAD_DEAD_DEAD;
        DROPPED.fetch_add(1, SeqCst);
    }
}

struct Untraced<'gc> {
    ptr: Gc<'gc, Payload>,
}

#[derive(Collect)]
#[collect(no_drop)]
struct Dummy<'gc>(Gc<'gc, ()>);

dyn_collect!(<'x> Untraced<'gc> where u8: Copy {} impl<'gc> Dummy<'gc>);

fn main() {
    let mut arena = Arena::<Rootable![Untraced<'_>]>::new(|mc| Untraced {
        ptr: Gc::new_static(mc, Payload(0x1234_5678)),
    });
    arena.mutate(|_, root| println!("before collection: payload = {:#x}", root.ptr.0));
    arena.finish_cycle();
    arena.mutate(|_, root| {
        println!(
            "after collection: payload destructors run = {}, rooted Gc reads {:#x}",
            DROPPED.load(SeqCst),
            root.ptr.0
        )
    });
}
