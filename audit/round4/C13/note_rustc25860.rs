#![forbid(unsafe_code)]
// NOTE (NOT a gc-arena defect): rustc issue #25860 (implied bounds on nested references + fn-pointer contravariance)
// lets safe code rebrand a Gc<'a, T> as Gc<'b, T>. No gc-arena API is involved in the unsound step.
use gc_arena::{Arena, Gc, Rootable, Static};
use std::cell::Cell;
use std::rc::Rc;

struct Flag(Rc<Cell<bool>>);
impl Drop for Flag { fn drop(&mut self) { self.0.set(true); } }

fn rebrand<'a, 'b, T>(_: &'a &'b (), _: &'b &'a (), v: Gc<'a, T>) -> Gc<'b, T> { v }

fn escape<'a, T>(v: Gc<'a, T>) -> Gc<'static, T> {
    let f: for<'x> fn(&'static &'static (), &'static &'static (), Gc<'x, T>) -> Gc<'static, T> = rebrand;
    f(&&(), &&(), v)
}

fn main() {
    let dropped = Rc::new(Cell::new(false));
    let d2 = dropped.clone();
    let mut arena = Arena::<Rootable![()]>::new(|_| ());
    let stolen: Gc<'static, Static<Flag>> = arena.mutate(|mc, _| escape(Gc::new(mc, Static(Flag(d2)))));
    arena.finish_cycle();
    arena.finish_cycle();
    println!("escaped Gc still held, pointee dropped = {}", dropped.get());
    let _ = stolen;
}
