#![forbid(unsafe_code)]
use gc_arena::*;
#[derive(Collect)]
#[collect(unsafe_drop)]
struct Root<'gc> { p: Gc<'gc, String> }
impl<'gc> Drop for Root<'gc> { fn drop(&mut self) { println!("root dtor reads: {:?}", self.p.len()); } }
fn main() {
    let a = Arena::<Rootable![Root<'_>]>::new(|mc| Root { p: Gc::new(mc, "x".repeat(100)) });
    drop(a);
}
