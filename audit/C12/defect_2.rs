#![forbid(unsafe_code)]
// Attack B2: same brand collapse, but with a root that IS `Collect` for every 'gc
// (PhantomData<T>: Collect has no bound on T), so the arena is fully functional (collections run)
// while every callback sees 'gc == 'static.
use gc_arena::{Arena, Collect, Gc, Rootable, Static, lock::RefLock};
use std::cell::Cell;
use std::marker::PhantomData;
use std::sync::atomic::{AtomicUsize, Ordering};

static DROPS: AtomicUsize = AtomicUsize::new(0);
struct Payload(u64);
impl Drop for Payload {
    fn drop(&mut self) {
        self.0 = 0xDEAD;
        DROPS.fetch_add(1, Ordering::SeqCst);
    }
}

#[derive(Collect)]
#[collect(no_drop)]
struct Root<'gc> {
    slot: Gc<'gc, RefLock<Option<Gc<'gc, Static<Payload>>>>>,
}

// WF of the marker implies `'gc: 'static`; it is hidden under Rootable!'s `for<'gc>` binder.
type Collapsed<'gc> = (Root<'gc>, PhantomData<&'static Gc<'gc, ()>>);
type MyArena = Arena<Rootable![Collapsed<'_>]>;

thread_local! {
    static STASH: Cell<Option<Gc<'static, Static<Payload>>>> = Cell::new(None);
}

fn new_arena() -> MyArena {
    Arena::new(|mc| (Root { slot: Gc::new(mc, RefLock::new(None)) }, PhantomData))
}

fn main() {
    // 1. escape to a 'static location + dangling after a *collection* (not arena drop)
    let mut a = new_arena();
    a.mutate(|mc, _root| {
        let g = Gc::new(mc, Static(Payload(1)));
        STASH.with(|s| s.set(Some(g))); // Gc<'gc> == Gc<'static>
    });
    a.finish_cycle();
    a.finish_cycle();
    println!("after collection: payload drops = {}", DROPS.load(Ordering::SeqCst));
    let dangling = STASH.with(|s| s.get()).unwrap();
    if std::env::var_os("READ_FREED").is_some() {
        println!("read through escaped Gc: {:#x}", dangling.0.0);
    }

    // 2. cross-arena: a pointer of arena `b` is stored in the object graph of arena `a`.
    let b = new_arena();
    b.mutate(|mc, _| {
        let g = Gc::new(mc, Static(Payload(2)));
        STASH.with(|s| s.set(Some(g)));
    });
    a.mutate(|mc, root| {
        let foreign = STASH.with(|s| s.get()).unwrap();
        *root.0.slot.borrow_mut(mc) = Some(foreign); // foreign Gc adopted by arena a
    });
    drop(b); // frees Payload(2)
    println!("after dropping arena b: payload drops = {}", DROPS.load(Ordering::SeqCst));
    a.mutate(|_, root| {
        let g = root.0.slot.borrow().unwrap();
        println!("arena a still reaches arena b's (freed) object at {:p}", Gc::as_ptr(g));
        if std::env::var_os("READ_FREED").is_some() {
            println!("read: {:#x}", g.0.0);
        }
    });
    // collecting `a` now would trace a freed header (UB), so stop here.
    std::mem::forget(a);
}
