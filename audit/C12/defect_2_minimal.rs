#![forbid(unsafe_code)]
// Attack B: root type whose well-formedness implies `'gc: 'static`, hidden under the
// `for<'gc>` binder of `Rootable!`. Inside the callbacks the brand is then equal to 'static and
// branded pointers can be parked in a thread-local.
use gc_arena::{Arena, Gc, Rootable, Static};
use std::cell::Cell;
use std::sync::atomic::{AtomicBool, Ordering};

static DROPPED: AtomicBool = AtomicBool::new(false);
struct Payload(u64);
impl Drop for Payload {
    fn drop(&mut self) {
        self.0 = 0xDEAD;
        DROPPED.store(true, Ordering::SeqCst);
    }
}

thread_local! {
    static STASH: Cell<Option<Gc<'static, Static<Payload>>>> = Cell::new(None);
}

fn main() {
    let arena = Arena::<Rootable![&'static Gc<'_, Static<Payload>>]>::new(|mc| {
        let g = Gc::new(mc, Static(Payload(0x1234)));
        STASH.with(|s| s.set(Some(g)));
        Box::leak(Box::new(g))
    });
    drop(arena);
    let g = STASH.with(|s| s.get()).unwrap();
    println!("escaped Gc<'static>; pointee destructed: {}", DROPPED.load(Ordering::SeqCst));
    if std::env::var_os("READ_FREED").is_some() {
        println!("value = {:#x}", g.0.0);
    }
}
