#![forbid(unsafe_code)]
// Attack A: the root type is never required to be `Collect` for Arena::new / mutate / drop.
// `Arena` drops its `context` field (freeing every Gc allocation) BEFORE its `root` field, so a
// root with a `Drop` impl observes its Gc pointers after the arena has destructed + freed them.
use gc_arena::{Arena, Gc, Rootable, Static};
use std::sync::atomic::{AtomicBool, AtomicUsize, Ordering};

static PAYLOAD_DROPPED: AtomicBool = AtomicBool::new(false);
static PAYLOAD_DROPS: AtomicUsize = AtomicUsize::new(0);

struct Payload {
    sentinel: u64,
}
impl Drop for Payload {
    fn drop(&mut self) {
        self.sentinel = 0xDEAD_DEAD_DEAD_DEAD;
        PAYLOAD_DROPPED.store(true, Ordering::SeqCst);
        PAYLOAD_DROPS.fetch_add(1, Ordering::SeqCst);
    }
}

struct MyRoot<'gc> {
    ptr: Gc<'gc, Static<Payload>>,
}

impl<'gc> Drop for MyRoot<'gc> {
    fn drop(&mut self) {
        let already = PAYLOAD_DROPPED.load(Ordering::SeqCst);
        println!(
            "MyRoot::drop: still holds a Gc; pointee already destructed+freed by the arena? {already}"
        );
        if already && std::env::var_os("READ_FREED").is_some() {
            // use-after-free read through a safe `Gc` deref
            println!("   sentinel read through dangling Gc = {:#x}", self.ptr.0.sentinel);
        }
    }
}

fn main() {
    let arena = Arena::<Rootable![MyRoot<'_>]>::new(|mc| MyRoot {
        ptr: Gc::new(mc, Static(Payload { sentinel: 0x1111_2222_3333_4444 })),
    });
    arena.mutate(|_, root| {
        println!("inside mutate: sentinel = {:#x}", root.ptr.0.sentinel);
    });
    drop(arena);
    println!("payload destructor ran {} time(s)", PAYLOAD_DROPS.load(Ordering::SeqCst));
}
