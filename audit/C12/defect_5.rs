#![forbid(unsafe_code)]
// Attack T (feature "tracing"): a panicking `tracing::Subscriber` (safe trait) unwinds out of
// `PhaseGuard::switch(Phase::Sweep)` after `phase = Sweep` was stored but before
// `cx.sweep = cx.all.get()`. The sweep of that cycle is skipped, every object stays Black, and the
// next cycle treats all old objects as "already marked" without tracing them: anything newly
// stored into an old object is freed while still reachable from the root.
use gc_arena::{lock::RefLock, Arena, Gc, Rootable, Static};
use std::panic::{catch_unwind, AssertUnwindSafe};
use std::sync::atomic::{AtomicBool, Ordering};
use tracing::{span, Event, Metadata, Subscriber};

static ARMED: AtomicBool = AtomicBool::new(false);
static DROPPED: AtomicBool = AtomicBool::new(false);

struct Evil;
impl Subscriber for Evil {
    fn enabled(&self, _: &Metadata<'_>) -> bool { true }
    fn new_span(&self, _: &span::Attributes<'_>) -> span::Id {
        if ARMED.swap(false, Ordering::SeqCst) {
            panic!("subscriber panics while the collector switches phase");
        }
        span::Id::from_u64(1)
    }
    fn record(&self, _: &span::Id, _: &span::Record<'_>) {}
    fn record_follows_from(&self, _: &span::Id, _: &span::Id) {}
    fn event(&self, _: &Event<'_>) {}
    fn enter(&self, _: &span::Id) {}
    fn exit(&self, _: &span::Id) {}
}

struct Payload(u64);
impl Drop for Payload {
    fn drop(&mut self) { self.0 = 0xDEAD; DROPPED.store(true, Ordering::SeqCst); }
}

type Root<'gc> = Gc<'gc, RefLock<Option<Gc<'gc, Static<Payload>>>>>;

fn main() {
    tracing::subscriber::set_global_default(Evil).unwrap();
    let mut arena = Arena::<Rootable![Root<'_>]>::new(|mc| Gc::new(mc, RefLock::new(None)));

    arena.finish_marking(); // phase = Mark, everything black
    ARMED.store(true, Ordering::SeqCst);
    let r = catch_unwind(AssertUnwindSafe(|| arena.finish_cycle()));
    println!("collector panicked in the subscriber: {}", r.is_err());
    println!("phase after the panic: {:?}", arena.collection_phase());

    arena.mutate(|mc, root| {
        *root.borrow_mut(mc) = Some(Gc::new(mc, Static(Payload(0x1234))));
    });
    arena.finish_cycle(); // "finishes" the sweep that never started
    arena.finish_cycle(); // full cycle: the old root object is still black => not traced
    arena.mutate(|_, root| {
        let p = root.borrow().unwrap();
        println!(
            "payload is reachable from the root at {:p}; destructed+freed: {}",
            Gc::as_ptr(p),
            DROPPED.load(Ordering::SeqCst)
        );
        if std::env::var_os("READ_FREED").is_some() {
            println!("read through dangling Gc: {:#x}", p.0.0);
        }
    });
    std::mem::forget(arena);
}
