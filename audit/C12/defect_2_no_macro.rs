#![forbid(unsafe_code)]
// no macro of the crate: only the public `Rootable` trait and a trait object naming it
use gc_arena::{Arena, Gc, Rootable};
use std::cell::Cell;
use std::marker::PhantomData;
struct W<T: ?Sized>(PhantomData<T>);
impl<'a, T: ?Sized + Rootable<'a>> Rootable<'a> for W<T> {
    type Root = <T as Rootable<'a>>::Root;
}
thread_local! { static STASH: Cell<Option<Gc<'static, i32>>> = Cell::new(None); }
fn main() {
    let arena = Arena::<W<dyn for<'a> Rootable<'a, Root = PhantomData<&'static Gc<'a, i32>>>>>::new(|mc| {
        STASH.with(|s| s.set(Some(Gc::new(mc, 7))));
        PhantomData
    });
    drop(arena);
    println!("escaped: {:p}", Gc::as_ptr(STASH.with(|s| s.get()).unwrap()));
}
