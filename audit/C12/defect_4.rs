#![forbid(unsafe_code)]
// Attack C2: `dyn_collect!` with its raw-token `where` tail: the macro's `unsafe impl Collect`
// header receives OUR body, and the macro's own body is attached to a harmless local trait.
use gc_arena::{collect::{dyn_collect, Trace}, Arena, Collect, Gc, Rootable, Static};
use std::cell::RefCell;
use std::sync::atomic::{AtomicUsize, Ordering};

static DROPS: AtomicUsize = AtomicUsize::new(0);
struct Payload(u64);
impl Drop for Payload {
    fn drop(&mut self) { self.0 = 0xDEAD; DROPS.fetch_add(1, Ordering::SeqCst); }
}

struct Evil<'gc> {
    escaped_ref: RefCell<Option<&'gc Static<Payload>>>,
}
trait Sink<'gc> { fn trace<T: Trace<'gc>>(&self, cc: &mut T); }

dyn_collect!(<'a> Evil<'gc> where 'a: 'a { const NEEDS_TRACE: bool = false; } impl<'gc> Sink<'gc> for Evil<'gc>);

#[derive(Collect)]
#[collect(no_drop)]
struct Root<'gc> { evil: Evil<'gc> }

fn main() {
    let mut arena = Arena::<Rootable![Root<'_>]>::new(|_| Root { evil: Evil { escaped_ref: RefCell::new(None) } });
    arena.mutate(|mc, root| {
        *root.evil.escaped_ref.borrow_mut() = Some(Gc::new(mc, Static(Payload(1))).as_ref());
    });
    arena.finish_cycle();
    arena.finish_cycle();
    arena.mutate(|_, root| {
        let r = root.evil.escaped_ref.borrow().unwrap();
        println!("root holds &'gc Payload at {:p}; payload destructors run: {}", r, DROPS.load(Ordering::SeqCst));
        if std::env::var_os("READ_FREED").is_some() { println!("read: {:#x}", r.0.0); }
    });
}
