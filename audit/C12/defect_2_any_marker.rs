#![forbid(unsafe_code)]
use gc_arena::{Arena, Gc, Rootable};
use std::any::Any;
use std::cell::Cell;
thread_local! { static STASH: Cell<Option<Gc<'static, i32>>> = Cell::new(None); }
fn main() {
    let mut arena = Arena::<Rootable![Option<Gc<'_, dyn Any + '_>>]>::new(|mc| {
        STASH.with(|s| s.set(Some(Gc::new(mc, 7))));
        None
    });
    arena.finish_cycle();
    println!("escaped: {:p}", Gc::as_ptr(STASH.with(|s| s.get()).unwrap()));
}
