#![forbid(unsafe_code)]
// Attack C: `dyn_collect!` accepts any `$trait:ty` and emits `unsafe impl Collect for $trait`.
// Given a plain struct it hands out a Collect impl (never callable: infinite recursion) for a type
// that has a Drop impl touching its Gc pointers / holding `&'gc` references.
use gc_arena::{Gc, Static, collect::dyn_collect, lock::Lock, arena::rootless_mutate};
use std::sync::atomic::{AtomicBool, Ordering};

static DROPPED: AtomicBool = AtomicBool::new(false);
struct Payload(u64);
impl Drop for Payload {
    fn drop(&mut self) {
        self.0 = 0xDEAD;
        DROPPED.store(true, Ordering::SeqCst);
    }
}

struct Evil<'gc> {
    strong: Lock<Option<Gc<'gc, Static<Payload>>>>,
    plain_ref: Lock<Option<&'gc Static<Payload>>>, // a `&'gc T` stored inside the GC heap
}
impl<'gc> Drop for Evil<'gc> {
    fn drop(&mut self) {
        println!(
            "Evil::drop holds Gc + &'gc; pointee already destructed and freed: {}",
            DROPPED.load(Ordering::SeqCst)
        );
        if std::env::var_os("READ_FREED").is_some() {
            println!("  via Gc   : {:#x}", self.strong.get_mut().unwrap().0.0);
            println!("  via &'gc : {:#x}", self.plain_ref.get_mut().unwrap().0.0);
        }
    }
}
dyn_collect!(Evil<'gc>);

fn main() {
    rootless_mutate(|mc| {
        // allocate Evil first so that it is destructed AFTER the payload (list is newest-first)
        let evil = Gc::new(mc, Evil { strong: Lock::new(None), plain_ref: Lock::new(None) });
        let p = Gc::new(mc, Static(Payload(0x1234)));
        let w = Gc::write(mc, evil);
        gc_arena::barrier::field!(w, Evil, strong).unlock().set(Some(p));
        gc_arena::barrier::field!(w, Evil, plain_ref).unlock().set(Some(p.as_ref()));
    });
}
