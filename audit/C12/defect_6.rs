#![forbid(unsafe_code)]
// Attack E: ZstCache::alloc takes `t: T` by value and, for a ZST, drops it on the spot while
// handing out a Gc<T> that keeps dereferencing to "the" value.
use gc_arena::{zst_cache::ZstCache, arena::rootless_mutate, Static, Gc};
use std::sync::atomic::{AtomicUsize, Ordering};
static LIVE: AtomicUsize = AtomicUsize::new(0);
struct Token(());
impl Token { fn new() -> Token { LIVE.fetch_add(1, Ordering::SeqCst); Token(()) } 
  fn use_it(&self) { println!("using a Token while LIVE tokens = {}", LIVE.load(Ordering::SeqCst)); } }
impl Drop for Token { fn drop(&mut self) { LIVE.fetch_sub(1, Ordering::SeqCst); println!("Token destructed"); } }
fn main() {
    rootless_mutate(|mc| {
        let cache = ZstCache::<8>::new(mc);
        let g: Gc<'_, Token> = cache.alloc_static(mc, Token::new());
        g.use_it();
        let g2: Gc<'_, Static<Token>> = cache.alloc(mc, Static(Token::new()));
        g2.0.use_it();
        println!("end of callback");
    });
    println!("after arena: LIVE={}", LIVE.load(Ordering::SeqCst));
}
