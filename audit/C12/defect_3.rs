#![forbid(unsafe_code)]
// Attack "bound injection": `#[collect(bound = "...")]` is documented as safe ("only changes the
// trait bounds"), but the string is spliced as raw tokens right after `for @Self` into
// synstructure's `gen unsafe impl ... for @Self <HERE> { <generated body> }`. Supplying our own
// `{ body }` makes the derive emit `unsafe impl Collect for T { <our body> }`; the generated
// (tracing) body is then swallowed by a no-op macro. Result: a derive-generated, trace-less
// `Collect` impl for a type that holds `&'gc T` references and untraced `Gc`s.
use gc_arena::{lock::RefLock, Arena, Collect, Gc, Rootable, Static};
use std::cell::RefCell;
use std::sync::atomic::{AtomicUsize, Ordering};

static DROPS: AtomicUsize = AtomicUsize::new(0);
struct Payload(u64);
impl Drop for Payload {
    fn drop(&mut self) {
        self.0 = 0xDEAD;
        DROPS.fetch_add(1, Ordering::SeqCst);
    }
}

macro_rules! swallow { ($($t:tt)*) => {}; }

#[derive(Collect)]
#[collect(no_drop, bound = "{ const NEEDS_TRACE: bool = false; } swallow!")]
struct Evil<'gc> {
    // a plain `&'gc T` obtained from Gc::as_ref, parked in the arena root
    escaped_ref: RefCell<Option<&'gc Static<Payload>>>,
    // an untraced Gc behind an ordinary RefCell (no write barrier, no tracing)
    untraced: RefCell<Option<Gc<'gc, Static<Payload>>>>,
}

#[derive(Collect)]
#[collect(no_drop)]
struct Root<'gc> {
    evil: Evil<'gc>,
    _keep: Gc<'gc, RefLock<i32>>,
}

fn main() {
    let mut arena = Arena::<Rootable![Root<'_>]>::new(|mc| Root {
        evil: Evil { escaped_ref: RefCell::new(None), untraced: RefCell::new(None) },
        _keep: Gc::new(mc, RefLock::new(0)),
    });
    arena.mutate(|mc, root| {
        let p = Gc::new(mc, Static(Payload(0x1234)));
        *root.evil.escaped_ref.borrow_mut() = Some(p.as_ref()); // &'gc T outlives this callback
        *root.evil.untraced.borrow_mut() = Some(p);
    });
    arena.finish_cycle();
    arena.finish_cycle();
    println!("payload destructors run by the collector: {}", DROPS.load(Ordering::SeqCst));
    arena.mutate(|_, root| {
        let r: &Static<Payload> = root.evil.escaped_ref.borrow().unwrap();
        let g = root.evil.untraced.borrow().unwrap();
        println!("root still holds &'gc Payload at {:p} and Gc at {:p}", r, Gc::as_ptr(g));
        if std::env::var_os("READ_FREED").is_some() {
            println!("read via &'gc: {:#x}, via Gc: {:#x}", r.0.0, g.0.0);
        }
    });
}
