#![forbid(unsafe_code)]
// Attack A: Arena::new / mutate do not require Root: Collect, and `Arena` drops its `context`
// (freeing every Gc object) BEFORE it drops `root`. A root type with a Drop impl can therefore
// dereference Gc pointers that have already been destructed and deallocated.

use std::sync::atomic::{AtomicUsize, Ordering};

use gc_arena::{Arena, Gc, Rootable};

static CANARY_DROPS: AtomicUsize = AtomicUsize::new(0);

struct Canary {
    sentinel: u64,
    text: String,
}

impl Drop for Canary {
    fn drop(&mut self) {
        CANARY_DROPS.fetch_add(1, Ordering::SeqCst);
        self.sentinel = 0xDEAD_DEAD_DEAD_DEAD;
    }
}

// NOT Collect: no derive, no unsafe impl.
struct EvilRoot<'gc> {
    ptr: Gc<'gc, Canary>,
}

impl<'gc> Drop for EvilRoot<'gc> {
    fn drop(&mut self) {
        let drops = CANARY_DROPS.load(Ordering::SeqCst);
        println!("EvilRoot::drop: canary destructor has run {drops} time(s) already");
        // The Gc is still held by the (live) root and safe code may dereference it:
        println!(
            "EvilRoot::drop: reading through the Gc: sentinel = {:#x}",
            self.ptr.sentinel
        );
        if std::env::var_os("READ_STRING").is_some() {
            println!("text = {:?}", self.ptr.text);
        }
        if drops > 0 {
            println!("VIOLATION: root-reachable Gc points to a destructed + freed object");
        }
    }
}

fn main() {
    let arena = Arena::<Rootable![EvilRoot<'_>]>::new(|mc| EvilRoot {
        ptr: Gc::new_static(
            mc,
            Canary {
                sentinel: 0x1234_5678_9ABC_DEF0,
                text: String::from("hello, this is a heap string owned by the canary"),
            },
        ),
    });
    arena.mutate(|_, root| {
        println!("before: sentinel = {:#x}", root.ptr.sentinel);
    });
    drop(arena);
}
