#![forbid(unsafe_code)]
// Attack B2: token injection through the `where` clause of `dyn_collect!`: the `$bounds:tt`
// repetition swallows a whole `{ ... }` impl body, so the macro's own `unsafe impl Collect`
// header is completed with caller-provided items (and the macro's real body lands on a decoy
// impl). Safe code thereby writes an arbitrary `Collect` impl: here for a type that keeps a `Gc`
// in a plain `RefCell`, i.e. adopts pointers without any write barrier.

use std::cell::RefCell;
use std::sync::atomic::{AtomicUsize, Ordering};

use gc_arena::{Arena, Gc, Rootable, collect::Trace, collect::dyn_collect};

static CANARY_DROPS: AtomicUsize = AtomicUsize::new(0);

struct Canary {
    sentinel: u64,
}

impl Drop for Canary {
    fn drop(&mut self) {
        CANARY_DROPS.fetch_add(1, Ordering::SeqCst);
        self.sentinel = 0xDEAD_DEAD_DEAD_DEAD;
    }
}

struct Evil<'gc> {
    slot: RefCell<Option<Gc<'gc, Canary>>>,
}

trait Decoy<'gc> {
    fn trace<_T: Trace<'gc>>(&self, cc: &mut _T);
}

// Expands to
//   unsafe impl<'gc, 'x> Collect<'gc> for Evil<'gc> where 'gc: 'x { <our items> }
//   impl<'gc> Decoy<'gc> for u8 { <the macro's trace fn> }
dyn_collect!(<'x> Evil<'gc> where 'gc: 'x {
    fn trace<T: Trace<'gc>>(&self, cc: &mut T) {
        // A perfectly honest trace; the only thing missing is the write barrier.
        cc.trace(&*self.slot.borrow());
    }
} impl<'gc> Decoy<'gc> for u8);

fn main() {
    let mut arena = Arena::<Rootable![Gc<'_, Evil<'_>>]>::new(|mc| {
        Gc::new(
            mc,
            Evil {
                slot: RefCell::new(None),
            },
        )
    });

    // Mark everything: the root object is now black and the collector stays in the mark phase.
    let marked = arena.finish_marking();
    assert!(marked.is_some());
    drop(marked);

    // The black object adopts a fresh (white) pointer through a plain RefCell: no barrier.
    arena.mutate(|mc, root| {
        let canary = Gc::new_static(
            mc,
            Canary {
                sentinel: 0x1234_5678_9ABC_DEF0,
            },
        );
        *root.slot.borrow_mut() = Some(canary);
    });

    arena.finish_cycle();

    arena.mutate(|_, root| {
        let canary = root.slot.borrow().unwrap();
        let drops = CANARY_DROPS.load(Ordering::SeqCst);
        println!("canary destructor ran {drops} time(s) while the canary is reachable from the root");
        println!("sentinel read through the reachable Gc = {:#x}", canary.sentinel);
        if drops > 0 {
            println!("VIOLATION: reachable object was destructed and freed (missing write barrier)");
        }
    });
}
