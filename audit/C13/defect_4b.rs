#![forbid(unsafe_code)]
// Variant of attack A without any user Drop impl: the root is a `std::cell::Ref` guard borrowed
// from a GC'd `RefLock`; dropping the arena frees the `RefLock` first and then runs `Ref::drop`,
// which decrements the borrow counter inside the freed allocation (use-after-free write).
use std::cell::Ref;
use gc_arena::{Arena, Gc, RefLock, Rootable};
fn main() {
    let arena = Arena::<Rootable![Ref<'_, [u64; 4]>]>::new(|mc| Gc::new(mc, RefLock::new([7u64; 4])).borrow());
    arena.mutate(|_, root| println!("root[0] = {}", root[0]));
    drop(arena);
    println!("arena dropped");
}
