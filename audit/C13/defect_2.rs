#![forbid(unsafe_code)]
// Attack B3: the `#[collect(bound = "...")]` string of `#[derive(Collect)]` is spliced verbatim
// in front of the generated impl body. A `{ ... }` group inside the string terminates the
// `unsafe impl Collect` early with caller-chosen items, and the derive's real body lands on a
// decoy impl. Safe code thereby writes an arbitrary `Collect` impl.

use std::cell::RefCell;
use std::sync::atomic::{AtomicUsize, Ordering};

use gc_arena::{Arena, Collect, Gc, Rootable, collect::Trace};

static CANARY_DROPS: AtomicUsize = AtomicUsize::new(0);

struct Canary {
    sentinel: u64,
}

impl Drop for Canary {
    fn drop(&mut self) {
        CANARY_DROPS.fetch_add(1, Ordering::SeqCst);
        self.sentinel = 0xDEAD_DEAD_DEAD_DEAD;
    }
}

trait Decoy<'gc> {
    const NEEDS_TRACE: bool;
    fn trace<T: Trace<'gc>>(&self, cc: &mut T);
}

#[derive(Collect)]
#[collect(
    no_drop,
    bound = "where T: Sized { const NEEDS_TRACE: bool = false; } impl<'gc, T: Collect<'gc>> Decoy<'gc> for Evil<T>"
)]
struct Evil<T> {
    inner: T,
}

fn main() {
    // `RefCell<Option<Gc<..>>>` is not `Collect`, but `Evil<RefCell<..>>` now is (and claims that
    // it never needs tracing).
    type Slot<'gc> = Evil<RefCell<Option<Gc<'gc, Canary>>>>;

    let mut arena = Arena::<Rootable![Gc<'_, Slot<'_>>]>::new(|mc| {
        Gc::new(
            mc,
            Evil {
                inner: RefCell::new(None),
            },
        )
    });

    arena.mutate(|mc, root| {
        let canary = Gc::new_static(
            mc,
            Canary {
                sentinel: 0x1234_5678_9ABC_DEF0,
            },
        );
        // Adopted through a plain RefCell: no write barrier (and never traced).
        *root.inner.borrow_mut() = Some(canary);
    });

    arena.finish_cycle();

    arena.mutate(|_, root| {
        let canary = root.inner.borrow().unwrap();
        let drops = CANARY_DROPS.load(Ordering::SeqCst);
        println!("canary destructor ran {drops} time(s) while the canary is reachable from the root");
        println!("sentinel read through the reachable Gc = {:#x}", canary.sentinel);
        if drops > 0 {
            println!("VIOLATION: reachable object was destructed and freed");
        }
    });
}
