#![forbid(unsafe_code)]
// Attack C: ZstCache::alloc / alloc_static take a `T` by value, and for a ZST simply let it fall
// out of scope (its destructor runs immediately) while handing out a `Gc<T>` that safe code can
// dereference to a `&T` for the rest of the arena's life.

use std::sync::atomic::{AtomicBool, Ordering};

use gc_arena::{Arena, Gc, Rootable, zst_cache::ZstCache};

static LOCK_HELD: AtomicBool = AtomicBool::new(false);

/// A zero-sized proof token: while a `Guard` exists, LOCK_HELD is true.
pub struct Guard(());

impl Guard {
    pub fn acquire() -> Guard {
        assert!(!LOCK_HELD.swap(true, Ordering::SeqCst));
        Guard(())
    }
    /// Only callable with a live guard, so this assertion "cannot fail".
    pub fn with_lock(&self) {
        if LOCK_HELD.load(Ordering::SeqCst) {
            println!("with_lock: lock held, ok");
        } else {
            println!("VIOLATION: &Guard observed after Guard::drop ran (destructed value observed)");
        }
    }
}

impl Drop for Guard {
    fn drop(&mut self) {
        println!("Guard::drop");
        LOCK_HELD.store(false, Ordering::SeqCst);
    }
}

fn main() {
    let arena = Arena::<Rootable![ZstCache<'_, 8>]>::new(|mc| ZstCache::new(mc));
    arena.mutate(|mc, cache| {
        let g: Gc<Guard> = cache.alloc_static(mc, Guard::acquire());
        g.with_lock();
        // For comparison, the non-cached path keeps the value alive until collected:
        let g2: Gc<Guard> = Gc::new_static(mc, Guard::acquire());
        g2.with_lock();
    });
}
