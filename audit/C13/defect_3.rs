#![forbid(unsafe_code)]
// Attack B: `dyn_collect!` accepts any `$ty`, not only `dyn Trait` types. For a sized local type
// the generated `unsafe impl Collect` type-checks through the blanket `DynCollect` impl (which
// needs `Evil: Collect`, i.e. the very impl being generated), so safe code obtains a `Collect`
// impl for an arbitrary type: one with a `RefCell<Option<Gc>>` field (no barrier) and a `Drop`
// impl that dereferences its `Gc`.

use std::cell::RefCell;
use std::sync::atomic::{AtomicUsize, Ordering};

use gc_arena::{Arena, Gc, Rootable, collect::dyn_collect};

static CANARY_DROPS: AtomicUsize = AtomicUsize::new(0);

struct Canary {
    sentinel: u64,
}

impl Drop for Canary {
    fn drop(&mut self) {
        CANARY_DROPS.fetch_add(1, Ordering::SeqCst);
        self.sentinel = 0xDEAD_DEAD_DEAD_DEAD;
    }
}

struct Evil<'gc> {
    // plain RefCell holding a Gc: must not be possible in a Collect type
    slot: RefCell<Option<Gc<'gc, Canary>>>,
}

dyn_collect!(Evil<'gc>);

impl<'gc> Drop for Evil<'gc> {
    fn drop(&mut self) {
        let drops = CANARY_DROPS.load(Ordering::SeqCst);
        if let Some(c) = *self.slot.borrow() {
            println!("Evil::drop: canary destructor already ran {drops} time(s)");
            println!("Evil::drop: reading through Gc: sentinel = {:#x}", c.sentinel);
            if drops > 0 {
                println!("VIOLATION: Gc held by a GC object dangles (object destructed + freed)");
            }
        }
    }
}

fn main() {
    let mut arena = Arena::<Rootable![()]>::new(|_| ());
    arena.mutate(|mc, _| {
        // `Evil` is allocated first, so it is swept *after* the canary.
        let evil = Gc::new(
            mc,
            Evil {
                slot: RefCell::new(None),
            },
        );
        let canary = Gc::new_static(
            mc,
            Canary {
                sentinel: 0x1234_5678_9ABC_DEF0,
            },
        );
        // Adoption of a pointer by an allocated object through a plain RefCell, no barrier.
        *evil.slot.borrow_mut() = Some(canary);
        println!("adopted without barrier; sentinel = {:#x}", canary.sentinel);
    });
    // Both objects are unreachable; the sweep frees the canary, then runs `Evil::drop`.
    arena.finish_cycle();
    println!("done");
}
