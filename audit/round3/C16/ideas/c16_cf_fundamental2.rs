#![forbid(unsafe_code)]
use gc_arena::{Collect, Gc, static_collect};
struct Local<'a>(Option<Gc<'a, u8>>);
static_collect!(<'a> Box<Local<'a>>);
fn nt<'gc, T: Collect<'gc>>() -> bool { T::NEEDS_TRACE }
fn f<'gc>() -> bool { nt::<'gc, Box<Local<'gc>>>() }
fn main() { println!("{}", f()); }
