#![forbid(unsafe_code)]
use gc_arena::{Collect, static_collect};
struct Local<T>(T);
static_collect!(<T> Box<Local<T>>);
fn nt<'gc, T: Collect<'gc>>() -> bool { T::NEEDS_TRACE }
fn main() { println!("Box<Local<u8>>::NEEDS_TRACE = {}", nt::<Box<Local<u8>>>()); }
