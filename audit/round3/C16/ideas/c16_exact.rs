#![forbid(unsafe_code)]
// Systematic exactness check of every provided container impl with a recording `Trace`.
// Run with --all-features.
use std::cell::RefCell;
use std::collections::*;
use std::rc::Rc;
use std::sync::Arc;

use gc_arena::collect::Trace;
use gc_arena::lock::OnceLock;
use gc_arena::{
    Collect, Gc, GcWeak, Lock, Mutation, RefLock, arena::rootless_mutate,
    slice::GcSliceWithHeaderBuilder,
};

#[derive(Default)]
struct Rec {
    strong: Vec<usize>,
    weak: Vec<usize>,
}

impl<'gc> Trace<'gc> for Rec {
    fn trace_gc(&mut self, gc: Gc<'gc, ()>) {
        self.strong.push(Gc::as_ptr(gc) as usize);
    }
    fn trace_gc_weak(&mut self, gc: GcWeak<'gc, ()>) {
        self.weak.push(GcWeak::as_ptr(gc) as usize);
    }
}

struct Src<'a, 'gc> {
    mc: &'a Mutation<'gc>,
    strong: RefCell<Vec<usize>>,
    weak: RefCell<Vec<usize>>,
    n: std::cell::Cell<u64>,
}

impl<'a, 'gc> Src<'a, 'gc> {
    fn new(mc: &'a Mutation<'gc>) -> Self {
        Src {
            mc,
            strong: Default::default(),
            weak: Default::default(),
            n: Default::default(),
        }
    }
    fn s(&self) -> Gc<'gc, u64> {
        self.n.set(self.n.get() + 1);
        let g = Gc::new(self.mc, self.n.get());
        self.strong.borrow_mut().push(Gc::as_ptr(g) as usize);
        g
    }
    fn w(&self) -> GcWeak<'gc, u64> {
        self.n.set(self.n.get() + 1);
        let g = Gc::new(self.mc, self.n.get());
        self.weak.borrow_mut().push(Gc::as_ptr(g) as usize);
        Gc::downgrade(g)
    }
}

fn check<'gc, T: Collect<'gc> + ?Sized>(name: &str, src: &Src<'_, 'gc>, v: &T, expect_needs: bool) {
    let mut rec = Rec::default();
    // go through the same entry point as the collector: Trace::trace honours NEEDS_TRACE
    rec.trace(v);
    let mut es = std::mem::take(&mut *src.strong.borrow_mut());
    let mut ew = std::mem::take(&mut *src.weak.borrow_mut());
    es.sort();
    ew.sort();
    rec.strong.sort();
    rec.weak.sort();
    let ok = es == rec.strong && ew == rec.weak && T::NEEDS_TRACE == expect_needs;
    println!(
        "{:<46} strong {:>4}/{:<4} weak {:>4}/{:<4} NEEDS_TRACE={} {}",
        name,
        rec.strong.len(),
        es.len(),
        rec.weak.len(),
        ew.len(),
        T::NEEDS_TRACE,
        if ok { "ok" } else { "MISMATCH <<<<<<<<<<<<<<<<" }
    );
    assert!(ok, "{name}");
}

#[derive(Copy, Clone, Debug, enum_map::Enum, PartialEq, Eq, Hash, PartialOrd, Ord)]
enum E3 {
    A,
    B,
    C,
}

// An `Enum` whose LENGTH lies about the array length (both traits are safe to implement).
#[derive(Copy, Clone)]
struct Liar(usize);
impl enum_map::Enum for Liar {
    const LENGTH: usize = 2;
    fn from_usize(v: usize) -> Self {
        Liar(v)
    }
    fn into_usize(self) -> usize {
        self.0
    }
}
impl<V> enum_map::EnumArray<V> for Liar {
    type Array = [V; 5];
}

slotmap::new_key_type! { struct MyKey; }

trait Obj<'gc>: 'gc + gc_arena::collect::DynCollect<'gc> {}
impl<'gc, T: Collect<'gc> + 'gc> Obj<'gc> for T {}
gc_arena::collect::dyn_collect!(dyn Obj<'gc>);


// Wrappers to give Gc an Ord/Hash by address-independent value
#[derive(Collect, Copy, Clone)]
#[collect(no_drop)]
struct K<'gc>(u64, Gc<'gc, u64>);
impl<'gc> PartialEq for K<'gc> {
    fn eq(&self, o: &Self) -> bool {
        self.0 == o.0
    }
}
impl<'gc> Eq for K<'gc> {}
impl<'gc> PartialOrd for K<'gc> {
    fn partial_cmp(&self, o: &Self) -> Option<std::cmp::Ordering> {
        Some(self.cmp(o))
    }
}
impl<'gc> Ord for K<'gc> {
    fn cmp(&self, o: &Self) -> std::cmp::Ordering {
        self.0.cmp(&o.0)
    }
}
impl<'gc> std::hash::Hash for K<'gc> {
    fn hash<H: std::hash::Hasher>(&self, h: &mut H) {
        self.0.hash(h)
    }
}
#[derive(Collect, Copy, Clone)]
#[collect(no_drop)]
struct KW<'gc>(u64, GcWeak<'gc, u64>);
impl<'gc> PartialEq for KW<'gc> {
    fn eq(&self, o: &Self) -> bool {
        self.0 == o.0
    }
}
impl<'gc> Eq for KW<'gc> {}
impl<'gc> PartialOrd for KW<'gc> {
    fn partial_cmp(&self, o: &Self) -> Option<std::cmp::Ordering> {
        Some(self.cmp(o))
    }
}
impl<'gc> Ord for KW<'gc> {
    fn cmp(&self, o: &Self) -> std::cmp::Ordering {
        self.0.cmp(&o.0)
    }
}
impl<'gc> std::hash::Hash for KW<'gc> {
    fn hash<H: std::hash::Hasher>(&self, h: &mut H) {
        self.0.hash(h)
    }
}

type Bh = std::hash::BuildHasherDefault<std::collections::hash_map::DefaultHasher>;

fn body<'gc>(mc: &Mutation<'gc>) {
    {
        let src = Src::new(mc);
        let s = &src;
        let k = |i: u64| K(i, s.s());
        let kw = |i: u64| KW(i, s.w());

        for &n in &[0usize, 1, 2, 3, 17, 1000] {
            println!("--- size {n}");
            // Option / Result
            check("Option<Gc> Some", s, &Some(s.s()), true);
            check("Option<Gc> None", s, &None::<Gc<u64>>, true);
            check("Option<GcWeak>", s, &Some(s.w()), true);
            check("Result<Gc,()> Ok", s, &Ok::<_, ()>(s.s()), true);
            check("Result<(),Gc> Err", s, &Err::<(), _>(s.s()), true);
            check("Result<Gc,GcWeak> Err", s, &Err::<Gc<u64>, _>(s.w()), true);
            check("Result<u8,u8>", s, &Ok::<u8, u8>(1), false);

            // Vec etc
            let v: Vec<_> = (0..n).map(|_| s.s()).collect();
            check("Vec<Gc>", s, &v, true);
            let v: Vec<_> = (0..n).map(|_| s.w()).collect();
            check("Vec<GcWeak>", s, &v, true);
            let v: Vec<_> = (0..n).map(|_| (s.s(), s.w())).collect();
            check("Vec<(Gc,GcWeak)>", s, &v, true);
            let v: Vec<_> = (0..n).map(|_| (s.s(), s.w())).collect();
            check("[(Gc,GcWeak)] slice", s, &v[..], true);
            let b: Box<[_]> = (0..n).map(|_| (s.s(), s.w())).collect();
            check("Box<[(Gc,GcWeak)]>", s, &b, true);
            let b: Rc<[_]> = (0..n).map(|_| (s.s(), s.w())).collect();
            check("Rc<[(Gc,GcWeak)]>", s, &b, true);
            let b: Arc<[_]> = (0..n).map(|_| (s.s(), s.w())).collect();
            check("Arc<[(Gc,GcWeak)]>", s, &b, true);

            // VecDeque, wrapped around
            let mut d = VecDeque::with_capacity(n + 3);
            for _ in 0..3 {
                d.push_back(s.s());
            }
            for _ in 0..3 {
                d.pop_front();
            }
            s.strong.borrow_mut().clear();
            for i in 0..n {
                if i % 2 == 0 {
                    d.push_back(s.s())
                } else {
                    d.push_front(s.s())
                }
            }
            check("VecDeque<Gc> (wrapped)", s, &d, true);
            let l: LinkedList<_> = (0..n).map(|_| s.w()).collect();
            check("LinkedList<GcWeak>", s, &l, true);
            let h: BinaryHeap<_> = (0..n as u64).map(k).collect();
            check("BinaryHeap<K>", s, &h, true);
            let m: BTreeMap<_, _> = (0..n as u64).map(|i| (k(i), s.w())).collect();
            check("BTreeMap<K,GcWeak>", s, &m, true);
            let m: BTreeMap<_, _> = (0..n as u64).map(|i| (i, s.s())).collect();
            check("BTreeMap<u64,Gc>", s, &m, true);
            let m: BTreeMap<_, _> = (0..n as u64).map(|i| (kw(i), ())).collect();
            check("BTreeMap<KW,()>", s, &m, true);
            let m: BTreeSet<_> = (0..n as u64).map(k).collect();
            check("BTreeSet<K>", s, &m, true);
            let m: HashMap<_, _> = (0..n as u64).map(|i| (k(i), s.w())).collect();
            check("HashMap<K,GcWeak>", s, &m, true);
            let m: HashMap<_, _, Bh> = (0..n as u64).map(|i| (i, s.s())).collect();
            check("HashMap<u64,Gc,Bh>", s, &m, true);
            let m: HashMap<_, _, Bh> = (0..n as u64).map(|i| (kw(i), 0u8)).collect();
            check("HashMap<KW,u8,Bh>", s, &m, true);
            let m: HashSet<_> = (0..n as u64).map(k).collect();
            check("HashSet<K>", s, &m, true);
            let m: HashSet<_, Bh> = (0..n as u64).map(kw).collect();
            check("HashSet<KW,Bh>", s, &m, true);

            // hashbrown
            let m: hashbrown::HashMap<_, _, Bh> = (0..n as u64).map(|i| (k(i), s.w())).collect();
            check("hashbrown::HashMap<K,GcWeak>", s, &m, true);
            let m: hashbrown::HashMap<_, _, Bh> = (0..n as u64).map(|i| (i, s.s())).collect();
            check("hashbrown::HashMap<u64,Gc>", s, &m, true);
            let m: hashbrown::HashSet<_, Bh> = (0..n as u64).map(kw).collect();
            check("hashbrown::HashSet<KW>", s, &m, true);
            let mut t = hashbrown::HashTable::new();
            for i in 0..n as u64 {
                t.insert_unique(i, (s.s(), s.w(), i), |x| x.2);
            }
            // remove a few and re-add to create tombstones
            for i in 0..(n as u64 / 3) {
                if let Ok(e) = t.find_entry(i, |x| x.2 == i) {
                    e.remove();
                }
            }
            {
                // recompute expected from what is accessible
                s.strong.borrow_mut().clear();
                s.weak.borrow_mut().clear();
                for x in t.iter() {
                    s.strong.borrow_mut().push(Gc::as_ptr(x.0) as usize);
                    s.weak.borrow_mut().push(GcWeak::as_ptr(x.1) as usize);
                }
            }
            check("hashbrown::HashTable<(Gc,GcWeak,u64)>", s, &t, true);

            // indexmap
            let mut m: indexmap::IndexMap<_, _, Bh> =
                (0..n as u64).map(|i| (k(i), s.w())).collect();
            check("IndexMap<K,GcWeak>", s, &m, true);
            // swap_remove half then check what remains
            for i in 0..(n as u64 / 2) {
                m.swap_remove(&K(i, Gc::new(mc, 0)));
            }
            for (a, b) in m.iter() {
                s.strong.borrow_mut().push(Gc::as_ptr(a.1) as usize);
                s.weak.borrow_mut().push(GcWeak::as_ptr(*b) as usize);
            }
            check("IndexMap<K,GcWeak> after swap_remove", s, &m, true);
            let m: indexmap::IndexMap<_, _, Bh> = (0..n as u64).map(|i| (i, s.s())).collect();
            check("IndexMap<u64,Gc>", s, &m, true);
            let m: indexmap::IndexSet<_, Bh> = (0..n as u64).map(kw).collect();
            check("IndexSet<KW>", s, &m, true);

            // slotmap
            let mut sm: slotmap::SlotMap<MyKey, _> = slotmap::SlotMap::with_key();
            let mut keys = vec![];
            for _ in 0..n {
                keys.push(sm.insert((s.s(), s.w())));
            }
            check("SlotMap<MyKey,(Gc,GcWeak)>", s, &sm, true);
            for (i, k) in keys.iter().enumerate() {
                if i % 2 == 0 {
                    sm.remove(*k);
                }
            }
            for _ in 0..n / 4 {
                sm.insert((s.s(), s.w()));
            }
            s.strong.borrow_mut().clear();
            s.weak.borrow_mut().clear();
            for k in keys.iter() {
                if let Some(v) = sm.get(*k) {
                    s.strong.borrow_mut().push(Gc::as_ptr(v.0) as usize);
                    s.weak.borrow_mut().push(GcWeak::as_ptr(v.1) as usize);
                }
            }
            // plus re-inserted ones: enumerate via iter() but only those not in keys
            for (k, v) in sm.iter() {
                if !keys.contains(&k) {
                    s.strong.borrow_mut().push(Gc::as_ptr(v.0) as usize);
                    s.weak.borrow_mut().push(GcWeak::as_ptr(v.1) as usize);
                }
            }
            check("SlotMap after remove/reinsert", s, &sm, true);

            // slotmap 1.1 detach / reattach: a detached value is owned by the caller, not by the map
            let mut sm: slotmap::SlotMap<MyKey, _> = slotmap::SlotMap::with_key();
            let keys: Vec<_> = (0..n).map(|_| sm.insert((s.s(), s.w()))).collect();
            let mut detached = vec![];
            for (i, k) in keys.iter().enumerate() {
                if i % 3 == 0 {
                    detached.push((*k, sm.detach(*k).unwrap()));
                }
            }
            s.strong.borrow_mut().clear();
            s.weak.borrow_mut().clear();
            for (_, v) in sm.iter() {
                s.strong.borrow_mut().push(Gc::as_ptr(v.0) as usize);
                s.weak.borrow_mut().push(GcWeak::as_ptr(v.1) as usize);
            }
            check("SlotMap with detached keys", s, &sm, true);
            for (k, _old) in detached {
                sm.reattach(k, (s.s(), s.w()));
            }
            for (i, k) in keys.iter().enumerate() {
                if i % 3 != 0 {
                    let v = sm[*k];
                    s.strong.borrow_mut().push(Gc::as_ptr(v.0) as usize);
                    s.weak.borrow_mut().push(GcWeak::as_ptr(v.1) as usize);
                }
            }
            check("SlotMap after reattach", s, &sm, true);

            // smallvec inline and spilled
            let sv: smallvec::SmallVec<[_; 4]> = (0..n).map(|_| (s.s(), s.w())).collect();
            check("SmallVec<[(Gc,GcWeak);4]>", s, &sv, true);
            let sv: smallvec::SmallVec<[u8; 4]> = (0..n).map(|i| i as u8).collect();
            check("SmallVec<[u8;4]>", s, &sv, false);
        }

        println!("--- fixed shape");
        // enum-map
        let em = enum_map::enum_map! { E3::A => (s.s(), s.w()), E3::B => (s.s(), s.w()), E3::C => (s.s(), s.w()) };
        check("EnumMap<E3,(Gc,GcWeak)>", s, &em, true);
        let em = enum_map::enum_map! { true => s.s(), false => s.s() };
        check("EnumMap<bool,Gc>", s, &em, true);
        let em: enum_map::EnumMap<u8, Option<Gc<u64>>> =
            enum_map::EnumMap::from_fn(|i: u8| if i % 3 == 0 { Some(s.s()) } else { None });
        check("EnumMap<u8,Option<Gc>>", s, &em, true);
        let em: enum_map::EnumMap<Liar, Gc<u64>> =
            enum_map::EnumMap::from_array([s.s(), s.s(), s.s(), s.s(), s.s()]);
        check("EnumMap<Liar(LENGTH=2,array 5),Gc>", s, &em, true);
        println!("   liar map: len()={} as_slice().len()={}", em.len(), em.as_slice().len());
        let em: enum_map::EnumMap<E3, u8> = enum_map::EnumMap::default();
        check("EnumMap<E3,u8>", s, &em, false);

        // arrays
        check("[Gc;0]", s, &[] as &[Gc<u64>; 0], true);
        check("[Gc;1]", s, &[s.s()], true);
        check("[(Gc,GcWeak);33]", s, &std::array::from_fn::<_, 33, _>(|_| (s.s(), s.w())), true);
        check("[[Gc;3];3]", s, &std::array::from_fn::<_, 3, _>(|_| [s.s(), s.s(), s.s()]), true);

        // Box / Rc / Arc
        check("Box<Gc>", s, &Box::new(s.s()), true);
        check("Rc<GcWeak>", s, &Rc::new(s.w()), true);
        check("Arc<(Gc,GcWeak)>", s, &Arc::new((s.s(), s.w())), true);
        check("Box<Rc<Arc<Box<Gc>>>>", s, &Box::new(Rc::new(Arc::new(Box::new(s.s())))), true);
        let bd: Box<dyn Obj<'gc> + 'gc> = Box::new((s.s(), s.w()));
        check("Box<dyn DynCollect>", s, &bd, true);
        let bd: Rc<dyn Obj<'gc> + 'gc> = Rc::new(vec![(s.s(), s.w())]);
        check("Rc<dyn DynCollect>", s, &bd, true);
        let bd: Arc<dyn Obj<'gc> + 'gc> = Arc::new(Some(s.w()));
        check("Arc<dyn DynCollect>", s, &bd, true);
        check("Box<str>", s, &Box::<str>::from("x"), false);
        check("Rc<u8>", s, &Rc::new(1u8), false);

        // locks
        check("Lock<Gc>", s, &Lock::new(s.s()), true);
        check("Lock<Option<GcWeak>>", s, &Lock::new(Some(s.w())), true);
        check("Lock<(Gc,GcWeak)>", s, &Lock::new((s.s(), s.w())), true);
        check("Lock<[Gc;3]>", s, &Lock::new([s.s(), s.s(), s.s()]), true);
        check("Lock<u8>", s, &Lock::new(3u8), false);
        check("RefLock<Vec<(Gc,GcWeak)>>", s, &RefLock::new(vec![(s.s(), s.w()), (s.s(), s.w())]), true);
        let rl: Box<RefLock<[Gc<u64>]>> = Box::new(RefLock::new([s.s(), s.s()]));
        check("Box<RefLock<[Gc]>> (unsized)", s, &rl, true);
        check("RefLock<String>", s, &RefLock::new(String::new()), false);
        let ol = OnceLock::new();
        check("OnceLock<Gc> unset", s, &ol, true);
        let ol2: OnceLock<(Gc<u64>, GcWeak<u64>)> = OnceLock::from(std::cell::OnceCell::from((s.s(), s.w())));
        check("OnceLock<(Gc,GcWeak)> set", s, &ol2, true);
        let _: &OnceLock<Gc<u64>> = &ol;
        check("OnceLock<u8>", s, &OnceLock::<u8>::new(), false);

        // SliceWithHeader
        for &n in &[0usize, 1, 5, 100] {
            let g = GcSliceWithHeaderBuilder::<(Gc<u64>, GcWeak<u64>), (Gc<u64>, GcWeak<u64>)>::new(n)
                .write_header((s.s(), s.w()))
                .write_slice_with(mc, |_| (s.s(), s.w()));
            check(&format!("SliceWithHeader<(Gc,GcWeak),(Gc,GcWeak)> len {n}"), s, &*g, true);
            let g = GcSliceWithHeaderBuilder::<u8, Gc<u64>>::new(n)
                .write_header(1)
                .write_slice_with(mc, |_| s.s());
            check(&format!("SliceWithHeader<u8,Gc> len {n}"), s, &*g, true);
            let g = GcSliceWithHeaderBuilder::<GcWeak<u64>, u8>::new(n)
                .write_header(s.w())
                .write_slice_with(mc, |_| 1);
            check(&format!("SliceWithHeader<GcWeak,u8> len {n}"), s, &*g, true);
            let g = GcSliceWithHeaderBuilder::<u16, u8>::new(n).write_header(1).write_slice_with(mc, |_| 1);
            check(&format!("SliceWithHeader<u16,u8> len {n}"), s, &*g, false);
        }

        // tuples: each position in turn holds the only Gc
        macro_rules! tup {
            ($($idx:tt : $name:ident),+) => {{
                // all positions strong+weak alternating
                let t = ($( { let _ = $idx; (s.s(), s.w()) }, )+);
                check(concat!("tuple all ", stringify!($($idx)+)), s, &t, true);
            }};
        }
        tup!(0:A);
        tup!(0:A,1:B);
        tup!(0:A,1:B,2:C);
        tup!(0:A,1:B,2:C,3:D);
        tup!(0:A,1:B,2:C,3:D,4:E);
        tup!(0:A,1:B,2:C,3:D,4:E,5:F);
        tup!(0:A,1:B,2:C,3:D,4:E,5:F,6:G);
        tup!(0:A,1:B,2:C,3:D,4:E,5:F,6:G,7:H);
        tup!(0:A,1:B,2:C,3:D,4:E,5:F,6:G,7:H,8:I);
        tup!(0:A,1:B,2:C,3:D,4:E,5:F,6:G,7:H,8:I,9:J);
        tup!(0:A,1:B,2:C,3:D,4:E,5:F,6:G,7:H,8:I,9:J,10:K);
        tup!(0:A,1:B,2:C,3:D,4:E,5:F,6:G,7:H,8:I,9:J,10:K,11:L);
        tup!(0:A,1:B,2:C,3:D,4:E,5:F,6:G,7:H,8:I,9:J,10:K,11:L,12:M);
        tup!(0:A,1:B,2:C,3:D,4:E,5:F,6:G,7:H,8:I,9:J,10:K,11:L,12:M,13:N);
        tup!(0:A,1:B,2:C,3:D,4:E,5:F,6:G,7:H,8:I,9:J,10:K,11:L,12:M,13:N,14:O);
        tup!(0:A,1:B,2:C,3:D,4:E,5:F,6:G,7:H,8:I,9:J,10:K,11:L,12:M,13:N,14:O,15:P);
        check("()", s, &(), false);

        // single-position tuples: only position i holds a pointer (NEEDS_TRACE must still be true)
        macro_rules! single {
            ([$($pre:tt)*] [$($post:tt)*]) => {{
                let t = ($({let _ = $pre; 0u8},)* s.s(), $({let _ = $post; 0u8},)*);
                check(concat!("tuple single @", stringify!($($pre)*)), s, &t, true);
                let t = ($({let _ = $pre; 0u8},)* s.w(), $({let _ = $post; 0u8},)*);
                check(concat!("tuple single weak @", stringify!($($pre)*)), s, &t, true);
            }};
        }
        single!([] [1 2 3 4 5 6 7 8 9 10 11 12 13 14 15]);
        single!([0] [2 3 4 5 6 7 8 9 10 11 12 13 14 15]);
        single!([0 1] [3 4 5 6 7 8 9 10 11 12 13 14 15]);
        single!([0 1 2] [4 5 6 7 8 9 10 11 12 13 14 15]);
        single!([0 1 2 3] [5 6 7 8 9 10 11 12 13 14 15]);
        single!([0 1 2 3 4] [6 7 8 9 10 11 12 13 14 15]);
        single!([0 1 2 3 4 5] [7 8 9 10 11 12 13 14 15]);
        single!([0 1 2 3 4 5 6] [8 9 10 11 12 13 14 15]);
        single!([0 1 2 3 4 5 6 7] [9 10 11 12 13 14 15]);
        single!([0 1 2 3 4 5 6 7 8] [10 11 12 13 14 15]);
        single!([0 1 2 3 4 5 6 7 8 9] [11 12 13 14 15]);
        single!([0 1 2 3 4 5 6 7 8 9 10] [12 13 14 15]);
        single!([0 1 2 3 4 5 6 7 8 9 10 11] [13 14 15]);
        single!([0 1 2 3 4 5 6 7 8 9 10 11 12] [14 15]);
        single!([0 1 2 3 4 5 6 7 8 9 10 11 12 13] [15]);
        single!([0 1 2 3 4 5 6 7 8 9 10 11 12 13 14] []);
        let t16 = (0u8, 0u8, 0u8, 0u8, 0u8, 0u8, 0u8, 0u8, 0u8, 0u8, 0u8, 0u8, 0u8, 0u8, 0u8, 0u8);
        check("tuple16 of u8", s, &t16, false);

        // NEEDS_TRACE per parameter position of two-parameter containers
        fn nt<'gc, T: Collect<'gc>>() -> bool {
            T::NEEDS_TRACE
        }
        assert!(nt::<HashMap<Gc<u64>, u8>>() && nt::<HashMap<u8, Gc<u64>>>() && !nt::<HashMap<u8, u8>>());
        assert!(nt::<HashMap<GcWeak<u64>, u8>>() && nt::<HashMap<u8, GcWeak<u64>>>());
        assert!(nt::<BTreeMap<Gc<u64>, u8>>() && nt::<BTreeMap<u8, Gc<u64>>>() && !nt::<BTreeMap<u8, u8>>());
        assert!(nt::<hashbrown::HashMap<Gc<u64>, u8, Bh>>() && nt::<hashbrown::HashMap<u8, Gc<u64>, Bh>>() && !nt::<hashbrown::HashMap<u8, u8, Bh>>());
        assert!(nt::<indexmap::IndexMap<Gc<u64>, u8, Bh>>() && nt::<indexmap::IndexMap<u8, Gc<u64>, Bh>>() && !nt::<indexmap::IndexMap<u8, u8, Bh>>());
        assert!(nt::<Result<Gc<u64>, u8>>() && nt::<Result<u8, Gc<u64>>>() && !nt::<Result<u8, u8>>());
        assert!(nt::<slotmap::SlotMap<MyKey, Gc<u64>>>() && !nt::<slotmap::SlotMap<MyKey, u8>>());
        assert!(nt::<enum_map::EnumMap<E3, GcWeak<u64>>>() && !nt::<enum_map::EnumMap<E3, u8>>());
        assert!(nt::<smallvec::SmallVec<[GcWeak<u64>; 2]>>() && !nt::<smallvec::SmallVec<[u8; 2]>>());
        assert!(nt::<hashbrown::HashTable<GcWeak<u64>>>() && !nt::<hashbrown::HashTable<u8>>());
        assert!(nt::<indexmap::IndexSet<GcWeak<u64>, Bh>>() && !nt::<indexmap::IndexSet<u8, Bh>>());
        assert!(nt::<Box<dyn Obj<'gc> + 'gc>>());
        assert!(!nt::<std::marker::PhantomData<Gc<u64>>>());
        assert!(nt::<Vec<Option<Box<Rc<Lock<Option<GcWeak<u64>>>>>>>>());
        println!("NEEDS_TRACE matrix ok");
    }
}

fn main() {
    rootless_mutate(|mc| body(mc));
    println!("ALL OK");
}
