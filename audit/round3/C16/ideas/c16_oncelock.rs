#![forbid(unsafe_code)]
// Idea 3: OnceLock re-entrancy / panics in the initialiser, during marking
use std::panic::{AssertUnwindSafe, catch_unwind};
use std::sync::atomic::{AtomicUsize, Ordering};

use gc_arena::{Arena, Collect, Gc, Rootable, lock::OnceLock};

static DROPS: AtomicUsize = AtomicUsize::new(0);
struct Flag(u32);
impl Drop for Flag {
    fn drop(&mut self) {
        DROPS.fetch_add(1, Ordering::SeqCst);
        println!("   Flag({}) dropped", self.0);
    }
}

#[derive(Collect)]
#[collect(no_drop)]
struct Root<'gc> {
    once: Gc<'gc, OnceLock<Gc<'gc, Flag>>>,
    once2: Gc<'gc, OnceLock<(Gc<'gc, Flag>, Gc<'gc, Flag>)>>,
    filler: Vec<Gc<'gc, u64>>,
}

fn main() {
    std::panic::set_hook(Box::new(|i| println!("   panic: {}", i)));
    let mut arena = Arena::<Rootable![Root<'_>]>::new(|mc| Root {
        once: Gc::new(mc, OnceLock::new()),
        once2: Gc::new(mc, OnceLock::new()),
        filler: (0..64).map(|i| Gc::new(mc, i)).collect(),
    });
    // fully mark: once/once2 are black now
    let _ = arena.finish_marking();
    println!("phase = {:?}", arena.collection_phase());
    arena.mutate(|mc, root| {
        // re-entrant init: inner set wins, outer panics "reentrant init"
        let r = catch_unwind(AssertUnwindSafe(|| {
            root.once.get_or_init(mc, || {
                let inner = Gc::new_static(mc, Flag(1));
                root.once.set(mc, inner).ok().unwrap();
                Gc::new_static(mc, Flag(2))
            });
        }));
        println!("re-entrant get_or_init panicked = {}", r.is_err());
        println!("once = {:?}", root.once.get().map(|f| f.0));
        // initialiser that panics half way after allocating
        let r = catch_unwind(AssertUnwindSafe(|| {
            root.once2.get_or_init(mc, || {
                let _a = Gc::new_static(mc, Flag(3));
                panic!("init failed")
            });
        }));
        println!("panicking init panicked = {}", r.is_err());
        root.once2.set(mc, (Gc::new_static(mc, Flag(4)), Gc::new_static(mc, Flag(5)))).ok().unwrap();
    });
    arena.finish_cycle();
    println!("after cycle 1: drops = {}", DROPS.load(Ordering::SeqCst));
    arena.finish_cycle();
    println!("after cycle 2: drops = {}", DROPS.load(Ordering::SeqCst));
    arena.mutate(|_, root| {
        println!(
            "live: once={} once2=({}, {})",
            root.once.get().unwrap().0,
            root.once2.get().unwrap().0.0,
            root.once2.get().unwrap().1.0
        );
    });
    // Flag 2 and 3 are garbage, 1,4,5 must live
    assert_eq!(DROPS.load(Ordering::SeqCst), 2);
}
