#![forbid(unsafe_code)]
// Idea 1/2: a leaked RefMut makes RefLock::trace panic. What does the collector do afterwards?
use std::panic::{AssertUnwindSafe, catch_unwind};
use std::sync::atomic::{AtomicUsize, Ordering};

use gc_arena::{Arena, Collect, Gc, RefLock, Rootable, barrier::Write};

static DROPS: AtomicUsize = AtomicUsize::new(0);

struct Flag(u64);
impl Drop for Flag {
    fn drop(&mut self) {
        DROPS.fetch_add(1, Ordering::SeqCst);
        println!("   Flag({}) dropped", self.0);
    }
}

#[derive(Collect)]
#[collect(no_drop)]
struct Root<'gc> {
    before: Gc<'gc, Flag>,
    cell: Gc<'gc, RefLock<Vec<Gc<'gc, Flag>>>>,
    after: Gc<'gc, Flag>,
    inline: RefLock<Option<Gc<'gc, Flag>>>,
}

fn main() {
    std::panic::set_hook(Box::new(|i| println!("   panic: {}", i)));
    let mut arena = Arena::<Rootable![Root<'_>]>::new(|mc| Root {
        before: Gc::new_static(mc, Flag(1)),
        cell: Gc::new(mc, RefLock::new(vec![Gc::new_static(mc, Flag(2))])),
        after: Gc::new_static(mc, Flag(3)),
        inline: RefLock::new(Some(Gc::new_static(mc, Flag(4)))),
    });
    arena.finish_cycle();
    println!("baseline drops = {}", DROPS.load(Ordering::SeqCst));

    // leak a RefMut of the Gc'd RefLock
    arena.mutate(|mc, root| {
        let mut m = root.cell.borrow_mut(mc);
        m.push(Gc::new_static(mc, Flag(5)));
        std::mem::forget(m);
    });
    for i in 0..4 {
        let r = catch_unwind(AssertUnwindSafe(|| arena.finish_cycle()));
        println!(
            "finish_cycle #{i}: panicked={} phase={:?} drops={}",
            r.is_err(),
            arena.collection_phase(),
            DROPS.load(Ordering::SeqCst)
        );
    }
    // try every other entry point
    let r = catch_unwind(AssertUnwindSafe(|| arena.collect_debt()));
    println!("collect_debt: panicked={} phase={:?}", r.is_err(), arena.collection_phase());
    let r = catch_unwind(AssertUnwindSafe(|| arena.finish_marking().is_some()));
    println!("finish_marking: {:?} phase={:?}", r.as_ref().ok(), arena.collection_phase());
    // still reachable and intact?
    arena.mutate(|_, root| {
        println!("   before={} after={}", root.before.0, root.after.0);
        match root.cell.try_borrow() {
            Ok(v) => println!("   cell: {:?}", v.iter().map(|f| f.0).collect::<Vec<_>>()),
            Err(e) => println!("   cell unreadable: {e}"),
        }
    });
    println!("drops so far = {} (must be 0)", DROPS.load(Ordering::SeqCst));
    assert_eq!(DROPS.load(Ordering::SeqCst), 0);

    // Same with the RefLock inside the root itself
    let mut arena2 = Arena::<Rootable![Root<'_>]>::new(|mc| Root {
        before: Gc::new_static(mc, Flag(11)),
        cell: Gc::new(mc, RefLock::new(vec![Gc::new_static(mc, Flag(12))])),
        after: Gc::new_static(mc, Flag(13)),
        inline: RefLock::new(Some(Gc::new_static(mc, Flag(14)))),
    });
    arena2.mutate_root(|mc, root| {
        let w = Write::from_mut(&mut root.inline);
        let cell: &std::cell::RefCell<_> = w.unlock();
        let mut m = cell.borrow_mut();
        *m = Some(Gc::new_static(mc, Flag(15)));
        std::mem::forget(m);
    });
    // Flag(14) is now garbage, 15 is reachable through the permanently borrowed root lock
    for i in 0..3 {
        let r = catch_unwind(AssertUnwindSafe(|| arena2.finish_cycle()));
        println!(
            "root-inline finish_cycle #{i}: panicked={} phase={:?} drops={}",
            r.is_err(),
            arena2.collection_phase(),
            DROPS.load(Ordering::SeqCst)
        );
    }
    assert_eq!(DROPS.load(Ordering::SeqCst), 0);
    println!("dropping arenas");
    drop(arena);
    drop(arena2);
    println!("total drops = {}", DROPS.load(Ordering::SeqCst));
}
