#![forbid(unsafe_code)]
// Idea 5: covariance of the slice builders across unwrap_static (NEEDS_TRACE=false allocation holding a &'gc T)
use gc_arena::{Gc, GcSliceBuilder, Static, arena::rootless_mutate, slice::GcSliceWithHeaderBuilder};

fn shrink<'gc>(b: GcSliceBuilder<'gc, &'static String>) -> GcSliceBuilder<'gc, &'gc String> {
    b
}
fn shrink2<'gc>(
    b: GcSliceWithHeaderBuilder<'gc, &'static String, u8>,
) -> GcSliceWithHeaderBuilder<'gc, &'gc String, u8> {
    b
}

fn main() {
    rootless_mutate(|mc| {
        let s = Gc::new(mc, String::from("x"));
        let b = GcSliceBuilder::<Static<&'static String>>::new(1).unwrap_static();
        let g = shrink(b).write_slice_with(mc, |_| s.as_ref());
        let _ = g;
        let b = GcSliceWithHeaderBuilder::<Static<&'static String>, u8>::new(1).unwrap_static_header();
        let g = shrink2(b).write_header(s.as_ref()).write_slice_with(mc, |_| 0);
        let _ = g;
    });
}
