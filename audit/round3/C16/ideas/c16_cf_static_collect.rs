#![forbid(unsafe_code)]
// Idea 6: static_collect! argument injection (a `{}` block in the where clause, as was possible in dyn_collect!)
use gc_arena::{Arena, Gc, Rootable, static_collect};
use std::cell::Cell;

struct Evil<'a>(Cell<Option<Gc<'a, String>>>);
struct Decoy;
trait Tr {}

// (a) plain use on a branded type: impl only exists if 'gc: 'static
static_collect!(Evil<'gc>);

// (b) block injection: the tokens after the block would have to start a new item
static_collect!(<T> Vec2<T> where T: Sized {} impl Tr for Decoy);
struct Vec2<T>(T);

fn main() {
    let _arena = Arena::<Rootable![Evil<'_>]>::new(|_mc| Evil(Cell::new(None)));
}
