#![forbid(unsafe_code)]
// Idea 4: an Rc cycle made of 'static nodes whose NEEDS_TRACE is true (through a dyn trait object)
// -> Collect::trace for Rc<T> follows the cycle without end.
use std::rc::Rc;

use gc_arena::{
    Arena, Collect, Gc, RefLock, Rootable,
    barrier::field,
    collect::{DynCollect, dyn_collect},
};

trait Node: for<'gc> DynCollect<'gc> {
    fn id(&self) -> u32;
}
dyn_collect!(dyn Node);

#[derive(Collect)]
#[collect(no_drop)]
struct N {
    id: u32,
    next: RefLock<Option<Rc<dyn Node>>>,
}
impl Node for N {
    fn id(&self) -> u32 {
        self.id
    }
}

fn main() {
    fn nt<'gc, T: Collect<'gc> + ?Sized>() -> bool {
        T::NEEDS_TRACE
    }
    println!("Rc<N>::NEEDS_TRACE = {}", nt::<Rc<N>>());
    let mut arena = Arena::<Rootable![Gc<'_, Rc<N>>]>::new(|mc| {
        Gc::new(mc, Rc::new(N { id: 7, next: RefLock::new(None) }))
    });
    arena.finish_cycle();
    println!("acyclic: collected fine");
    arena.mutate(|mc, root| {
        let w = Gc::write(mc, *root); // &Write<Rc<N>>
        let w = w.as_deref(); // allowed: N is 'static
        let cell = field!(w, N, next).unlock();
        let me: Rc<dyn Node> = (**root).clone();
        *cell.borrow_mut() = Some(me);
        println!("cycle built, strong count = {}", Rc::strong_count(&**root));
    });
    println!("collecting (expected: endless recursion -> stack overflow abort)");
    arena.finish_cycle();
    println!("survived?!");
}
