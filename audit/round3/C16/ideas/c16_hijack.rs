#![forbid(unsafe_code)]
// Idea 8: hijack the method-call syntax used by the derive (`cc.trace(bi)`) and by the library impls with
// in-scope traits / inherent methods called `trace`, `get`, `borrow`, `iter`, `values`, `as_ref`.
use gc_arena::collect::Trace;
use gc_arena::{Collect, Gc, GcWeak, Lock, RefLock, arena::rootless_mutate};

// blanket extension traits with the same method names, implemented for everything
trait Hijack {
    fn trace<X>(self, _x: X)
    where
        Self: Sized,
    {
        println!("HIJACKED trace");
    }
}
impl<T> Hijack for T {}
trait Hijack2 {
    fn trace<X>(&mut self, _x: X) {
        println!("HIJACKED trace (&mut self)");
    }
}
impl<T: ?Sized> Hijack2 for T {}

#[derive(Collect, Copy, Clone)]
#[collect(no_drop)]
struct Inner<'gc>(Gc<'gc, u8>, GcWeak<'gc, u8>);
impl<'gc> Inner<'gc> {
    // inherent method with the same name as Collect::trace
    #[allow(dead_code)]
    fn trace<T>(&self, _cc: &mut T) {
        println!("HIJACKED inherent trace");
    }
}

#[derive(Collect)]
#[collect(no_drop)]
struct Outer<'gc> {
    a: Inner<'gc>,
    b: Lock<Inner<'gc>>,
    c: RefLock<Inner<'gc>>,
    d: Vec<Inner<'gc>>,
    e: Option<Inner<'gc>>,
    f: Box<Inner<'gc>>,
    g: [Inner<'gc>; 2],
    h: (Inner<'gc>, Inner<'gc>),
}

#[derive(Default)]
struct Rec(usize, usize);
impl<'gc> Trace<'gc> for Rec {
    fn trace_gc(&mut self, _: Gc<'gc, ()>) {
        self.0 += 1;
    }
    fn trace_gc_weak(&mut self, _: GcWeak<'gc, ()>) {
        self.1 += 1;
    }
}

fn main() {
    rootless_mutate(|mc| {
        let i = || {
            let g = Gc::new(mc, 0u8);
            Inner(g, Gc::downgrade(g))
        };
        let o = Outer {
            a: i(),
            b: Lock::new(i()),
            c: RefLock::new(i()),
            d: vec![i(), i()],
            e: Some(i()),
            f: Box::new(i()),
            g: [i(), i()],
            h: (i(), i()),
        };
        let mut r = Rec::default();
        Trace::trace(&mut r, &o);
        println!("strong {} weak {} (expected 11 / 11)", r.0, r.1);
        assert_eq!((r.0, r.1), (11, 11));
    });
}
