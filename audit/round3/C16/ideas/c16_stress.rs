#![forbid(unsafe_code)]
// Idea 9: real collector, incremental, random mutation of every container kind held in one Gc'd
// holder; a shadow model knows which ids are reachable. No reachable id may ever be dropped, and
// after two full cycles exactly the model's ids (strongly held) are alive; weakly held ids that are
// not strongly held must be dead (upgrade fails).
use std::cell::RefCell;
use std::collections::*;
use std::rc::Rc;
use std::sync::Arc;

use gc_arena::{Arena, Collect, Gc, GcWeak, Lock, RefLock, Rootable, lock::OnceLock};

thread_local! {
    static ALIVE: RefCell<HashSet<u64>> = RefCell::new(HashSet::new());
}

struct Flag(u64);
impl Drop for Flag {
    fn drop(&mut self) {
        ALIVE.with(|a| assert!(a.borrow_mut().remove(&self.0)));
    }
}

#[derive(Collect)]
#[collect(no_drop)]
struct Node<'gc> {
    id: u64,
    #[collect(require_static)]
    _flag: Flag,
    kids: RefLock<Vec<Gc<'gc, Node<'gc>>>>,
}

type N<'gc> = Gc<'gc, Node<'gc>>;
type W<'gc> = GcWeak<'gc, Node<'gc>>;
type Bh = std::hash::BuildHasherDefault<std::collections::hash_map::DefaultHasher>;

slotmap::new_key_type! { struct SK; }
#[derive(enum_map::Enum, Copy, Clone)]
enum E {
    A,
    B,
    C,
}

#[derive(Collect)]
#[collect(no_drop)]
struct Holder<'gc> {
    vec: Vec<N<'gc>>,
    deque: VecDeque<N<'gc>>,
    list: LinkedList<N<'gc>>,
    bmap: BTreeMap<u64, N<'gc>>,
    hmap: HashMap<u64, N<'gc>>,
    hset_w: Vec<W<'gc>>,
    opt: Option<N<'gc>>,
    res: Result<N<'gc>, W<'gc>>,
    boxed: Box<Option<N<'gc>>>,
    rc: Rc<Vec<N<'gc>>>,
    arc: Arc<(Option<N<'gc>>, Option<W<'gc>>)>,
    lock: Lock<Option<N<'gc>>>,
    once: OnceLock<N<'gc>>,
    arr: [Option<N<'gc>>; 4],
    tup: (Option<N<'gc>>, u8, Option<W<'gc>>, Option<N<'gc>>),
    hb: hashbrown::HashMap<u64, N<'gc>, Bh>,
    ht: hashbrown::HashTable<(u64, N<'gc>)>,
    im: indexmap::IndexMap<u64, N<'gc>, Bh>,
    is_: indexmap::IndexMap<u64, W<'gc>, Bh>,
    sm: slotmap::SlotMap<SK, N<'gc>>,
    sv: smallvec::SmallVec<[N<'gc>; 3]>,
    em: enum_map::EnumMap<E, Option<N<'gc>>>,
    heap: BinaryHeap<Ordered<'gc>>,
}

#[derive(Collect)]
#[collect(no_drop)]
struct Ordered<'gc>(N<'gc>);
impl PartialEq for Ordered<'_> {
    fn eq(&self, o: &Self) -> bool {
        self.0.id == o.0.id
    }
}
impl Eq for Ordered<'_> {}
impl PartialOrd for Ordered<'_> {
    fn partial_cmp(&self, o: &Self) -> Option<std::cmp::Ordering> {
        Some(self.cmp(o))
    }
}
impl Ord for Ordered<'_> {
    fn cmp(&self, o: &Self) -> std::cmp::Ordering {
        self.0.id.cmp(&o.0.id)
    }
}

struct Rng(u64);
impl Rng {
    fn next(&mut self) -> u64 {
        self.0 ^= self.0 << 13;
        self.0 ^= self.0 >> 7;
        self.0 ^= self.0 << 17;
        self.0
    }
    fn below(&mut self, n: u64) -> u64 {
        self.next() % n
    }
}

// Collect the ids strongly reachable / weakly referenced from the holder using the safe accessors
fn reach<'gc>(h: &Holder<'gc>) -> (HashSet<u64>, Vec<W<'gc>>) {
    let mut strong: Vec<N<'gc>> = vec![];
    let mut weak: Vec<W<'gc>> = vec![];
    strong.extend(h.vec.iter().copied());
    strong.extend(h.deque.iter().copied());
    strong.extend(h.list.iter().copied());
    strong.extend(h.bmap.values().copied());
    strong.extend(h.hmap.values().copied());
    weak.extend(h.hset_w.iter().copied());
    strong.extend(h.opt);
    match h.res {
        Ok(n) => strong.push(n),
        Err(w) => weak.push(w),
    }
    strong.extend(*h.boxed);
    strong.extend(h.rc.iter().copied());
    strong.extend(h.arc.0);
    weak.extend(h.arc.1);
    strong.extend(h.lock.get());
    strong.extend(h.once.get().copied());
    strong.extend(h.arr.iter().flatten().copied());
    strong.extend(h.tup.0);
    weak.extend(h.tup.2);
    strong.extend(h.tup.3);
    strong.extend(h.hb.values().copied());
    strong.extend(h.ht.iter().map(|x| x.1));
    strong.extend(h.im.values().copied());
    weak.extend(h.is_.values().copied());
    strong.extend(h.sm.values().copied());
    strong.extend(h.sv.iter().copied());
    strong.extend(h.em.values().flatten().copied());
    strong.extend(h.heap.iter().map(|o| o.0));
    let mut seen = HashSet::new();
    while let Some(n) = strong.pop() {
        if seen.insert(n.id) {
            strong.extend(n.kids.borrow().iter().copied());
        }
    }
    (seen, weak)
}

fn main() {
    let seed: u64 = std::env::args().nth(1).and_then(|s| s.parse().ok()).unwrap_or(1);
    let steps: u64 = std::env::args().nth(2).and_then(|s| s.parse().ok()).unwrap_or(20000);
    let mut rng = Rng(seed.wrapping_mul(0x9E3779B97F4A7C15) | 1);
    let mut next_id = 0u64;

    let mut arena = Arena::<Rootable![Gc<'_, RefLock<Holder<'_>>>]>::new(|mc| {
        Gc::new(
            mc,
            RefLock::new(Holder {
                vec: vec![],
                deque: VecDeque::new(),
                list: LinkedList::new(),
                bmap: BTreeMap::new(),
                hmap: HashMap::new(),
                hset_w: vec![],
                opt: None,
                res: Err(Gc::downgrade(Gc::new(
                    mc,
                    Node { id: u64::MAX, _flag: { ALIVE.with(|a| a.borrow_mut().insert(u64::MAX)); Flag(u64::MAX) }, kids: RefLock::new(vec![]) },
                ))),
                boxed: Box::new(None),
                rc: Rc::new(vec![]),
                arc: Arc::new((None, None)),
                lock: Lock::new(None),
                once: OnceLock::new(),
                arr: [None; 4],
                tup: (None, 0, None, None),
                hb: Default::default(),
                ht: hashbrown::HashTable::new(),
                im: Default::default(),
                is_: Default::default(),
                sm: slotmap::SlotMap::with_key(),
                sv: smallvec::SmallVec::new(),
                em: enum_map::EnumMap::default(),
                heap: BinaryHeap::new(),
            }),
        )
    });
    arena.metrics().set_pacing(gc_arena::metrics::Pacing::default());

    for step in 0..steps {
        arena.mutate(|mc, root| {
            let mut new = |rng: &mut Rng, pool: &[N<'_>]| {
                let id = next_id;
                next_id += 1;
                ALIVE.with(|a| a.borrow_mut().insert(id));
                let mut kids = vec![];
                // sometimes link to an existing reachable node
                let _ = (rng, pool);
                kids.truncate(0);
                Gc::new(mc, Node { id, _flag: Flag(id), kids: RefLock::new(kids) })
            };
            let mut h = root.borrow_mut(mc);
            let h = &mut *h;
            for _ in 0..1 + rng.below(4) {
                let n = new(&mut rng, &[]);
                // occasionally give it a child and link into an existing node
                if rng.below(3) == 0 {
                    let c = new(&mut rng, &[]);
                    gc_arena::barrier::unlock!(Gc::write(mc, n), Node, kids).borrow_mut().push(c);
                }
                if rng.below(4) == 0 {
                    if let Some(p) = h.vec.first() {
                        gc_arena::barrier::unlock!(Gc::write(mc, *p), Node, kids).borrow_mut().push(n);
                        if p.kids.borrow().len() > 5 {
                            gc_arena::barrier::unlock!(Gc::write(mc, *p), Node, kids).borrow_mut().remove(0);
                        }
                    }
                }
                let key = rng.below(24);
                match rng.below(30) {
                    0 => {
                        h.vec.push(n);
                        if h.vec.len() > 12 {
                            h.vec.swap_remove(rng.below(12) as usize);
                        }
                    }
                    1 => {
                        if rng.below(2) == 0 { h.deque.push_back(n) } else { h.deque.push_front(n) }
                        if h.deque.len() > 10 {
                            if rng.below(2) == 0 { h.deque.pop_back(); } else { h.deque.pop_front(); }
                        }
                    }
                    2 => {
                        h.list.push_back(n);
                        if h.list.len() > 6 { h.list.pop_front(); }
                    }
                    3 => { h.bmap.insert(key, n); }
                    4 => { h.bmap.remove(&key); }
                    5 => { h.hmap.insert(key, n); }
                    6 => { h.hmap.remove(&key); }
                    7 => {
                        h.hset_w.push(Gc::downgrade(n));
                        if h.hset_w.len() > 16 { h.hset_w.remove(0); }
                    }
                    8 => h.opt = if rng.below(3) == 0 { None } else { Some(n) },
                    9 => h.res = if rng.below(2) == 0 { Ok(n) } else { Err(Gc::downgrade(n)) },
                    10 => *h.boxed = Some(n),
                    11 => {
                        let mut v: Vec<_> = (*h.rc).clone();
                        v.push(n);
                        if v.len() > 5 { v.remove(0); }
                        h.rc = Rc::new(v);
                    }
                    12 => h.arc = Arc::new((Some(n), Some(Gc::downgrade(n)))),
                    13 => h.arc = Arc::new((None, Some(Gc::downgrade(n)))),
                    14 => h.lock = Lock::new(Some(n)),
                    15 => {
                        if rng.below(6) == 0 { h.once = OnceLock::new(); }
                        let _ = h.once.get_mut();
                        if h.once.get().is_none() {
                            h.once = OnceLock::from(std::cell::OnceCell::from(n));
                        }
                    }
                    16 => h.arr[rng.below(4) as usize] = if rng.below(4) == 0 { None } else { Some(n) },
                    17 => h.tup = (Some(n), 1, Some(Gc::downgrade(n)), h.tup.0),
                    18 => h.tup.2 = Some(Gc::downgrade(n)),
                    19 => { h.hb.insert(key, n); }
                    20 => { h.hb.remove(&key); }
                    21 => {
                        if let Ok(e) = h.ht.find_entry(key, |x| x.0 == key) { e.remove(); }
                        if rng.below(3) != 0 { h.ht.insert_unique(key, (key, n), |x| x.0); }
                    }
                    22 => { h.im.insert(key, n); }
                    23 => { if rng.below(2) == 0 { h.im.swap_remove(&key); } else { h.im.shift_remove(&key); } }
                    24 => { h.is_.insert(key, Gc::downgrade(n)); }
                    25 => {
                        h.sm.insert(n);
                        if h.sm.len() > 8 {
                            let k = h.sm.keys().nth(rng.below(8) as usize).unwrap();
                            h.sm.remove(k);
                        }
                    }
                    26 => {
                        h.sv.push(n);
                        if h.sv.len() > 6 { h.sv.remove(rng.below(6) as usize); }
                        if rng.below(8) == 0 { h.sv.clear(); h.sv.shrink_to_fit(); }
                    }
                    27 => h.em[[E::A, E::B, E::C][rng.below(3) as usize]] = if rng.below(4) == 0 { None } else { Some(n) },
                    28 => {
                        h.heap.push(Ordered(n));
                        if h.heap.len() > 7 { h.heap.pop(); }
                    }
                    _ => { /* drop n: garbage */ }
                }
            }
        });
        // a bit of collection, random kind
        match rng.below(8) {
            0 => arena.finish_cycle(),
            1 => { let _ = arena.finish_marking(); }
            2 => {
                if let Some(m) = arena.finish_marking() {
                    m.start_sweeping();
                }
            }
            _ => arena.collect_debt(),
        }
        // check: everything reachable is alive
        if step % 16 == 0 || step + 1 == steps {
            arena.mutate(|_, root| {
                let (strong, _) = reach(&root.borrow());
                ALIVE.with(|a| {
                    let a = a.borrow();
                    for id in &strong {
                        assert!(a.contains(id), "step {step}: reachable node {id} was dropped");
                    }
                });
            });
        }
    }
    arena.finish_cycle();
    arena.finish_cycle();
    arena.mutate(|mc, root| {
        let (strong, weak) = reach(&root.borrow());
        ALIVE.with(|a| {
            let a = a.borrow();
            assert_eq!(*a, strong, "alive set differs from reachable set (leak or early drop)");
        });
        let mut dead = 0;
        let mut live = 0;
        for w in weak {
            match w.upgrade(mc) {
                Some(n) => {
                    assert!(strong.contains(&n.id), "weak-only node survived");
                    live += 1
                }
                None => {
                    assert!(w.is_dropped());
                    dead += 1
                }
            }
        }
        println!(
            "seed {seed}: ok, {} nodes allocated, {} alive == reachable, weak live {live} dead {dead}",
            next_id,
            strong.len()
        );
    });
}
