#![forbid(unsafe_code)]
// side idea: the `$ty` of unsize! is pasted inside the macro's `unsafe { }` block; does an anonymous
// constant inside the type inherit the unsafe context?
use gc_arena::{Gc, arena::rootless_mutate, unsize};
const fn danger() -> usize {
    3
}
fn main() {
    rootless_mutate(|mc| {
        let g = Gc::new(mc, [1u8, 2, 3]);
        let s = unsize!(g => [u8; { let x = 3usize; let p = &x as *const usize; let _ = danger(); *p }]);
        println!("{:?}", &*s);
    });
}
