#![forbid(unsafe_code)]
// Idea 10: put std / third-party containers into odd states with panicking Ord / Hash / Clone /
// closures and forgotten guards (Drain, PeekMut, ...), then compare what `Collect::trace` reports
// with what safe code can still take out of the container by consuming it (a different code path
// than the `iter()` used by trace).
use std::cell::Cell;
use std::collections::*;
use std::panic::{AssertUnwindSafe, catch_unwind};

use gc_arena::collect::Trace;
use gc_arena::{Collect, Gc, GcWeak, Mutation, arena::rootless_mutate};

#[derive(Default)]
struct Rec(Vec<usize>);
impl<'gc> Trace<'gc> for Rec {
    fn trace_gc(&mut self, gc: Gc<'gc, ()>) {
        self.0.push(Gc::as_ptr(gc) as usize);
    }
    fn trace_gc_weak(&mut self, _: GcWeak<'gc, ()>) {}
}

thread_local! {
    static BOMB: Cell<i64> = Cell::new(-1); // counts down on every Ord/Hash/Clone call; panics at 0
}
fn tick() {
    BOMB.with(|b| {
        let v = b.get();
        if v == 0 {
            b.set(-1);
            panic!("bomb");
        } else if v > 0 {
            b.set(v - 1);
        }
    })
}
fn arm(n: i64) {
    BOMB.with(|b| b.set(n))
}

#[derive(Collect)]
#[collect(no_drop)]
struct K<'gc>(u64, Gc<'gc, u64>);
impl Clone for K<'_> {
    fn clone(&self) -> Self {
        tick();
        K(self.0, self.1)
    }
}
impl PartialEq for K<'_> {
    fn eq(&self, o: &Self) -> bool {
        tick();
        self.0 == o.0
    }
}
impl Eq for K<'_> {}
impl PartialOrd for K<'_> {
    fn partial_cmp(&self, o: &Self) -> Option<std::cmp::Ordering> {
        Some(self.cmp(o))
    }
}
impl Ord for K<'_> {
    fn cmp(&self, o: &Self) -> std::cmp::Ordering {
        tick();
        self.0.cmp(&o.0)
    }
}
impl std::hash::Hash for K<'_> {
    fn hash<H: std::hash::Hasher>(&self, h: &mut H) {
        tick();
        self.0.hash(h)
    }
}

fn traced<'gc, T: Collect<'gc>>(v: &T) -> Vec<usize> {
    let mut r = Rec::default();
    r.trace(v);
    r.0.sort();
    r.0
}
fn addr(k: &K<'_>) -> usize {
    Gc::as_ptr(k.1) as usize
}
fn cmp_sets(name: &str, traced: Vec<usize>, mut taken: Vec<usize>) {
    taken.sort();
    let ok = traced == taken;
    println!("{name:<58} traced {:>3} obtainable {:>3} {}", traced.len(), taken.len(), if ok { "ok" } else { "MISMATCH <<<<<<" });
    assert!(ok);
}

fn body<'gc>(mc: &Mutation<'gc>) {
    std::panic::set_hook(Box::new(|_| {}));
    let k = |i: u64| K(i, Gc::new(mc, i));
    let shuffled = |n: u64| (0..n).map(move |i| (i * 7919) % n);

    for bomb in [0i64, 1, 2, 3, 5, 8, 13, 21, 34, 55, 89, 144] {
        // BTreeMap insert / remove / append / retain / split_off with panicking Ord
        let mut m: BTreeMap<K, K> = shuffled(40).map(|i| (k(i), k(i + 100))).collect();
        arm(bomb);
        let _ = catch_unwind(AssertUnwindSafe(|| {
            for i in shuffled(40) {
                if i % 3 == 0 {
                    m.remove(&k(i));
                } else {
                    m.insert(k(i + 40), k(i + 200));
                }
            }
        }));
        arm(-1);
        let t = traced(&m);
        cmp_sets(&format!("BTreeMap insert/remove bomb@{bomb}"), t, m.into_iter().flat_map(|(a, b)| [addr(&a), addr(&b)]).collect());

        let mut m: BTreeMap<K, K> = shuffled(40).map(|i| (k(i), k(i + 100))).collect();
        let mut m2: BTreeMap<K, K> = shuffled(30).map(|i| (k(i * 2), k(i + 300))).collect();
        arm(bomb);
        let _ = catch_unwind(AssertUnwindSafe(|| m.append(&mut m2)));
        arm(-1);
        let t = traced(&m);
        let t2 = traced(&m2);
        cmp_sets(&format!("BTreeMap append (dst) bomb@{bomb}"), t, m.into_iter().flat_map(|(a, b)| [addr(&a), addr(&b)]).collect());
        cmp_sets(&format!("BTreeMap append (src) bomb@{bomb}"), t2, m2.into_iter().flat_map(|(a, b)| [addr(&a), addr(&b)]).collect());

        let mut m: BTreeMap<K, K> = shuffled(40).map(|i| (k(i), k(i + 100))).collect();
        let mut cnt = 0;
        let _ = catch_unwind(AssertUnwindSafe(|| {
            m.retain(|a, _| {
                cnt += 1;
                if cnt == bomb + 1 {
                    panic!()
                }
                a.0 % 2 == 0
            })
        }));
        let t = traced(&m);
        cmp_sets(&format!("BTreeMap retain panic@{bomb}"), t, m.into_iter().flat_map(|(a, b)| [addr(&a), addr(&b)]).collect());

        let mut s: BTreeSet<K> = shuffled(40).map(k).collect();
        // (a panicking Ord inside split_off makes std abort the process on purpose: not armed)
        let r = catch_unwind(AssertUnwindSafe(|| s.split_off(&k(20))));
        arm(-1);
        let mut all = traced(&s);
        let mut got: Vec<usize> = s.into_iter().map(|a| addr(&a)).collect();
        if let Ok(s2) = r {
            all.extend(traced(&s2));
            got.extend(s2.into_iter().map(|a| addr(&a)));
        }
        all.sort();
        cmp_sets(&format!("BTreeSet split_off bomb@{bomb}"), all, got);

        // HashMap / HashSet with panicking Hash / Eq (rehash on growth)
        let mut m: HashMap<K, K> = HashMap::new();
        arm(bomb);
        let _ = catch_unwind(AssertUnwindSafe(|| {
            for i in 0..64 {
                m.insert(k(i % 48), k(i));
                if i % 5 == 0 {
                    m.remove(&k(i / 2));
                }
            }
        }));
        arm(-1);
        let t = traced(&m);
        cmp_sets(&format!("HashMap insert/remove/rehash bomb@{bomb}"), t, m.into_iter().flat_map(|(a, b)| [addr(&a), addr(&b)]).collect());

        let mut m: hashbrown::HashMap<K, K, std::hash::RandomState> = Default::default();
        arm(bomb * 3);
        let _ = catch_unwind(AssertUnwindSafe(|| {
            for i in 0..64 {
                m.insert(k(i % 48), k(i));
                if i % 5 == 0 {
                    m.remove(&k(i / 2));
                }
                if i == 40 {
                    m.shrink_to_fit();
                }
            }
        }));
        arm(-1);
        let t = traced(&m);
        cmp_sets(&format!("hashbrown::HashMap insert/remove/shrink bomb@{}", bomb * 3), t, m.into_iter().flat_map(|(a, b)| [addr(&a), addr(&b)]).collect());

        let mut ht: hashbrown::HashTable<K> = hashbrown::HashTable::new();
        let cnt = Cell::new(0);
        let _ = catch_unwind(AssertUnwindSafe(|| {
            for i in 0..64u64 {
                ht.insert_unique(i, k(i), |x| {
                    cnt.set(cnt.get() + 1);
                    if cnt.get() == bomb * 2 + 1 {
                        panic!()
                    }
                    x.0
                });
            }
        }));
        let t = traced(&ht);
        cmp_sets(&format!("hashbrown::HashTable rehash panic@{}", bomb * 2), t, ht.into_iter().map(|a| addr(&a)).collect());

        let mut im: indexmap::IndexMap<K, K, std::hash::RandomState> = Default::default();
        arm(bomb * 2);
        let _ = catch_unwind(AssertUnwindSafe(|| {
            for i in 0..64 {
                im.insert(k(i % 48), k(i));
                if i % 5 == 0 {
                    im.swap_remove(&k(i / 2));
                }
                if i % 7 == 0 {
                    im.shift_remove(&k(i / 3));
                }
            }
            im.sort_keys();
        }));
        arm(-1);
        let t = traced(&im);
        cmp_sets(&format!("IndexMap insert/remove/sort bomb@{}", bomb * 2), t, im.into_iter().flat_map(|(a, b)| [addr(&a), addr(&b)]).collect());

        // BinaryHeap with panicking Ord
        let mut h: BinaryHeap<K> = BinaryHeap::new();
        arm(bomb);
        let _ = catch_unwind(AssertUnwindSafe(|| {
            for i in shuffled(30) {
                h.push(k(i));
                if i % 4 == 0 {
                    h.pop();
                }
            }
            let mut other: BinaryHeap<K> = shuffled(50).map(|i| K(i, Gc::new(mc, i))).collect();
            h.append(&mut other);
        }));
        arm(-1);
        let t = traced(&h);
        cmp_sets(&format!("BinaryHeap push/pop/append bomb@{bomb}"), t, h.into_vec().iter().map(addr).collect());

        // Vec ops with panicking closures / Clone
        let mut v: Vec<K> = (0..30).map(k).collect();
        let mut cnt = 0;
        let _ = catch_unwind(AssertUnwindSafe(|| {
            v.retain(|a| {
                cnt += 1;
                if cnt == bomb + 1 {
                    panic!()
                }
                a.0 % 3 != 0
            })
        }));
        let t = traced(&v);
        cmp_sets(&format!("Vec retain panic@{bomb}"), t, v.into_iter().map(|a| addr(&a)).collect());

        let mut v: Vec<K> = (0..30).map(|i| k(i / 2)).collect();
        arm(bomb);
        let _ = catch_unwind(AssertUnwindSafe(|| v.dedup()));
        arm(-1);
        let t = traced(&v);
        cmp_sets(&format!("Vec dedup bomb@{bomb}"), t, v.into_iter().map(|a| addr(&a)).collect());

        let src: Vec<K> = (0..30).map(k).collect();
        let mut v: Vec<K> = (100..105).map(k).collect();
        arm(bomb);
        let _ = catch_unwind(AssertUnwindSafe(|| v.extend_from_slice(&src)));
        arm(-1);
        let t = traced(&v);
        cmp_sets(&format!("Vec extend_from_slice (Clone bomb@{bomb})"), t, v.into_iter().map(|a| addr(&a)).collect());

        let mut v: Vec<K> = (0..5).map(k).collect();
        arm(bomb);
        let _ = catch_unwind(AssertUnwindSafe(|| v.resize(40, k(999))));
        arm(-1);
        let t = traced(&v);
        cmp_sets(&format!("Vec resize (Clone bomb@{bomb})"), t, v.into_iter().map(|a| addr(&a)).collect());

        let mut v: Vec<K> = (0..30).map(k).collect();
        let mut cnt = 0;
        let _ = catch_unwind(AssertUnwindSafe(|| {
            let rep = (0..10).map(|i| {
                cnt += 1;
                if cnt == bomb + 1 {
                    panic!()
                }
                K(i, Gc::new(mc, i))
            });
            let _removed: Vec<K> = v.splice(5..12, rep).collect();
        }));
        let t = traced(&v);
        cmp_sets(&format!("Vec splice iterator panic@{bomb}"), t, v.into_iter().map(|a| addr(&a)).collect());

        let mut v: Vec<K> = shuffled(30).map(k).collect();
        arm(bomb * 2);
        let _ = catch_unwind(AssertUnwindSafe(|| v.sort()));
        arm(-1);
        let t = traced(&v);
        cmp_sets(&format!("Vec sort bomb@{}", bomb * 2), t, v.into_iter().map(|a| addr(&a)).collect());

        let mut d: VecDeque<K> = (0..30).map(k).collect();
        d.rotate_left(11);
        let mut cnt = 0;
        let _ = catch_unwind(AssertUnwindSafe(|| {
            d.retain(|a| {
                cnt += 1;
                if cnt == bomb + 1 {
                    panic!()
                }
                a.0 % 3 != 0
            })
        }));
        let t = traced(&d);
        cmp_sets(&format!("VecDeque retain panic@{bomb}"), t, d.into_iter().map(|a| addr(&a)).collect());

        // smallvec
        let mut sv: smallvec::SmallVec<[K; 4]> = (0..3).map(k).collect();
        let mut cnt = 0;
        let _ = catch_unwind(AssertUnwindSafe(|| {
            sv.insert_many(
                1,
                (0..20).map(|i| {
                    cnt += 1;
                    if cnt == bomb + 1 {
                        panic!()
                    }
                    K(i, Gc::new(mc, i))
                }),
            )
        }));
        let t = traced(&sv);
        cmp_sets(&format!("SmallVec insert_many iterator panic@{bomb}"), t, sv.into_iter().map(|a| addr(&a)).collect());

        let mut sv: smallvec::SmallVec<[K; 4]> = (0..12).map(k).collect();
        let mut cnt = 0;
        let _ = catch_unwind(AssertUnwindSafe(|| {
            sv.retain(|a| {
                cnt += 1;
                if cnt == bomb + 1 {
                    panic!()
                }
                a.0 % 3 != 0
            })
        }));
        let t = traced(&sv);
        cmp_sets(&format!("SmallVec retain panic@{bomb}"), t, sv.into_iter().map(|a| addr(&a)).collect());

        // slotmap retain
        let mut sm: slotmap::SlotMap<slotmap::DefaultKey, K> = slotmap::SlotMap::new();
        for i in 0..20 {
            sm.insert(k(i));
        }
        let mut cnt = 0;
        let _ = catch_unwind(AssertUnwindSafe(|| {
            sm.retain(|_, a| {
                cnt += 1;
                if cnt == bomb + 1 {
                    panic!()
                }
                a.0 % 3 != 0
            })
        }));
        let t = traced(&sm);
        cmp_sets(&format!("SlotMap retain panic@{bomb}"), t, sm.drain().map(|(_, a)| addr(&a)).collect());

        // enum-map: map() with panic, from_fn with panic
        let mut cnt = 0;
        let r = catch_unwind(AssertUnwindSafe(|| {
            enum_map::EnumMap::<u8, K>::from_fn(|i| {
                cnt += 1;
                if cnt == bomb + 1 {
                    panic!()
                }
                K(i as u64, Gc::new(mc, 0))
            })
        }));
        if let Ok(em) = r {
            let t = traced(&em);
            cmp_sets("EnumMap<u8,K> from_fn", t, em.into_values().map(|a| addr(&a)).collect());
        }
    }

    // forgotten guards
    let mut v: Vec<K> = (0..10).map(k).collect();
    std::mem::forget(v.drain(2..5));
    let t = traced(&v);
    cmp_sets("Vec forgotten drain", t, v.into_iter().map(|a| addr(&a)).collect());
    let mut d: VecDeque<K> = (0..10).map(k).collect();
    d.rotate_left(4);
    std::mem::forget(d.drain(2..5));
    let t = traced(&d);
    cmp_sets("VecDeque forgotten drain", t, d.into_iter().map(|a| addr(&a)).collect());
    let mut h: BinaryHeap<K> = (0..10).map(k).collect();
    {
        let mut p = h.peek_mut().unwrap();
        p.0 = 0;
        std::mem::forget(p);
    }
    let t = traced(&h);
    cmp_sets("BinaryHeap forgotten PeekMut", t, h.into_vec().iter().map(addr).collect());
    let mut m: HashMap<K, K> = (0..10).map(|i| (k(i), k(i))).collect();
    {
        let mut dr = m.drain();
        dr.next();
        std::mem::forget(dr);
    }
    let t = traced(&m);
    cmp_sets("HashMap forgotten drain", t, m.into_iter().flat_map(|(a, b)| [addr(&a), addr(&b)]).collect());
    let mut sv: smallvec::SmallVec<[K; 4]> = (0..10).map(k).collect();
    std::mem::forget(sv.drain(2..5));
    let t = traced(&sv);
    cmp_sets("SmallVec forgotten drain", t, sv.into_iter().map(|a| addr(&a)).collect());
    let sv = smallvec::SmallVec::<[K; 4]>::from_buf_and_len([k(1), k(2), k(3), k(4)], 2);
    let t = traced(&sv);
    cmp_sets("SmallVec from_buf_and_len(.., 2)", t, sv.into_iter().map(|a| addr(&a)).collect());
    let mut sm: slotmap::SlotMap<slotmap::DefaultKey, K> = slotmap::SlotMap::new();
    for i in 0..10 {
        sm.insert(k(i));
    }
    {
        let mut dr = sm.drain();
        dr.next();
        dr.next();
        std::mem::forget(dr);
    }
    let t = traced(&sm);
    cmp_sets("SlotMap forgotten drain", t, sm.drain().map(|(_, a)| addr(&a)).collect());
    let mut im: indexmap::IndexMap<K, K, std::hash::RandomState> = (0..10).map(|i| (k(i), k(i))).collect();
    std::mem::forget(im.drain(2..5));
    let t = traced(&im);
    cmp_sets("IndexMap forgotten drain", t, im.into_iter().flat_map(|(a, b)| [addr(&a), addr(&b)]).collect());
    let mut l: LinkedList<K> = (0..10).map(k).collect();
    let l2 = l.split_off(4);
    let t = traced(&l);
    cmp_sets("LinkedList split_off", t, l.into_iter().map(|a| addr(&a)).collect());
    drop(l2);
}

fn main() {
    rootless_mutate(|mc| body(mc));
    println!("ALL OK");
}
