#![forbid(unsafe_code)]
// Idea 7: auto traits. None of these may be Send / Sync.
use gc_arena::*;
fn send<T: Send>() {}
fn sync<T: Sync>() {}
fn f<'gc>() {
    send::<Gc<'gc, u8>>();
    sync::<Gc<'gc, u8>>();
    send::<GcWeak<'gc, u8>>();
    sync::<GcWeak<'gc, u8>>();
    send::<Arena<Rootable![Gc<'_, u8>]>>();
    sync::<Arena<Rootable![Gc<'_, u8>]>>();
    send::<DynamicRoot<Rootable![u8]>>();
    sync::<DynamicRoot<Rootable![u8]>>();
    send::<GcBuilder<'gc, u8>>();
    sync::<Lock<u8>>();
    sync::<RefLock<u8>>();
    sync::<lock::OnceLock<u8>>();
    sync::<Mutation<'gc>>();
    send::<&'gc Mutation<'gc>>();
    send::<DynamicRootSet<'gc>>();
    send::<std::sync::Arc<Gc<'gc, u8>>>();
}
fn main() {}
