#![forbid(unsafe_code)]
// Idea 11: every Gc *kind* (fat/thin, slice, str, header slices, custom type metadata, unsized via unsize!)
// held inside containers: reported address must be the allocation, and the real collector must keep them.
use std::fmt::Debug;
use std::sync::atomic::{AtomicUsize, Ordering};

use gc_arena::collect::Trace;
use gc_arena::meta::TypeMeta;
use gc_arena::slice::{GcSliceWithHeaderBuilder, GcThinSliceWithHeader};
use gc_arena::*;

static DROPS: AtomicUsize = AtomicUsize::new(0);
#[derive(Debug)]
struct Flag(u32);
impl Drop for Flag {
    fn drop(&mut self) {
        DROPS.fetch_add(1, Ordering::SeqCst);
    }
}

struct TM;
impl TypeMeta for TM {
    type TypeMetadata = &'static str;
    const TYPE_METADATA: &'static &'static str = &"meta";
}

#[derive(Default)]
struct Rec(Vec<usize>, Vec<usize>);
impl<'gc> Trace<'gc> for Rec {
    fn trace_gc(&mut self, gc: Gc<'gc, ()>) {
        self.0.push(Gc::as_ptr(gc) as usize);
    }
    fn trace_gc_weak(&mut self, gc: GcWeak<'gc, ()>) {
        self.1.push(GcWeak::as_ptr(gc) as usize);
    }
}

#[derive(Collect)]
#[collect(no_drop)]
struct Root<'gc> {
    sized: Vec<Gc<'gc, Static<Flag>>>,
    dynd: Option<Gc<'gc, dyn Debug>>,
    dyn_weak: Box<GcWeak<'gc, dyn Debug>>,
    slice: (GcSlice<'gc, Gc<'gc, Static<Flag>>>,),
    thin_slice: [GcThinSlice<'gc, Gc<'gc, Static<Flag>>>; 1],
    str_: Result<GcStr<'gc>, ()>,
    thin_str: std::rc::Rc<GcThinStr<'gc>>,
    hdr: Lock<Option<GcSliceWithHeader<'gc, Gc<'gc, Static<Flag>>, Gc<'gc, Static<Flag>>>>>,
    thin_hdr: RefLock<Option<GcThinSliceWithHeader<'gc, Gc<'gc, Static<Flag>>, u8>>>,
    meta: std::collections::VecDeque<Gc<'gc, Static<Flag>, gc::GcKind<gc::Fat, &'static str, meta::UnitPtrMeta>>>,
    meta_slice: GcSlice<'gc, u8, &'static str>,
    weak_thin: GcWeak<'gc, [u8], gc::GcKind<gc::Thin, (), slice::SlicePtrMeta>>,
}

fn main() {
    let mut n = 0;
    let mut arena = Arena::<Rootable![Root<'_>]>::new(|mc| {
        let mut f = || {
            n += 1;
            Gc::new(mc, Static(Flag(n)))
        };
        let d: Gc<'_, dyn Debug> = unsize!(Gc::new_static(mc, Flag(100)) => dyn Debug);
        let d2: Gc<'_, dyn Debug> = unsize!(Gc::new_static(mc, Flag(101)) => dyn Debug);
        let fs = [f(), f(), f()];
        let weak_target = Gc::as_thin(GcSlice::new_slice(mc, &[1u8, 2, 3]));
        Root {
            sized: vec![f(), f()],
            dynd: Some(d),
            dyn_weak: Box::new(Gc::downgrade(d2)),
            slice: (GcSlice::new_slice(mc, &fs),),
            thin_slice: [Gc::as_thin(GcSlice::new_slice(mc, &[f(), f()]))],
            str_: Ok(GcStr::new_str(mc, "hello")),
            thin_str: std::rc::Rc::new(Gc::as_thin(GcStr::new_str(mc, "world"))),
            hdr: Lock::new(Some(
                GcSliceWithHeaderBuilder::new(3).write_header(f()).write_slice_with(mc, |_| f()),
            )),
            thin_hdr: RefLock::new(Some(Gc::as_thin(
                GcSliceWithHeaderBuilder::new(2).write_header(f()).write_slice_with(mc, |_| 7u8),
            ))),
            meta: [GcBuilder::new_with_type_meta::<TM>().write(mc, Static(Flag(200)))].into(),
            meta_slice: GcSliceBuilder::new_with_type_meta::<TM>(2).copy_slice(mc, &[1, 2]),
            weak_thin: Gc::downgrade(weak_target),
        }
    });
    let total_flags = n as usize + 3;
    arena.mutate(|_, root| {
        let mut r = Rec::default();
        r.trace(root);
        let mut exp = vec![
            Gc::as_ptr(root.sized[0]) as usize,
            Gc::as_ptr(root.sized[1]) as usize,
            Gc::as_ptr(root.dynd.unwrap()) as *const () as usize,
            Gc::as_ptr(root.slice.0) as *const () as usize,
            Gc::as_ptr(root.thin_slice[0]) as *const () as usize,
            Gc::as_ptr(*root.str_.as_ref().unwrap()) as *const () as usize,
            Gc::as_ptr(*root.thin_str) as *const () as usize,
            Gc::as_ptr(root.hdr.get().unwrap()) as *const () as usize,
            Gc::as_ptr(root.thin_hdr.borrow().unwrap()) as *const () as usize,
            Gc::as_ptr(root.meta[0]) as usize,
            Gc::as_ptr(root.meta_slice) as *const () as usize,
        ];
        exp.sort();
        r.0.sort();
        let mut expw = vec![root.dyn_weak.as_ptr() as *const () as usize, root.weak_thin.as_ptr() as *const () as usize];
        expw.sort();
        r.1.sort();
        println!("strong reported {} expected {} equal={}", r.0.len(), exp.len(), r.0 == exp);
        println!("weak   reported {} expected {} equal={}", r.1.len(), expw.len(), r.1 == expw);
        assert!(r.0 == exp && r.1 == expw);
    });
    arena.finish_cycle();
    arena.finish_cycle();
    // only the weakly held Flag(101) may be gone
    println!("flags total {} dropped {}", total_flags, DROPS.load(Ordering::SeqCst));
    assert_eq!(DROPS.load(Ordering::SeqCst), 1);
    arena.mutate(|mc, root| {
        assert!(root.dyn_weak.upgrade(mc).is_none());
        assert!(root.weak_thin.upgrade(mc).is_none());
        assert_eq!(format!("{:?}", root.dynd.unwrap()), "Flag(100)");
        assert_eq!(root.slice.0.iter().map(|f| f.0.0).collect::<Vec<_>>(), [1, 2, 3]);
        assert_eq!(&**root.thin_str, "world");
        assert_eq!(*Gc::type_metadata(root.meta[0]), "meta");
        let h = root.hdr.get().unwrap();
        println!("hdr header {:?} slice {:?}", h.header.0, h.slice.iter().map(|f| f.0.0).collect::<Vec<_>>());
        let th = root.thin_hdr.borrow().unwrap();
        println!("thin hdr header {:?} slice {:?}", th.header.0, &th.slice);
    });
    println!("ok");
}
