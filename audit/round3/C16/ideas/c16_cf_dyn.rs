#![forbid(unsafe_code)]
// Idea 12: dyn_collect! on traits whose DynCollect supertrait uses another lifetime than the impl's 'gc,
// so that a Box<dyn Tr> would be traced with the wrong brand (or not at all).
use gc_arena::{Collect, Gc, collect::{DynCollect, dyn_collect}};

trait TStatic: DynCollect<'static> {}
dyn_collect!(dyn TStatic);

trait TOther<'x>: DynCollect<'x> {}
dyn_collect!(<'x> dyn TOther<'x>);

// the builtin impl: only `dyn DynCollect<'gc> + 'static`
fn needs<'gc, T: Collect<'gc> + ?Sized>() {}
fn f<'gc>() {
    needs::<'gc, Box<dyn DynCollect<'gc> + 'gc>>();
}
fn main() {
    let _ = Gc::<u8>::as_ptr;
}
