#![forbid(unsafe_code)]
#![allow(unused)]
// defect_1, variant b: same root cause (absolute `::gc_arena::` paths in the derive output), this
// time `::gc_arena::collect::Trace` is re-pointed at a local trait that every real tracer implements
// through a blanket impl and whose `trace` method does nothing. The derived `Collect::trace` then
// compiles (its bound is implied by the real one) but traces no field: a pointer held by the ROOT is
// released by the next full cycle and the root keeps the dangling `Gc`.
//
// run: cp defect_1_variant_b.rs <worktree>/examples/ && CARGO_NET_OFFLINE=true cargo run --offline --example defect_1_variant_b
extern crate gc_arena as real;
extern crate self as gc_arena;
pub use real::{Collect, __MustNotImplDrop};
pub mod collect {
    pub trait Trace<'gc> { fn trace<C: ?Sized>(&mut self, _v: &C) {} }
    impl<'gc, T: real::collect::Trace<'gc>> Trace<'gc> for T {}
}
use real::{Arena, Gc, Rootable, Static};

struct Sentinel(u32);
impl Drop for Sentinel {
    fn drop(&mut self) { println!("sentinel {} dropped", self.0); self.0 = 0xdead; }
}

#[derive(Collect)]
#[collect(no_drop)]
struct Holder<'gc> { y: Gc<'gc, Static<Sentinel>> }

fn main() {
    let mut arena: Arena<Rootable![Holder<'_>]> =
        Arena::new(|mc| Holder { y: Gc::new(mc, Static(Sentinel(7))) });
    arena.finish_cycle();
    println!("after a full cycle; root still holds y");
    arena.mutate(|_, r| println!("y = {:#x}", r.y.0.0));
    // observed: "sentinel 7 dropped", "after a full cycle; root still holds y", "y = 0xdead"
}
