#![forbid(unsafe_code)]
#![allow(unused, dead_code)]
use gc_arena::*;
use gc_arena::lock::*;
use gc_arena::barrier::*;
use gc_arena::collect::Trace;
use std::cell::{Cell, RefCell};
#[derive(Collect)]
#[collect(no_drop)]
struct Node<'gc> { v: Gc<'gc, RefLock<Vec<i32>>>, next: Gc<'gc, Lock<Option<Gc<'gc, i32>>>> }
type NodeArena = Arena<Rootable![Node<'_>]>;
fn mk() -> NodeArena { Arena::new(|mc| Node { v: Gc::new(mc, RefLock::new(vec![1,2,3])), next: Gc::new(mc, Lock::new(None)) }) }
use std::sync::atomic::{AtomicU32, Ordering}; fn main(){ let a: Arena<Rootable![Gc<'_, Static<AtomicU32>>]> = Arena::new(|mc| Gc::new(mc, Static(AtomicU32::new(1)))); a.mutate(|mc, r| { let x: &Static<AtomicU32> = r.as_ref(); std::thread::scope(|s| { s.spawn(move || { x.0.fetch_add(1, Ordering::SeqCst); }); }); println!("{}", x.0.load(Ordering::SeqCst)); }); }
