#![forbid(unsafe_code)]
#![allow(unused)]
use gc_arena::{Arena, Collect, Gc, Lock, Rootable, Static, barrier::unlock};
struct Sentinel(u32);
impl Drop for Sentinel { fn drop(&mut self) { println!("sentinel {} dropped", self.0); self.0 = 0xdead; } }
#[derive(Collect)]
#[collect(unsafe_drop)]
struct Evil<'gc> { y: Lock<Option<Gc<'gc, Static<Sentinel>>>> }
impl<'gc> Drop for Evil<'gc> { fn drop(&mut self) { println!("Evil::drop reads y = {:#x}", self.y.get().unwrap().0.0); } }
fn main() {
    let arena: Arena<Rootable![Gc<'_, Evil<'_>>]> = Arena::new(|mc| {
        let x = Gc::new(mc, Evil { y: Lock::new(None) });
        let y = Gc::new(mc, Static(Sentinel(7)));
        unlock!(Gc::write(mc, x), Evil, y).set(Some(y));
        x
    });
    drop(arena);
}
