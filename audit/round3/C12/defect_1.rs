#![forbid(unsafe_code)]
#![allow(unused)]
// defect_1: `#[derive(Collect)]` names the library by the absolute path `::gc_arena::...`.
// `extern crate self as gc_arena;` re-points that path at THIS crate, which re-exports the real
// `Collect` / `collect` but supplies its own empty `__MustNotImplDrop`. `#[collect(no_drop)]` then no
// longer conflicts with a `Drop` impl, and the destructor follows a `Gc` whose target has already
// been destructed and released (arena drop; the same happens in a sweep).
//
// run: cp defect_1.rs <worktree>/examples/ && CARGO_NET_OFFLINE=true cargo run --offline --example defect_1
extern crate gc_arena as real;
extern crate self as gc_arena;
pub use real::{Collect, collect};
pub trait __MustNotImplDrop {}

use real::{Arena, Gc, Lock, Rootable, Static, barrier::unlock};

struct Sentinel(u32);
impl Drop for Sentinel {
    fn drop(&mut self) { println!("sentinel {} dropped", self.0); self.0 = 0xdead; }
}

#[derive(Collect)]
#[collect(no_drop)]
struct Evil<'gc> { y: Lock<Option<Gc<'gc, Static<Sentinel>>>> }

// accepted although the type is `#[collect(no_drop)]`
impl<'gc> Drop for Evil<'gc> {
    fn drop(&mut self) { println!("Evil::drop reads y = {:#x}", self.y.get().unwrap().0.0); }
}

fn main() {
    let arena: Arena<Rootable![Gc<'_, Evil<'_>>]> = Arena::new(|mc| {
        let x = Gc::new(mc, Evil { y: Lock::new(None) });
        let y = Gc::new(mc, Static(Sentinel(7))); // allocated later => released before x
        unlock!(Gc::write(mc, x), Evil, y).set(Some(y));
        x
    });
    drop(arena);
    // expected on a sound crate: compile error (conflicting impls of __MustNotImplDrop)
    // observed: "sentinel 7 dropped" then "Evil::drop reads y = 0xdead" (read of a released object)
}
