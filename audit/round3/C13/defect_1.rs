#![forbid(unsafe_code)]
//! C13 violation: `field!` projects a `&Write<_>` *through a user `Deref` impl* (i.e. through a
//! `Gc` pointer) into another allocated object that never received a write barrier.
//!
//! `field!` relies on `Write::__from_ref_and_ptr($field, $field as *const _)` failing to compile
//! whenever the first argument is coerced.  That is true for a plain deref coercion, but the two
//! arguments are coerced at *different times* of type inference:
//!   * the first argument is coerced immediately.  With the expected type `&S<dyn Super<_>>` the
//!     unsizing coercion `S<dyn Sub> -> S<dyn Super<?X>>` is ambiguous (`Sub: Super<u8> + Super<u16>`),
//!     so rustc falls back to a *deref coercion* through `impl Deref for S<dyn Sub>` (which fixes
//!     `?X = u8`);
//!   * the cast `$field as *const _` is checked at the end of inference, when `?X = u8` is known, and
//!     is accepted as an *unsizing (trait upcasting) cast* `&S<dyn Sub> as *const S<dyn Super<u8>>`.
//! Both arguments type-check, but the reference handed to `Write` is whatever `Deref::deref` returned.

use std::ops::Deref;
use std::sync::atomic::{AtomicBool, Ordering};

use gc_arena::{
    Arena, Collect, Gc, Rootable,
    barrier::{Write, field},
    lock::Lock,
    unsize,
};

static DROPPED_HOLE: AtomicBool = AtomicBool::new(false);
static DROPPED_CONTROL: AtomicBool = AtomicBool::new(false);

/// Sets its flag when it is destructed.
struct Payload(&'static AtomicBool);
impl Drop for Payload {
    fn drop(&mut self) {
        self.0.store(true, Ordering::SeqCst);
    }
}

trait Super<X> {}
trait Sub<'gc>: Super<u8> + Super<u16> {
    fn other(&self) -> Gc<'gc, S<'gc, dyn Super<u8> + 'gc>>;
}

#[derive(Collect)]
#[collect(no_drop)]
struct S<'gc, T: ?Sized> {
    slot: Lock<Option<Gc<'gc, Payload>>>,
    tail: T,
}

#[derive(Collect)]
#[collect(no_drop)]
struct Outer<F: ?Sized> {
    f: F,
}

// The "dereference": goes through a `Gc` pointer into a different allocated object.
impl<'gc> Deref for S<'gc, dyn Sub<'gc> + 'gc> {
    type Target = S<'gc, dyn Super<u8> + 'gc>;
    fn deref(&self) -> &Self::Target {
        self.tail.other().as_ref()
    }
}

#[derive(Collect)]
#[collect(no_drop)]
struct C2;
impl Super<u8> for C2 {}

#[derive(Collect)]
#[collect(no_drop)]
struct C1<'gc> {
    other: Gc<'gc, S<'gc, dyn Super<u8> + 'gc>>,
}
impl<'gc> Super<u8> for C1<'gc> {}
impl<'gc> Super<u16> for C1<'gc> {}
impl<'gc> Sub<'gc> for C1<'gc> {
    fn other(&self) -> Gc<'gc, S<'gc, dyn Super<u8> + 'gc>> {
        self.other
    }
}

type Victim<'gc> = Gc<'gc, S<'gc, dyn Super<u8> + 'gc>>;
type Holder<'gc> = Gc<'gc, Outer<S<'gc, dyn Sub<'gc> + 'gc>>>;

#[derive(Collect)]
#[collect(no_drop)]
struct Root<'gc> {
    holder: Holder<'gc>,
    victim: Victim<'gc>,
}

/// Safe code: `&Write<holder contents>` -> `&Write<victim contents>` (a different `Gc` allocation).
fn through<'a, 'gc>(
    w: &'a Write<Outer<S<'gc, dyn Sub<'gc> + 'gc>>>,
) -> &'a Write<S<'gc, dyn Super<u8> + 'gc>> {
    let r: &Write<S<'gc, dyn Super<_> + 'gc>> = field!(w, Outer, f);
    r
}

/// `use_hole = true`: barrier on `holder` only, the `&Write` for the victim comes out of `field!`.
/// `use_hole = false` (control): the victim gets its own write barrier through `Gc::write`.
fn scenario(use_hole: bool, flag: &'static AtomicBool) -> bool {
    let mut arena = Arena::<Rootable![Root<'_>]>::new(|mc| {
        let victim: Victim<'_> = unsize!(Gc::new(mc, S { slot: Lock::new(None), tail: C2 })
            => S<'_, dyn Super<u8> + '_>);
        let holder: Holder<'_> = unsize!(Gc::new(mc, Outer {
            f: S { slot: Lock::new(None), tail: C1 { other: victim } },
        }) => Outer<S<'_, dyn Sub<'_> + '_>>);
        Root { holder, victim }
    });

    // Mark everything: holder and victim are now black, the collector is still in the mark phase.
    let _ = arena.finish_marking();

    arena.mutate(|mc, root| {
        let v: &Write<S<'_, dyn Super<u8> + '_>> = if use_hole {
            // Write barrier on `holder` ONLY.
            let w = Gc::write(mc, root.holder);
            let v = through(w);
            let same = std::ptr::addr_eq(v as *const _, Gc::as_ptr(root.victim));
            println!("  &Write obtained from field!(holder) points into the victim allocation: {same}");
            v
        } else {
            Gc::write(mc, root.victim)
        };
        // A fresh (white) object is adopted by the black victim.
        let fresh = Gc::new_static(mc, Payload(flag));
        field!(v, S, slot).unlock().set(Some(fresh));
    });

    arena.finish_cycle();

    let still_referenced = arena.mutate(|_, root| root.victim.slot.get().is_some());
    println!("  victim (reachable from the root) still holds the pointer: {still_referenced}");
    println!("  payload destructed: {}", flag.load(Ordering::SeqCst));
    still_referenced && flag.load(Ordering::SeqCst)
}

fn main() {
    println!("control (victim barriered with Gc::write):");
    let bad = scenario(false, &DROPPED_CONTROL);
    assert!(!bad);
    println!("hole (barrier on holder only, projection through Deref):");
    if scenario(true, &DROPPED_HOLE) {
        println!("VIOLATION: a reachable object was freed (pointer adopted without a write barrier)");
    }
}
