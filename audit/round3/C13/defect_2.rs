#![forbid(unsafe_code)]
//! C13 violation: the internal arms of `dyn_collect!` (`@emit`, `@split`, `@bounds`) are part of the
//! exported macro and can be invoked directly, which skips both checks added by the earlier fixes
//! (94c854b "only trait object types", 393f13d "no `{ ... }` groups").
//!
//! `dyn_collect!(@emit [] [Evil<'gc>] [...])` expands to the macro's hand-vouched `impl<'gc> Collect<'gc> for
//! Evil<'gc>` for a *sized* struct holding a plain `Cell<Option<Gc>>`; this program itself never spells the
//! keyword that such an impl needs (see the `forbid` attribute above).
//! A `{ ... }` group in the "bounds" slot additionally lets the caller write the body of that impl
//! (here: a perfectly correct `trace`, so that the only thing missing is the write barrier).

use std::cell::Cell;
use std::sync::atomic::{AtomicBool, Ordering};

use gc_arena::{
    Arena, Gc, Rootable,
    collect::{Trace, dyn_collect},
};

static PAYLOAD_DROPPED: AtomicBool = AtomicBool::new(false);

struct Payload(#[allow(dead_code)] u32);
impl Drop for Payload {
    fn drop(&mut self) {
        PAYLOAD_DROPPED.store(true, Ordering::SeqCst);
    }
}

/// A plain `Cell` holding a `Gc`: must never be `Collect`.
struct Evil<'a>(Cell<Option<Gc<'a, Payload>>>);

/// Receives the macro's own `trace` body.
#[allow(dead_code)]
trait Decoy<'gc> {
    fn trace<T: Trace<'gc>>(&self, cc: &mut T);
}

// Expands to
//   <macro's keyword> impl<'gc> Collect<'gc> for Evil<'gc> where Self: Sized { <our trace> }
//   impl<'gc> Decoy<'gc> for Evil<'gc> { <the macro's trace> }
dyn_collect!(@emit [] [Evil<'gc>] [Self: Sized {
    fn trace<T: Trace<'gc>>(&self, cc: &mut T) {
        if let Some(p) = self.0.get() {
            cc.trace_gc(Gc::erase(p));
        }
    }
} impl<'gc> Decoy<'gc> for Evil<'gc>]);

// (The minimal form `dyn_collect!(@emit [] [Evil<'gc>] []);` compiles as well; its `trace` recurses
// through the blanket `DynCollect` impl, exactly like the defect fixed by 94c854b.)

fn main() {
    let mut arena =
        Arena::<Rootable![Gc<'_, Evil<'_>>]>::new(|mc| Gc::new(mc, Evil(Cell::new(None))));

    // The `Evil` object is traced (black); the collector stays in the mark phase.
    let _ = arena.finish_marking();

    // Adoption of a fresh (white) pointer through a plain `Cell`: no `Write`, no barrier, not even `mc`
    // is needed for the store.
    arena.mutate(|mc, root| {
        let fresh = Gc::new_static(mc, Payload(42));
        root.0.set(Some(fresh));
    });

    arena.finish_cycle();

    let still_referenced = arena.mutate(|_, root| root.0.get().is_some());
    println!("root object still holds the pointer: {still_referenced}");
    println!(
        "payload destructed while reachable: {}",
        PAYLOAD_DROPPED.load(Ordering::SeqCst)
    );
    if still_referenced && PAYLOAD_DROPPED.load(Ordering::SeqCst) {
        println!("VIOLATION: a reachable object was freed (pointer adopted without a write barrier)");
    }
}
