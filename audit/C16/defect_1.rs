//! C16 defect 1: "no tracing needed" impls that are justified by a `'static` bound
//! (`Static<T>`, `Cell<T>`, `RefCell<T>`, `&'static T`, the `S` of `HashMap<K, V, S>` /
//! hashbrown / indexmap, `#[collect(require_static)]`, `static_collect!`, `Gc::new_static`) CAN
//! hold arena pointers, because an arena callback can be made to type-check under the assumption
//! `'gc: 'static`.
//!
//! How: the root type is written through `Rootable![..]`, i.e. it only ever appears under the
//! binder of `dyn for<'gc> Rootable<'gc, Root = ..>`, where rustc does not check
//! well-formedness.  If that type contains `&'static &'gc ()` (in a position that is `Collect`
//! without any bound: `PhantomData<T>`, or the pointee of a `Gc<'gc, T>` / `GcWeak<'gc, T>`), then
//! every callback whose signature mentions `Root<'gc, R>` (`Arena::new`, `mutate`, `mutate_root`,
//! `map_root`, `finalize`) gets the *implied bound* `'gc: 'static`.  The arena really does call the
//! callback with `'gc = 'static`, so the language has nothing to complain about - the crate's
//! "a callback is parametric in 'gc, hence `T: 'static` means T holds no Gc" argument is what
//! breaks.  The crate knows this trick (see the long comment on `impl Collect for &'static T` in
//! src/collect_impl.rs) but the explicit `T: 'static` it added there only blocks the
//! `&'static Gc<'gc, _>` *root*; it does not block the carriers used below.
//!
//! Build/run (from the crate root):
//!     cp defect_1.rs examples/ && cargo run --offline --example defect_1
//!     cargo run --offline --example defect_1 -- deref     # additionally read the freed objects
#![forbid(unsafe_code)]

use std::cell::Cell;
use std::collections::HashMap;
use std::hash::{BuildHasher, DefaultHasher};
use std::marker::PhantomData;
use std::rc::Rc;

use gc_arena::{Arena, Gc, RefLock, Rootable, Static};

/// Drop flag + sentinel.
struct Tracked {
    destructed: Rc<Cell<u32>>,
    sentinel: u64,
}
impl Drop for Tracked {
    fn drop(&mut self) {
        self.destructed.set(self.destructed.get() + 1);
        self.sentinel = 0xdead_dead_dead_dead;
    }
}
type Obj<'gc> = Gc<'gc, Static<Tracked>>;

/// A hasher *state* that owns an arena pointer (`HashMap<K, V, S>: Collect` only asks `S: 'static`).
#[derive(Clone)]
struct PtrHasher<'gc>(Obj<'gc>);
impl<'gc> BuildHasher for PtrHasher<'gc> {
    type Hasher = DefaultHasher;
    fn build_hasher(&self) -> DefaultHasher {
        DefaultHasher::new()
    }
}

type Slot<'gc, T> = Gc<'gc, RefLock<Option<Gc<'gc, T>>>>;

// Carrier 1: `PhantomData<&'static &'gc ()>` (Collect for PhantomData<T> has no bound on T).
// Carrier 2: `Option<Gc<'gc, &'static &'gc ()>>` = None (Collect for Gc<'gc, T> has no bound on T).
// Either one alone is enough; both are listed to show that neither impl can simply be patched.
type R = Rootable![(
    PhantomData<&'static &'_ ()>,
    Option<Gc<'_, &'static &'_ ()>>,
    Slot<'_, Static<Obj<'_>>>,                  // Static<T>:    NEEDS_TRACE = false
    Slot<'_, Cell<Option<Obj<'_>>>>,            // Cell<T>:      NEEDS_TRACE = false
    Slot<'_, HashMap<u8, u8, PtrHasher<'_>>>,   // HashMap<_,_,S>: S is never traced
    Slot<'_, Obj<'_>>,                          // Gc::new_static(gc)
)];

fn main() {
    let deref = std::env::args().any(|a| a == "deref");
    let destructed = Rc::new(Cell::new(0u32));
    let mk = |sentinel| Static(Tracked { destructed: destructed.clone(), sentinel });

    let mut arena = Arena::<R>::new(|mc| {
        (
            PhantomData,
            None,
            Gc::new(mc, RefLock::new(None)),
            Gc::new(mc, RefLock::new(None)),
            Gc::new(mc, RefLock::new(None)),
            Gc::new(mc, RefLock::new(None)),
        )
    });

    arena.mutate(|mc, root| {
        // All four lines need `Gc<'gc, _>: 'static`; in any ordinary callback they are rejected
        // with E0521 ("borrowed data escapes outside of closure").
        *root.2.borrow_mut(mc) = Some(Gc::new(mc, Static(Gc::new(mc, mk(1)))));
        *root.3.borrow_mut(mc) = Some(Gc::new(mc, Cell::new(Some(Gc::new(mc, mk(2))))));
        *root.4.borrow_mut(mc) =
            Some(Gc::new(mc, HashMap::with_hasher(PtrHasher(Gc::new(mc, mk(3))))));
        *root.5.borrow_mut(mc) = Some(Gc::new_static(mc, Gc::new(mc, mk(4))));
    });

    // Everything above is reachable from the root through safe, public accessors.
    arena.finish_cycle();
    arena.finish_cycle();

    println!(
        "objects still reachable from the root that were destructed and freed: {} (expected 0)",
        destructed.get()
    );

    if deref {
        arena.mutate(|_mc, root| {
            let a: Obj = root.2.borrow().unwrap().0;
            let b: Obj = root.3.borrow().unwrap().get().unwrap();
            let c: Obj = root.4.borrow().unwrap().hasher().0;
            let d: Obj = *root.5.borrow().unwrap().as_ref();
            println!(
                "use after free, sentinels read through the dangling pointers: {:#x} {:#x} {:#x} {:#x}",
                a.sentinel, b.sentinel, c.sentinel, d.sentinel
            );
        });
    }
}
