//! C16 finding 2 (DEPENDS ON A RUSTC SOUNDNESS BUG - rust-lang/rust#84366: a closure / fn-item type
//! is `'static` whenever its captures are, no matter what its signature mentions).
//!
//! `Static<T>: Collect` (NEEDS_TRACE = false) only asks `T: 'static`.  `Holder<C>` below is
//! `'static` as soon as `C` is, but stores a `C::Out`; with `C` = a capture-less closure returning
//! `Gc<'gc, _>` the compiler accepts `Holder<C>: 'static` although it owns an arena pointer.
//! The same compiler bug breaks `Box<dyn Any>` & co. in plain std, so this is listed for
//! completeness rather than as a defect of the crate proper.
//!
//!     cp defect_2_rustc_closure_static.rs examples/ && cargo run --offline --example defect_2_rustc_closure_static
#![forbid(unsafe_code)]

use std::cell::Cell;
use std::rc::Rc;

use gc_arena::{Arena, Gc, Mutation, RefLock, Rootable, Static};

struct Tracked(Rc<Cell<bool>>);
impl Drop for Tracked {
    fn drop(&mut self) {
        self.0.set(true);
    }
}
type T = Static<Tracked>;

trait Producer {
    type Out;
}
impl<F: FnOnce() -> R, R> Producer for F {
    type Out = R;
}

/// `Holder<C>: 'static` <=> `C: 'static`, yet it owns a `C::Out`.
struct Holder<C: Producer>(Option<C::Out>);

fn witness<'gc, C: Producer<Out = Gc<'gc, T>> + 'static>(
    _c: C,
    mc: &Mutation<'gc>,
    g: Gc<'gc, T>,
) -> Gc<'gc, Static<Holder<C>>> {
    Gc::new(mc, Static(Holder::<C>(Some(g))))
}

fn smuggle<'gc>(mc: &Mutation<'gc>, g: Gc<'gc, T>) -> Gc<'gc, ()> {
    let c = || -> Gc<'gc, T> { unreachable!() }; // captures nothing => "'static"
    Gc::erase(witness(c, mc, g))
}

fn main() {
    let destructed = Rc::new(Cell::new(false));
    let mut arena = Arena::<Rootable![Gc<'_, RefLock<Option<Gc<'_, ()>>>>]>::new(|mc| {
        Gc::new(mc, RefLock::new(None))
    });
    arena.mutate(|mc, root| {
        let g = Gc::new(mc, Static(Tracked(destructed.clone())));
        *root.borrow_mut(mc) = Some(smuggle(mc, g));
    });
    arena.finish_cycle();
    arena.finish_cycle();
    println!(
        "object owned by a rooted Static<Holder<_>> was destructed: {} (expected false)",
        destructed.get()
    );
}
