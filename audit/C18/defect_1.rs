#![forbid(unsafe_code)]
// C18: "a builder dropped at any stage releases its memory".
//
// Abandonment point "after header": a GcSliceWithHeaderSliceBuilder (header written, 0 of n
// elements written) is dropped. If the header's destructor panics, the builder's Drop impl unwinds
// out of `drop_in_place` and never reaches `ManuallyDrop::drop(&mut self.inner)`, so the block
// (GC header + H + n * E) is never handed back to the allocator.
//
// Detected without touching freed memory: the process' virtual size (/proc/self/statm) grows by
// exactly the size of the abandoned blocks, while the control run (same builders, header
// destructor does not panic) stays flat.
use std::cell::Cell;
use std::panic::{AssertUnwindSafe, catch_unwind};

use gc_arena::{Arena, Collect, GcSliceWithHeaderBuilder, Rootable};

thread_local! { static HEADER_DROPS: Cell<usize> = Cell::new(0); }

#[derive(Collect)]
#[collect(require_static)]
struct Header { panic_in_drop: bool }
impl Drop for Header {
    fn drop(&mut self) {
        HEADER_DROPS.with(|d| d.set(d.get() + 1));
        if self.panic_in_drop {
            panic!("header destructor");
        }
    }
}

fn vm_mib() -> usize {
    let s = std::fs::read_to_string("/proc/self/statm").unwrap();
    s.split_whitespace().next().unwrap().parse::<usize>().unwrap() * 4096 / (1024 * 1024)
}

/// Returns true if dropping the builder unwound.
fn abandon_after_header(arena: &Arena<Rootable![()]>, n: usize, panic_in_drop: bool) -> bool {
    arena.mutate(|_mc, _| {
        catch_unwind(AssertUnwindSafe(|| {
            let b = GcSliceWithHeaderBuilder::<Header, u64>::new(n).write_header(Header { panic_in_drop });
            drop(b);
        }))
        .is_err()
    })
}

fn main() {
    std::panic::set_hook(Box::new(|_| {}));
    let arena = Arena::<Rootable![()]>::new(|_| ());
    let n = 8 * 1024 * 1024; // 64 MiB of u64 per builder
    for panic_in_drop in [false, true] {
        let before = vm_mib();
        for _ in 0..16 {
            assert_eq!(abandon_after_header(&arena, n, panic_in_drop), panic_in_drop);
        }
        println!(
            "header dtor panics: {panic_in_drop:5} | 16 builders x 64 MiB abandoned after the header | \
             header destructor ran {} times | virtual size grew by {} MiB | gc count {} debt {}",
            HEADER_DROPS.with(|d| d.replace(0)),
            vm_mib().saturating_sub(before),
            arena.metrics().total_gc_count(),
            arena.metrics().allocation_debt(),
        );
    }
}
