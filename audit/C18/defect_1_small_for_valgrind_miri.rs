#![forbid(unsafe_code)]
// small variant for valgrind / miri leak checkers
use std::panic::{AssertUnwindSafe, catch_unwind};
use gc_arena::{Collect, GcSliceWithHeaderBuilder};
#[derive(Collect)]
#[collect(require_static)]
struct Header;
impl Drop for Header { fn drop(&mut self) { panic!("header destructor"); } }
fn main() {
    std::panic::set_hook(Box::new(|_| {}));
    let r = catch_unwind(AssertUnwindSafe(|| {
        drop(GcSliceWithHeaderBuilder::<'static, Header, u64>::new(1000).write_header(Header));
    }));
    assert!(r.is_err());
}
