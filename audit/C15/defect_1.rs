#![forbid(unsafe_code)]
// DEFECT 1 (property C15): token injection through `#[collect(bound = "...")]`.
//
// The derive pastes the *raw token stream* of the `bound` string after `for @Self` in
//     gen unsafe impl ::gc_arena::Collect<'gc> for @Self #where_clause { const NEEDS_TRACE ..; fn trace .. }
// and synstructure's `gen_impl` takes the FIRST brace group after the where clause as the impl body and
// re-emits everything that follows verbatim after the impl.  A bound string that contains its own
// `{ ... }` therefore replaces the generated body (NEEDS_TRACE / trace) by caller-chosen tokens, and a
// trailing `eat!` macro call swallows the real body.  The result is an `unsafe impl Collect` (the
// `unsafe` keyword is supplied by the derive, so `#![forbid(unsafe_code)]` does not object) whose
// `trace` is the default no-op and whose NEEDS_TRACE is false although the struct holds a `Gc`.
//
// Build/run (inside the worktree, file copied to examples/inject1.rs):
//     CARGO_NET_OFFLINE=true cargo run --offline --example inject1
// Observed output:
//     NEEDS_TRACE of Root = false
//     drops of reachable payload after full collections: 1
use gc_arena::{Arena, Collect, Gc, Rootable};
use std::cell::Cell;
use std::rc::Rc;

struct Canary(Rc<Cell<u32>>);
impl Drop for Canary {
    fn drop(&mut self) {
        self.0.set(self.0.get() + 1);
    }
}

#[derive(Collect)]
#[collect(require_static)]
struct Payload(#[allow(dead_code)] Canary);

#[derive(Collect)]
#[collect(
    no_drop,
    bound = "where Self: Sized { const NEEDS_TRACE: bool = false; } macro_rules! eat { ($($t:tt)*) => {} } eat!"
)]
struct Root<'gc> {
    ptr: Gc<'gc, Payload>,
}

fn main() {
    let drops = Rc::new(Cell::new(0));
    let d2 = drops.clone();
    let mut arena = Arena::<Rootable![Root<'_>]>::new(move |mc| Root {
        ptr: Gc::new(mc, Payload(Canary(d2))),
    });
    println!("NEEDS_TRACE of Root = {}", <Root as Collect>::NEEDS_TRACE);
    arena.finish_cycle();
    arena.finish_cycle();
    // The payload is still reachable from the root (root.ptr), yet it has been destructed and freed:
    println!("drops of reachable payload after full collections: {}", drops.get());
    arena.mutate(|_, root| {
        let _dangling: Gc<'_, Payload> = root.ptr; // dereferencing this would read freed memory
    });
    assert_eq!(drops.get(), 1, "violation expected on the unmodified crate");
}
