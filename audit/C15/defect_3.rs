// DEFECT 3 (property C15; lower severity, needs a cooperating but 100% safe attribute macro).
//
// The derive computes NEEDS_TRACE from the field-type TOKENS it is shown (`<#ty as Collect>::NEEDS_TRACE`),
// while `trace` works on the ACTUAL field (`cc.trace(&self.field)`, type inferred).  Nothing ties the two
// together, so an attribute macro placed BELOW `#[derive(Collect)]` (it is expanded after the derive, which
// saw the un-rewritten item) can change a field type `Placeholder` (= `()`, NEEDS_TRACE == false) into
// `Gc<'gc, Payload>`: the program type-checks, Holder::NEEDS_TRACE stays false, the allocation header gets
// needs_trace = false and the Gc inside a `Gc<Holder>` is never traced.
// (For `#[collect(require_static)]` fields the pattern uses `..`, so such a macro can even ADD Gc fields.)
//
// This file is examples/attr_after_derive.rs of the crate in out/defect_3_crate/ (helper proc-macro crate
// `swapmac` contains no unsafe and uses only `proc_macro`).  Build/run:
//     cd /tmp/audit/C15/out/defect_3_crate && CARGO_NET_OFFLINE=true cargo run --offline --example attr_after_derive
// Observed output:
//     NEEDS_TRACE of Holder = false
//     drops of reachable payload after full collections: 1
#![forbid(unsafe_code)]
// Attack: a (safe) attribute macro placed BELOW #[derive(Collect)] rewrites a field type after the
// derive has already computed NEEDS_TRACE from the tokens it saw.
use gc_arena::{Arena, Collect, Gc, Rootable};
use std::cell::Cell;
use std::rc::Rc;

struct Canary(Rc<Cell<u32>>);
impl Drop for Canary {
    fn drop(&mut self) {
        self.0.set(self.0.get() + 1);
    }
}

#[derive(Collect)]
#[collect(require_static)]
struct Payload(Canary);

#[allow(dead_code)]
type Placeholder = ();

#[derive(Collect)]
#[collect(no_drop)]
#[swapmac::swap(Placeholder => Gc<'gc, Payload>)]
struct Holder<'gc> {
    ptr: Placeholder,
    _m: std::marker::PhantomData<Gc<'gc, ()>>,
}

#[derive(Collect)]
#[collect(no_drop)]
struct Root<'gc> {
    holder: Gc<'gc, Holder<'gc>>,
}

fn main() {
    let drops = Rc::new(Cell::new(0));
    let d2 = drops.clone();
    let mut arena = Arena::<Rootable![Root<'_>]>::new(move |mc| Root {
        holder: Gc::new(
            mc,
            Holder {
                ptr: Gc::new(mc, Payload(Canary(d2))),
                _m: std::marker::PhantomData,
            },
        ),
    });
    println!("NEEDS_TRACE of Holder = {}", <Holder as Collect>::NEEDS_TRACE);
    arena.finish_cycle();
    arena.finish_cycle();
    println!("drops of reachable payload after full collections: {}", drops.get());
    arena.mutate(|_, root| {
        let _ = &root.holder.ptr;
    });
}
