#![forbid(unsafe_code)]
// DEFECT 2 (property C15, same family): token injection through the `where` tail of `dyn_collect!`.
//
// `dyn_collect!(<P> $trait:ty where $($bounds:tt)+)` expands to
//     unsafe impl<'gc, P> Collect<'gc> for $trait where $($bounds)+ { fn trace(..) { DynCollect::dyn_trace(self, cc) } }
// `$trait` may be ANY local type (not only a `dyn Trait`), and the bounds are raw token trees.  Bounds that
// contain `{}` close the unsafe impl with an EMPTY body (default no-op `trace`); the real body is attached to
// a harmless inherent impl that the caller opens at the end of the injected tokens.  The caller never writes
// `unsafe`, the macro supplies it, so this compiles under `#![forbid(unsafe_code)]`.
//
// Build/run (inside the worktree, file copied to examples/inject2.rs):
//     CARGO_NET_OFFLINE=true cargo run --offline --example inject2
// Observed output:
//     drops of reachable payload after full collections: 1
use gc_arena::{Arena, Collect, Gc, Rootable};
use std::cell::Cell;
use std::marker::PhantomData;
use std::rc::Rc;

struct Canary(Rc<Cell<u32>>);
impl Drop for Canary {
    fn drop(&mut self) {
        self.0.set(self.0.get() + 1);
    }
}

#[derive(Collect)]
#[collect(require_static)]
struct Payload(#[allow(dead_code)] Canary);

// NOT derived: holds a Gc and obtains a Collect impl with the default (empty) trace.
struct Evil<'gc, T> {
    ptr: Gc<'gc, Payload>,
    _t: PhantomData<T>,
}

// Receives the real macro body as an inherent method (needs `Dummy<'gc>: DynCollect<'gc>`, which holds).
#[allow(dead_code)]
#[derive(Collect)]
#[collect(no_drop)]
struct Dummy<'gc>(PhantomData<Gc<'gc, ()>>);

gc_arena::collect::dyn_collect!(<T> Evil<'gc, T> where T: Sized {} impl<'gc> Dummy<'gc>);

fn main() {
    let drops = Rc::new(Cell::new(0));
    let d2 = drops.clone();
    let mut arena = Arena::<Rootable![Evil<'_, ()>]>::new(move |mc| Evil {
        ptr: Gc::new(mc, Payload(Canary(d2))),
        _t: PhantomData,
    });
    arena.finish_cycle();
    arena.finish_cycle();
    println!("drops of reachable payload after full collections: {}", drops.get());
    arena.mutate(|_, root| {
        let _dangling: Gc<'_, Payload> = root.ptr; // dereferencing this would read freed memory
    });
    assert_eq!(drops.get(), 1, "violation expected on the unmodified crate");
}
