#![no_main]
use libfuzzer_sys::fuzz_target;

#[global_allocator]
static ALLOC: gcverif::obs::TrackAlloc = gcverif::obs::TrackAlloc;

static INIT: std::sync::Once = std::sync::Once::new();

fuzz_target!(|data: &[u8]| {
    INIT.call_once(gcverif::obs::install_panic_hook);
    let case = gcverif::decode::lcase(data);
    let o = gcverif::inputs_main::layout_outcome(&case);
    if !o.internal.is_empty() {
        eprintln!("INTERNAL {:?}", o.internal);
        std::process::abort();
    }
    if let Some(e) = o.errors.first() {
        let out = std::env::var("GCV_FUZZ_OUT").unwrap_or_else(|_| "/tmp".into());
        let json = serde_json_case(&case);
        let path = format!("{out}/C17-fuzz-{:016x}.json", hash(&json));
        let _ = std::fs::write(&path, format!("{{\"property\":\"C17\",\"kind\":\"layout\",\"message\":{e:?},\"case\":{json}}}"));
        eprintln!("FUZZ-VIOLATION property=C17 replay={path}");
        std::process::abort();
    }
});

fn serde_json_case(c: &gcverif::layout::LCase) -> String {
    gcverif::inputs_main::to_json_l(c)
}

fn hash(s: &str) -> u64 {
    use std::hash::{Hash, Hasher};
    let mut h = std::collections::hash_map::DefaultHasher::new();
    s.hash(&mut h);
    h.finish()
}
