#![no_main]
//! Coverage-guided target: bytes -> history (total decoder) -> interpreter with all oracles.
//! GCV_FUZZ_PROP selects which property's violations count (default C01).
use libfuzzer_sys::fuzz_target;

#[global_allocator]
static ALLOC: gcverif::obs::TrackAlloc = gcverif::obs::TrackAlloc;

static INIT: std::sync::Once = std::sync::Once::new();

fuzz_target!(|data: &[u8]| {
    INIT.call_once(gcverif::obs::install_panic_hook);
    let prop = std::env::var("GCV_FUZZ_PROP").unwrap_or_else(|_| "C01".into());
    let case = gcverif::decode::case(data);
    let opts = gcverif::exec::ExecOpts { hook: true, ..Default::default() };
    let r = gcverif::driver::run_case(&case, opts);
    if !r.internal.is_empty() {
        eprintln!("INTERNAL {:?}\n{}", r.internal, case.to_json());
        std::process::abort();
    }
    if let Some(v) = r.violations.iter().find(|v| gcverif::driver::relevant(&prop, v)) {
        let out = std::env::var("GCV_FUZZ_OUT").unwrap_or_else(|_| "/tmp".into());
        let path = format!("{out}/{prop}-fuzz-{:016x}.json", case.hash64());
        let body = format!("{{\"property\":\"{prop}\",\"oracle\":\"{}:{}\",\"message\":{:?},\"case\":{}}}", v.prop, v.tag, v.msg, case.to_json());
        let _ = std::fs::write(&path, body);
        eprintln!("FUZZ-VIOLATION property={prop} replay={path}");
        std::process::abort();
    }
});
