#![no_main]
use libfuzzer_sys::fuzz_target;

#[global_allocator]
static ALLOC: gcverif::obs::TrackAlloc = gcverif::obs::TrackAlloc;

static INIT: std::sync::Once = std::sync::Once::new();

fuzz_target!(|data: &[u8]| {
    INIT.call_once(gcverif::obs::install_panic_hook);
    let case = gcverif::decode::bcase(data);
    let o = gcverif::inputs_main::builders_outcome(&case);
    if !o.internal.is_empty() {
        eprintln!("INTERNAL {:?}", o.internal);
        std::process::abort();
    }
    if let Some(e) = o.errors.first() {
        let out = std::env::var("GCV_FUZZ_OUT").unwrap_or_else(|_| "/tmp".into());
        let json = gcverif::inputs_main::to_json_b(&case);
        use std::hash::{Hash, Hasher};
        let mut h = std::collections::hash_map::DefaultHasher::new();
        json.hash(&mut h);
        let path = format!("{out}/C18-fuzz-{:016x}.json", h.finish());
        let _ = std::fs::write(&path, format!("{{\"property\":\"C18\",\"kind\":\"builders\",\"message\":{e:?},\"case\":{json}}}"));
        eprintln!("FUZZ-VIOLATION property=C18 replay={path}");
        std::process::abort();
    }
});
