#![recursion_limit = "512"]
#![allow(clippy::too_many_arguments, clippy::type_complexity)]

mod campaign;
mod convert;
mod crash;
mod driver;
mod env;
mod evidence;
mod exec;
mod fin;
mod r#gen;
mod heap;
mod lang;
mod model;
mod obs;
mod profiles;
mod run;
mod templates;

#[global_allocator]
static ALLOC: obs::TrackAlloc = obs::TrackAlloc;

use std::time::Instant;

pub fn root_dir() -> String {
    std::env::var("GCVERIF_ROOT").unwrap_or_else(|_| "/verif".to_string())
}

pub fn seed() -> u64 {
    std::env::var("VERIF_SEED").ok().and_then(|s| s.trim().parse::<i64>().ok()).map(|v| v as u64).unwrap_or(1)
}

fn main() {
    obs::install_panic_hook();
    let args: Vec<String> = std::env::args().collect();
    let code = match args.get(1).map(|s| s.as_str()) {
        Some("worker") => worker(&args[2], &args[3], args.get(4).map(|s| s.as_str()).unwrap_or("rel")),
        Some("replay") => replay(&args[2]),
        Some("gen") => {
            // print a few generated cases of a profile (debugging aid)
            let plan = profiles::plan(&args[2]).expect("history property");
            let n: usize = args.get(3).and_then(|s| s.parse().ok()).unwrap_or(3);
            use proptest::strategy::{Strategy, ValueTree};
            let mut runner = proptest::test_runner::TestRunner::deterministic();
            let s = campaign::strategy(&plan, &templates::prefixes(&args[2]), plan.profile.max_steps);
            for _ in 0..n {
                println!("{}", s.new_tree(&mut runner).unwrap().current().to_json());
            }
            0
        }
        _ => {
            eprintln!("usage: gcverif worker <Cxx> <quick|thorough> [build-tag] | replay <file> | gen <Cxx> [n]");
            2
        }
    };
    std::process::exit(code);
}

fn threads() -> usize {
    std::env::var("GCVERIF_THREADS").ok().and_then(|s| s.parse().ok()).unwrap_or_else(|| std::thread::available_parallelism().map(|n| n.get()).unwrap_or(8).min(16))
}

fn worker(prop: &str, tier: &str, tag: &str) -> i32 {
    let t0 = Instant::now();
    let root = root_dir();
    let Some(plan) = profiles::plan(prop) else {
        eprintln!("gcverif: {prop} is not decided by the history engine");
        return 2;
    };
    let seed = seed();
    let thorough = tier == "thorough";
    let _ = std::fs::create_dir_all(format!("{root}/failures"));
    crash::install(&format!("{root}/failures/{prop}-crash-{tag}.json"));
    let _ = std::fs::remove_file(format!("{root}/failures/{prop}-crash-{tag}.json"));

    let mut total = campaign::CampaignResult::default();
    // 1. directed templates and the regression corpus
    let mut fixed: Vec<(String, lang::Case)> = templates::cases(prop);
    for dir in [format!("{root}/corpus/regress/{prop}"), format!("{root}/corpus/seed")] {
        if let Ok(rd) = std::fs::read_dir(&dir) {
            let mut names: Vec<_> = rd.filter_map(|e| e.ok()).map(|e| e.path()).filter(|p| p.extension().map(|x| x == "json").unwrap_or(false)).collect();
            names.sort();
            for p in names {
                if let Ok(s) = std::fs::read_to_string(&p) {
                    match evidence::case_from_file_text(&s) {
                        Ok(c) => fixed.push((p.display().to_string(), c)),
                        Err(e) => eprintln!("gcverif: cannot parse {}: {e}", p.display()),
                    }
                }
            }
        }
    }
    let n_fixed = fixed.len();
    campaign::run_fixed(&plan, &fixed, &mut total);

    // 2. random campaign
    if total.failure.is_none() && total.internal.is_empty() {
        let cases = std::env::var("GCVERIF_CASES").ok().and_then(|s| s.parse().ok()).unwrap_or(if thorough { plan.cases_thorough } else { plan.cases_quick });
        let prefixes = templates::prefixes(prop);
        let max_steps = if thorough { (plan.profile.max_steps * 5 / 2).min(150) } else { plan.profile.max_steps };
        if thorough {
            // half the budget on short histories (dense in small interleavings), half on long ones
            let r1 = campaign::run(&plan, cases / 2, seed, 1, &prefixes, plan.profile.max_steps, threads());
            merge(&mut total, r1);
            if total.failure.is_none() && total.internal.is_empty() {
                let r2 = campaign::run(&plan, cases / 2, seed, 2, &prefixes, max_steps, threads());
                merge(&mut total, r2);
            }
        } else {
            let r = campaign::run(&plan, cases, seed, 0, &prefixes, max_steps, threads());
            merge(&mut total, r);
        }
    }
    let wall = t0.elapsed().as_secs_f64();

    // 3. report
    let mut code = 0;
    let mut violations = 0;
    if !total.internal.is_empty() {
        eprintln!("gcverif: INTERNAL ERROR (cannot decide): {}", total.internal[0]);
        code = 2;
    }
    if let Some(f) = &total.failure {
        violations = 1;
        let path = evidence::write_failure(&root, prop, &f.case, &f.violation);
        println!("violated oracle: {} {} — {}", f.violation.prop, f.violation.tag, f.violation.msg);
        println!("minimal history ({} steps): {}", f.case.steps.len(), f.case.to_json());
        println!("VIOLATION property={prop} replay={path}");
        code = 1;
    }
    let nt = total.nontrivial.len() as u64;
    if code == 0 && nt < 2 {
        eprintln!("gcverif: only {nt} non-trivial cases were generated for {prop}: cannot decide");
        code = 2;
    }
    let samples: Vec<serde_json::Value> = total.samples.iter().filter_map(|s| serde_json::from_str(s).ok()).collect();
    let mut cov = serde_json::json!({
        "evaluations": total.evaluations,
        "distinct_nontrivial": nt,
        "rule": plan.rule,
        "samples": samples,
        "exhaustive": false,
        "fixed_cases_replayed_first": n_fixed,
        "build": tag,
        "threads": threads(),
        "classes": total.cov.to_json(),
        "violations_of_other_properties_seen_and_ignored_here": total.other_prop,
    });
    if samples.is_empty() {
        cov["samples"] = serde_json::json!([{"note": "no non-trivial case generated"}]);
    }
    evidence::write_part(&root, prop, tier, seed, tag, cov, plan.assumptions, wall, violations);
    println!("{prop} {tier} [{tag}]: {} histories, {} distinct non-trivial, {:.1}s, exit {code}", total.evaluations, nt, wall);
    code
}

fn merge(into: &mut campaign::CampaignResult, r: campaign::CampaignResult) {
    into.evaluations += r.evaluations;
    into.cov.merge(&r.cov);
    into.nontrivial.extend(r.nontrivial);
    for s in r.samples {
        if into.samples.len() < 3 {
            into.samples.push(s);
        }
    }
    for (k, v) in r.other_prop {
        *into.other_prop.entry(k).or_insert(0) += v;
    }
    into.internal.extend(r.internal);
    if into.failure.is_none() {
        into.failure = r.failure;
    }
}

fn replay(path: &str) -> i32 {
    let s = match std::fs::read_to_string(path) {
        Ok(s) => s,
        Err(e) => {
            eprintln!("cannot read {path}: {e}");
            return 2;
        }
    };
    let prop = evidence::prop_from_file_text(&s);
    let case = match evidence::case_from_file_text(&s) {
        Ok(c) => c,
        Err(e) => {
            eprintln!("cannot parse {path}: {e}");
            return 2;
        }
    };
    let c09 = prop.as_deref() == Some("C09");
    let r = driver::run_case(&case, exec::ExecOpts { hook: true, c09, ..Default::default() });
    println!("history ({} steps): {}", case.steps.len(), case.to_json());
    for v in &r.violations {
        println!("oracle {} {} at step {}: {}", v.prop, v.tag, v.step, v.msg);
    }
    for i in &r.internal {
        println!("internal: {i}");
    }
    let hit = match &prop {
        Some(p) => r.violations.iter().any(|v| driver::relevant(p, v)),
        None => !r.violations.is_empty(),
    };
    if hit {
        println!("VIOLATION property={} replay={path}", prop.unwrap_or_else(|| r.violations[0].prop.to_string()));
        1
    } else {
        println!("no violation reproduced");
        0
    }
}
