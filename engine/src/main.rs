#[global_allocator]
static ALLOC: gcverif::obs::TrackAlloc = gcverif::obs::TrackAlloc;

fn main() {
    gcverif::cli_main()
}
