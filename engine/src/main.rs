#![allow(clippy::too_many_arguments, clippy::type_complexity)]

mod convert;
mod driver;
mod env;
mod exec;
mod fin;
mod r#gen;
mod heap;
mod lang;
mod model;
mod obs;
mod run;

#[global_allocator]
static ALLOC: obs::TrackAlloc = obs::TrackAlloc;

use proptest::test_runner::{Config, RngAlgorithm, TestCaseError, TestError, TestRng, TestRunner};

fn main() {
    obs::install_panic_hook();
    let args: Vec<String> = std::env::args().collect();
    match args.get(1).map(|s| s.as_str()) {
        Some("smoke") => {
            let cases: u32 = args.get(2).and_then(|s| s.parse().ok()).unwrap_or(1000);
            let seed: u64 = args.get(3).and_then(|s| s.parse().ok()).unwrap_or(1);
            smoke(cases, seed);
        }
        Some("replay") => {
            let s = std::fs::read_to_string(&args[2]).unwrap();
            let case = lang::Case::from_json(&s).unwrap();
            let r = driver::run_case(&case, exec::ExecOpts { hook: true, ..Default::default() });
            println!("{:#?}", r.violations);
            println!("{:#?}", r.internal);
        }
        _ => eprintln!("usage"),
    }
}

fn smoke(cases: u32, seed: u64) {
    let p = r#gen::Profile::base("smoke");
    let strat = r#gen::case_strategy(&p);
    let mut seed_bytes = [0u8; 32];
    seed_bytes[..8].copy_from_slice(&seed.to_le_bytes());
    let rng = TestRng::from_seed(RngAlgorithm::ChaCha, &seed_bytes);
    let mut runner = TestRunner::new_with_rng(Config { cases, failure_persistence: None, max_shrink_iters: 2000, ..Config::default() }, rng);
    let opts = exec::ExecOpts { hook: true, ..Default::default() };
    let n = std::cell::Cell::new(0u64);
    let agg = std::cell::RefCell::new(exec::Cov::default());
    let res = runner.run(&strat, |case| {
        n.set(n.get() + 1);
        let mut agg = agg.borrow_mut();
        let r = driver::run_case(&case, opts);
        agg.adoptions += r.cov.adoptions;
        agg.cycles_completed += r.cov.cycles_completed;
        for i in 0..4 {
            agg.adopt_active[i] += r.cov.adopt_active[i];
            agg.phase_seen[i] += r.cov.phase_seen[i];
        }
        agg.ops += r.cov.ops;
        agg.ops_skipped += r.cov.ops_skipped;
        agg.settles += r.cov.settles;
        if !r.internal.is_empty() {
            return Err(TestCaseError::fail(format!("INTERNAL {:?}", r.internal)));
        }
        if let Some(v) = r.violations.first() {
            return Err(TestCaseError::fail(format!("{} {} {}", v.prop, v.tag, v.msg)));
        }
        Ok(())
    });
    let agg = agg.borrow();
    let n = n.get();
    println!("ran {n} cases; adoptions {} active {:?} phases {:?} cycles {} ops {} skipped {} settles {}", agg.adoptions, agg.adopt_active, agg.phase_seen, agg.cycles_completed, agg.ops, agg.ops_skipped, agg.settles);
    match res {
        Ok(()) => println!("OK"),
        Err(TestError::Fail(reason, case)) => {
            println!("FAIL: {reason}");
            println!("{}", case.to_json());
            std::fs::write("/tmp/smoke_fail.json", case.to_json()).unwrap();
        }
        Err(e) => println!("ERR {e}"),
    }
}
