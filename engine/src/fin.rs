//! Finalization oracles (C07): is_dead vs. reachability, resurrection.

use crate::env::Env;
use crate::exec::Exec;
use crate::heap::*;
use crate::lang::*;
use crate::model::*;
use crate::obs;

/// The oracle for "when a MarkedArena is handed out": runs before any op of the finalize callback
/// (and again on demand, as long as the callback has not mutated anything).
pub fn scan<'gc, 'r>(env: &mut Env<'gc, 'r>, ex: &mut Exec) {
    let Some(fc) = env.fc else {
        ex.cov.ops_skipped += 1;
        return;
    };
    if env.mutated || !env.resurrected.is_empty() {
        // only the state at the start of the callback is specified
        ex.cov.ops_skipped += 1;
        return;
    }
    let reach = ex.model.closure(env.arena);
    let exact = !ex.bk[env.arena as usize].mutated_since_wake;
    // 1. strongly reachable objects are never dead
    let reachable: Vec<(u32, Ref<'gc>)> = env.operands[..env.n_reach].to_vec();
    for (id, r) in &reachable {
        if let Some(true) = gc_is_dead(fc, *r) {
            ex.violate("C07", "reachable-dead", format!("finalize: strongly reachable object {id} reports is_dead"));
        }
    }
    // 2. weak pointers held by the root and by reachable objects
    let mut weak_targets: Vec<(u32, WeakRef<'gc>)> = Vec::new();
    let ma = ex.model.arenas[env.arena as usize].clone();
    for (i, t) in ma.root_w.iter().enumerate() {
        if let (Some(t), Some(w)) = (t, env.root_a().w[i]) {
            weak_targets.push((*t, w));
        }
    }
    for (id, r) in &reachable {
        let mo = ex.model.obj(*id).clone();
        let rw = r.weak();
        for (i, t) in mo.weak.iter().enumerate() {
            if let (Some(t), Some(Some(w))) = (t, rw.get(i)) {
                weak_targets.push((*t, *w));
            }
        }
    }
    let mut dead_live: Vec<(u32, Ref<'gc>)> = Vec::new();
    for (t, w) in weak_targets {
        let mo = ex.model.obj(t).clone();
        if !obs::block_live(mo.block) {
            ex.violate("C05", "weak-target-released", format!("finalize: weak pointer to object {t} whose block was released"));
            continue;
        }
        let dead = w.is_dead(fc);
        if reach[t as usize] {
            if dead {
                ex.violate("C07", "reachable-dead", format!("finalize: weak pointer to strongly reachable object {t} reports is_dead"));
            }
        } else {
            if exact && !dead {
                ex.violate("C07", "unreachable-not-dead", format!("finalize (no mutation since the cycle woke): unreachable object {t} does not report is_dead"));
            }
            if mo.status == Status::Live && dead {
                // a dead but undestructed object can be named: look inside it
                if let Some(r) = w.upgrade(env.mc) {
                    dead_live.push((t, r));
                }
            }
        }
    }
    // 3. the closure of dead, undestructed objects
    let mut seen: Vec<u32> = Vec::new();
    while let Some((id, r)) = dead_live.pop() {
        if seen.contains(&id) {
            continue;
        }
        seen.push(id);
        if !env.check_obj_pub(ex, id, r, "dead object in finalize", "C07") {
            continue;
        }
        if matches!(r, Ref::Set(..)) {
            continue;
        }
        let mo = ex.model.obj(id).clone();
        let real = r.strong();
        for (i, t) in mo.strong.iter().enumerate() {
            let (Some(t), Some(Some(cr))) = (t, real.get(i)) else { continue };
            let cmo = ex.model.obj(*t).clone();
            if !obs::block_live(cmo.block) {
                ex.violate("C07", "dead-child-released", format!("finalize: object {t}, held by undestructed object {id}, was already released"));
                continue;
            }
            let Some(dead) = gc_is_dead(fc, *cr) else { continue };
            if reach[*t as usize] {
                if dead {
                    ex.violate("C07", "reachable-dead", format!("finalize: strongly reachable object {t} (seen from dead object {id}) reports is_dead"));
                }
            } else {
                if exact && !dead {
                    ex.violate("C07", "unreachable-not-dead", format!("finalize (no mutation since the cycle woke): unreachable object {t} does not report is_dead"));
                }
                if cmo.status == Status::Live && dead {
                    dead_live.push((*t, *cr));
                }
            }
        }
    }
}

pub fn is_dead<'gc, 'r>(env: &mut Env<'gc, 'r>, ex: &mut Exec, holder: Sel, wslot: u8) {
    let Some(fc) = env.fc else {
        ex.cov.ops_skipped += 1;
        return;
    };
    let Some((_h, t, w)) = env.weak_holder_pub(ex, holder, wslot) else {
        ex.cov.ops_skipped += 1;
        return;
    };
    let mo = ex.model.obj(t).clone();
    if !obs::block_live(mo.block) {
        ex.violate("C05", "weak-target-released", format!("finalize: weak pointer to object {t} whose block was released"));
        return;
    }
    let dead = w.is_dead(fc);
    // only the state at the start of the callback is specified, and only for reachable targets
    // (unless nothing was mutated, which `scan` covers)
    if !env.mutated && env.resurrected.is_empty() && env.reach_at_entry.get(t as usize).copied().unwrap_or(false) && dead {
        ex.violate("C07", "reachable-dead", format!("finalize: weak pointer to strongly reachable object {t} reports is_dead"));
    }
}

pub fn resurrect<'gc, 'r>(env: &mut Env<'gc, 'r>, ex: &mut Exec, holder: Sel, wslot: u8, strong: bool) {
    let Some(fc) = env.fc else {
        ex.cov.ops_skipped += 1;
        return;
    };
    let Some((_h, t, w)) = env.weak_holder_pub(ex, holder, wslot) else {
        ex.cov.ops_skipped += 1;
        return;
    };
    let mo = ex.model.obj(t).clone();
    if !obs::block_live(mo.block) {
        ex.violate("C05", "weak-target-released", format!("finalize: weak pointer to object {t} whose block was released"));
        return;
    }
    let was_dead = w.is_dead(fc);
    ex.cov.resurrect_calls += 1;
    let got: Option<Ref<'gc>> = if strong {
        // upgrade (never refused while marking, for a live target), then Gc::resurrect
        match w.upgrade(env.mc) {
            Some(r) => {
                gc_resurrect(fc, r);
                Some(r)
            }
            None => {
                if mo.status == Status::Live && mo.kind.has_tok() {
                    ex.violate("C05", "upgrade-spurious-fail", format!("finalize: upgrade of live object {t} failed while marking"));
                }
                None
            }
        }
    } else {
        w.resurrect(fc)
    };
    env.fwd_marks += 1;
    match (&got, mo.status) {
        (None, Status::Live) if !strong && mo.kind.has_tok() => ex.violate("C07", "resurrect-none-live", format!("resurrect of undestructed object {t} returned None")),
        (Some(_), Status::Destructed | Status::Released) => ex.violate("C07", "resurrect-destructed", format!("resurrect of destructed object {t} returned a pointer")),
        _ => {}
    }
    let Some(r) = got else { return };
    if r.addr() != mo.addr {
        ex.violate("C07", "resurrect-wrong-object", format!("resurrect of object {t} returned address {:#x}", r.addr()));
        return;
    }
    env.resurrected.push(t);
    if was_dead {
        env.resurrected_dead = true;
        if mo.strong.iter().any(|s| s.is_some()) {
            ex.cov.resurrect_dead_with_child += 1;
        }
    }
    if !env.operands.iter().any(|(i, _)| *i == t) {
        env.operands.push((t, r));
    }
}
