//! Directed templates: deterministic histories that construct the coverage cells a check requires,
//! run first in every tier and used as prefixes of randomly generated suffixes.

use crate::lang::*;

fn alloc(kind: Kind, e0: Sel) -> MutOp {
    MutOp::Alloc { kind, edges: [e0, 0, 0], wedge: 0, len: 0 }
}

fn new_arena(preset: u8, ops: Vec<MutOp>) -> Step {
    Step::NewArena { preset, fallible: false, outcome: Outcome::Ok, ops }
}

fn mutate(ops: Vec<MutOp>) -> Step {
    Step::Mutate { arena: 0, via_root: true, ops, panic_at: None }
}

/// A rooted parent of kind `k`, fully marked; then a fresh child adopted through (slot, variant).
fn adopt_while_marked(k: Kind, slot: u8, variant: u8, weak: bool) -> Vec<Step> {
    let link = if weak { MutOp::LinkWeak { parent: 0, slot, child: Some(255), variant } } else { MutOp::Link { parent: 0, slot, child: Some(255), variant } };
    vec![
        new_arena(0, vec![alloc(k, 0), MutOp::RootSet { slot: 0, child: Some(0) }]),
        Step::Collect { arena: 0, api: Api::FinishMarking },
        Step::Mutate { arena: 0, via_root: false, ops: vec![alloc(Kind::D, 0), link], panic_at: None },
    ]
}

/// A rooted, fully marked parent of kind `k` adopts, through (slot, variant), a child that was only
/// weakly reachable when marking finished (weakly marked) and has just been upgraded.
fn adopt_weakly_marked(k: Kind, slot: u8, variant: u8) -> Vec<Step> {
    vec![
        new_arena(0, vec![alloc(k, 0), MutOp::RootSet { slot: 0, child: Some(0) }, alloc(Kind::D, 0), MutOp::RootWeak { slot: 0, child: Some(255) }]),
        Step::Collect { arena: 0, api: Api::FinishMarking },
        // holder 255 = the root; operand 0 = the parent (the only strongly reachable object)
        Step::Mutate { arena: 0, via_root: false, ops: vec![MutOp::Upgrade { holder: 255, wslot: 0, store: Some((0, slot, variant)) }], panic_at: None },
    ]
}

pub fn prefixes(prop: &str) -> Vec<Vec<Step>> {
    let mut v: Vec<Vec<Step>> = Vec::new();
    match prop {
        "C01" | "C06" | "C10" | "C11" => {
            for (k, slots) in [(Kind::D, 9u8), (Kind::R, 4), (Kind::LB, 1), (Kind::RB, 2), (Kind::OB, 1)] {
                for s in 0..slots {
                    for variant in 0..(if k == Kind::R { 6 } else { 2 }) {
                        v.push(adopt_while_marked(k, s, variant, false));
                    }
                }
            }
            for (k, slots) in [(Kind::D, 2u8), (Kind::R, 2), (Kind::RB, 1)] {
                for s in 0..slots {
                    for variant in 0..(if k == Kind::R { 4 } else { 1 }) {
                        v.push(adopt_while_marked(k, s, variant, true));
                    }
                }
            }
            for (k, slots) in [(Kind::D, 9u8), (Kind::R, 4), (Kind::LB, 1), (Kind::RB, 2), (Kind::OB, 1), (Kind::P, 2)] {
                for s in 0..slots {
                    for variant in 0..(if k == Kind::R { 4 } else { 2 }) {
                        v.push(adopt_weakly_marked(k, s, variant));
                    }
                }
            }
            // a weakly marked, upgraded child stashed into a traced set
            v.push(vec![
                new_arena(0, vec![alloc(Kind::Set, 0), MutOp::RootSet { slot: 0, child: Some(0) }, alloc(Kind::D, 0), MutOp::RootWeak { slot: 0, child: Some(255) }]),
                Step::Collect { arena: 0, api: Api::FinishMarking },
                Step::Mutate { arena: 0, via_root: false, ops: vec![MutOp::Upgrade { holder: 255, wslot: 0, store: None }, MutOp::Stash { set: 0, target: 255 }], panic_at: None },
            ]);
            // stash into a traced set
            v.push(vec![
                new_arena(0, vec![alloc(Kind::Set, 0), MutOp::RootSet { slot: 0, child: Some(0) }]),
                Step::Collect { arena: 0, api: Api::FinishMarking },
                Step::Mutate { arena: 0, via_root: false, ops: vec![alloc(Kind::D, 0), MutOp::Stash { set: 0, target: 255 }], panic_at: None },
            ]);
            // barrier on a traced leaf (non-tracing type)
            v.push(vec![
                new_arena(0, vec![alloc(Kind::L, 0), MutOp::RootSet { slot: 0, child: Some(0) }]),
                Step::Collect { arena: 0, api: Api::FinishMarking },
                Step::Mutate { arena: 0, via_root: false, ops: vec![MutOp::PokeLeaf { target: 0 }, MutOp::BarrierOnly { variant: 1, parent: 0, child: 0 }, MutOp::BarrierOnly { variant: 4, parent: 0, child: 0 }], panic_at: None },
            ]);
            // a resurrected object of a type that claims NEEDS_TRACE = false is queued all the same; its
            // trace panics once, then marking is finished and a barrier hits a traced object
            v.push(vec![
                new_arena(0, vec![alloc(Kind::NT, 0), MutOp::RootWeak { slot: 0, child: Some(255) }, alloc(Kind::D, 0), MutOp::RootSet { slot: 0, child: Some(255) }]),
                Step::Finalize { arena: 0, forced: true, ops: vec![MutOp::Resurrect { holder: 255, wslot: 0, strong: false }], panic_at: None, then: Then::Nothing },
                Step::ArmTracePanic { k: 0 },
                Step::Collect { arena: 0, api: Api::FinishMarking },
                Step::Collect { arena: 0, api: Api::FinishMarking },
                Step::Mutate { arena: 0, via_root: false, ops: vec![alloc(Kind::D, 0), MutOp::Link { parent: 0, slot: 0, child: Some(255), variant: 0 }], panic_at: None },
                Step::Collect { arena: 0, api: Api::MarkDebt },
            ]);
            // barriers on a traced leaf with a fresh (unmarked) child, nothing else traced in this cycle
            for variant in [0u8, 4] {
                v.push(vec![
                    new_arena(0, vec![alloc(Kind::L, 0), MutOp::RootSet { slot: 0, child: Some(0) }]),
                    Step::Collect { arena: 0, api: Api::FinishMarking },
                    Step::Mutate { arena: 0, via_root: false, ops: vec![alloc(Kind::D, 0), MutOp::BarrierOnly { variant, parent: 0, child: 255 }, MutOp::BarrierOnly { variant, parent: 0, child: 255 }], panic_at: None },
                    Step::Collect { arena: 0, api: Api::MarkDebt },
                ]);
            }
        }
        "C08" => {
            for root in 0..5u8 {
                for variant in 0..3u8 {
                    v.push(vec![new_arena(0, vec![]), Step::PlainRootProtocol { root, variant }]);
                }
            }
        }
        "C07" => {
            // finalize through mark_debt with zero debt right after a barrier in the Marked phase
            v.push(vec![
                new_arena(0, vec![alloc(Kind::D, 0), MutOp::RootSet { slot: 0, child: Some(0) }]),
                Step::Collect { arena: 0, api: Api::FinishMarking },
                Step::AdjustDebt { arena: 0, x: -1e9 },
                Step::Mutate { arena: 0, via_root: false, ops: vec![alloc(Kind::D, 0), MutOp::Link { parent: 0, slot: 0, child: Some(255), variant: 0 }], panic_at: None },
                Step::Finalize { arena: 0, forced: false, ops: vec![MutOp::FinalizeScan], panic_at: None, then: Then::Nothing },
            ]);
            // a dead object with a child, held weakly by the root: resurrect it
            v.push(vec![
                new_arena(0, vec![alloc(Kind::D, 0), alloc(Kind::D, 1), MutOp::RootWeak { slot: 0, child: Some(255) }]),
                Step::Finalize { arena: 0, forced: true, ops: vec![MutOp::Resurrect { holder: 255, wslot: 0, strong: false }], panic_at: None, then: Then::Nothing },
            ]);
        }
        "C05" => {
            // weak-only target condemned in the running sweep, queried before the cursor passes
            v.push(vec![
                new_arena(0, vec![alloc(Kind::D, 0), alloc(Kind::D, 0), alloc(Kind::D, 0), MutOp::RootWeak { slot: 0, child: Some(255) }, MutOp::RootWeak { slot: 1, child: Some(100) }]),
                Step::Finalize { arena: 0, forced: true, ops: vec![], panic_at: None, then: Then::StartSweeping },
                mutate(vec![MutOp::Upgrade { holder: 255, wslot: 0, store: None }, MutOp::Upgrade { holder: 255, wslot: 1, store: Some((0, 0, 0)) }]),
            ]);
        }
        _ => {}
    }
    v
}

pub fn cases(prop: &str) -> Vec<(String, Case)> {
    // every prefix is also run as it stands, completed by a Settle
    prefixes(prop)
        .into_iter()
        .enumerate()
        .map(|(i, mut steps)| {
            steps.push(Step::Settle { arena: 0 });
            steps.push(mutate(vec![MutOp::ReadAll]));
            (format!("template {prop}/{i}"), Case { steps })
        })
        .collect()
}
