//! Directed templates: deterministic histories that construct the coverage cells a check requires,
//! run first in every tier and used as prefixes of randomly generated suffixes.

use crate::lang::*;

pub fn prefixes(_prop: &str) -> Vec<Vec<Step>> {
    Vec::new()
}

pub fn cases(_prop: &str) -> Vec<(String, Case)> {
    Vec::new()
}
