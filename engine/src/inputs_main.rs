//! Workers for the input-space checks C16, C17, C18 and the ZstCache half of C19.

use std::time::Instant;

use proptest::prelude::*;

use crate::builders::{BCase, BStep, Stage};
use crate::impls::ICase;
use crate::inputs::{self, GenericResult, Outcome};
use crate::layout::{LCase, LStep};

fn lstep() -> BoxedStrategy<LStep> {
    let len = prop_oneof![3 => 0u16..4, 3 => 0u16..20, 2 => 20u16..301, 1 => prop_oneof![Just(0u16), Just(1), Just(255), Just(256), Just(300)]];
    prop_oneof![
        8 => (any::<u16>(), len, any::<u64>(), proptest::bool::weighted(0.7)).prop_map(|(entry, len, seed, rooted)| LStep::Alloc { entry, len, seed, rooted }),
        2 => (0u8..5).prop_map(|api| LStep::Collect { api }),
        3 => (0u8..6).prop_map(|n| LStep::Work { n }),
        2 => any::<u8>().prop_map(|i| LStep::Unroot { i }),
        2 => (any::<u8>(), any::<u64>()).prop_map(|(i, seed)| LStep::Overwrite { i, seed }),
        2 => Just(LStep::Verify),
    ]
    .boxed()
}

pub fn lcase_strategy(max: usize) -> BoxedStrategy<LCase> {
    proptest::collection::vec(lstep(), 1..=max).prop_map(|steps| LCase { steps }).boxed()
}

fn stage() -> BoxedStrategy<Stage> {
    prop_oneof![
        2 => Just(Stage::AbandonEmpty),
        2 => Just(Stage::AbandonAfterHeader),
        4 => (0u16..41).prop_map(Stage::PanicAt),
        1 => Just(Stage::PanicAt(0)),
        3 => Just(Stage::Complete),
        1 => Just(Stage::CompleteCopy),
        3 => (-3i8..4).prop_map(Stage::WrongLen),
    ]
    .boxed()
}

fn bstep() -> BoxedStrategy<BStep> {
    let len = prop_oneof![2 => 0u16..3, 4 => 0u16..12, 2 => 12u16..41];
    prop_oneof![
        8 => (any::<u8>(), any::<u8>(), any::<u8>(), len, stage(), any::<bool>(), any::<bool>()).prop_map(|(kind, hdr, elem, len, stage, rooted, meta)| BStep::Build { kind, hdr, elem, len, stage, rooted, meta }),
        2 => (0u8..5).prop_map(|api| BStep::Collect { api }),
        2 => (0u8..6).prop_map(|n| BStep::Work { n }),
    ]
    .boxed()
}

pub fn bcase_strategy(max: usize) -> BoxedStrategy<BCase> {
    proptest::collection::vec(bstep(), 1..=max).prop_map(|steps| BCase { steps }).boxed()
}

pub fn icase_strategy() -> BoxedStrategy<ICase> {
    let n = prop_oneof![2 => 0usize..3, 4 => 0usize..18, 2 => 18usize..41];
    (any::<u16>(), n.prop_flat_map(|n| proptest::collection::vec(prop_oneof![3 => Just(0u8), 2 => Just(1u8), 1 => Just(2u8)], n..=n)), any::<u64>())
        .prop_map(|(entry, positions, seed)| ICase { entry, positions, seed })
        .boxed()
}

pub fn layout_outcome(c: &LCase) -> Outcome {
    let r = std::panic::catch_unwind(std::panic::AssertUnwindSafe(|| crate::layout::run_case(c)));
    match r {
        Ok(r) => {
            let mut o = Outcome { errors: r.errors, internal: r.internal, ..Default::default() };
            if r.cov.collections_while_live > 0 {
                o.classes = r.cov.classes.keys().cloned().collect();
            }
            o.counters.insert("allocations".into(), r.cov.allocs);
            o.counters.insert("collections_while_values_live".into(), r.cov.collections_while_live);
            o.counters.insert("full_extent_overwrites".into(), r.cov.overwrites);
            o.counters.insert("bytes_verified".into(), r.cov.verified_bytes);
            o
        }
        Err(p) => {
            let _ = crate::obs::end_case();
            let m = crate::obs::panic_message(&*p);
            Outcome { errors: vec![format!("panic while allocating / collecting / releasing: {m}")], ..Default::default() }
        }
    }
}

pub fn builders_outcome(c: &BCase) -> Outcome {
    let r = std::panic::catch_unwind(std::panic::AssertUnwindSafe(|| crate::builders::run_case(c)));
    match r {
        Ok(o) => o,
        Err(p) => {
            crate::obs::set_quiet_panics(false);
            let _ = crate::obs::end_case();
            Outcome { errors: vec![format!("panic outside the generated fault points: {}", crate::obs::panic_message(&*p))], ..Default::default() }
        }
    }
}

pub fn impls_outcome(c: &ICase) -> Outcome {
    let r = std::panic::catch_unwind(std::panic::AssertUnwindSafe(|| crate::impls::run_case(c)));
    match r {
        Ok(o) => o,
        Err(p) => {
            let _ = crate::obs::end_case();
            Outcome { errors: vec![format!("panic: {}", crate::obs::panic_message(&*p))], ..Default::default() }
        }
    }
}

pub struct InputReport {
    pub result: GenericResult,
    pub extra: serde_json::Value,
    pub rule: &'static str,
    pub wall: f64,
    pub fixed_failure: Option<String>,
    pub exhaustive_part: Option<&'static str>,
}

pub fn run(prop: &str, thorough: bool, seed: u64, threads: usize) -> Option<InputReport> {
    let t0 = Instant::now();
    let over = std::env::var("GCVERIF_CASES").ok().and_then(|s| s.parse::<u64>().ok());
    match prop {
        "C17" => {
            let n = over.unwrap_or(if thorough { 3_000_000 } else { 300_000 });
            let max = if thorough { 40 } else { 20 };
            let r = inputs::sharded("C17", || lcase_strategy(max), n, seed, threads, layout_outcome, |c| serde_json::to_string(c).unwrap());
            Some(InputReport {
                result: r,
                extra: serde_json::json!({"table_entries": crate::layout::table().len()}),
                rule: "random scripts of allocations drawn from a table of 749 monomorphic layouts (sized 23 sizes x 13 alignments up to 4096, traced and static; slices, str, header+slice with zero-sized / over-aligned parts; custom per-value metadata of 8..48 bytes) with lengths 0-300, interleaved with collection calls, single-unit increments, full-extent overwrites and unrooting; non-trivial = at least one collection ran while a value was live; distinct = distinct (class, size bucket, alignment, length class) cells covered by non-trivial cases",
                wall: t0.elapsed().as_secs_f64(),
                fixed_failure: None,
                exhaustive_part: None,
            })
        }
        "C18" => {
            let n = over.unwrap_or(if thorough { 3_000_000 } else { 300_000 });
            let max = if thorough { 24 } else { 12 };
            let r = inputs::sharded("C18", || bcase_strategy(max), n, seed, threads, builders_outcome, |c| serde_json::to_string(c).unwrap());
            Some(InputReport {
                result: r,
                extra: serde_json::json!({}),
                rule: "random scripts over builder kind (GcBuilder plain / with type metadata / unwrap_static, slice-with-header, slice plain / unwrap_static, copy_slice, str) x abandonment stage (before header, after header, element constructor panic at every index, completion, wrong-length copy) x part types (tokened, over-aligned, zero-sized with destructor, Copy, unit, u8), interleaved with collections so that builders are created and abandoned in every phase; every case is non-trivial (each script is a builder stage); distinct = distinct (builder, part types, stage class, metadata) cells",
                wall: t0.elapsed().as_secs_f64(),
                fixed_failure: None,
                exhaustive_part: None,
            })
        }
        "C16" => {
            // fixed part: NEEDS_TRACE of every impl x type-parameter position
            let mut fixed_failure = None;
            let nt = crate::impls::nt_table();
            for (ty, got, want) in &nt {
                if got != want {
                    fixed_failure = Some(format!("<{ty} as Collect>::NEEDS_TRACE is {got}, expected {want}"));
                    break;
                }
            }
            let n = over.unwrap_or(if thorough { 3_000_000 } else { 300_000 });
            let r = inputs::sharded("C16", icase_strategy, n, seed, threads, impls_outcome, |c| serde_json::to_string(c).unwrap());
            Some(InputReport {
                result: r,
                extra: serde_json::json!({"needs_trace_rows_checked": nt.len(), "container_table_entries": crate::impls::table().len()}),
                rule: "for each of the provided impls (58 container shapes incl. keys / values / Ok / Err / header / elements / every tuple arity 1-16 and the hashbrown, indexmap, slotmap, smallvec, enum-map types) a container of generated size 0-40 with a strong pointer, weak pointer or plain data at every generated position; oracle: recording Trace multiset == inserted multiset with the right strength, and end-to-end survival of exactly the strongly held targets through two full cycles; plus the complete NEEDS_TRACE table (262 rows: pointer in each single type-parameter position -> true, all-static -> false); every case is non-trivial; distinct = distinct (impl, size class) cells",
                wall: t0.elapsed().as_secs_f64(),
                fixed_failure,
                exhaustive_part: Some("the NEEDS_TRACE table is enumerated completely on every run"),
            })
        }
        _ => None,
    }
}

/// The exhaustive ZstCache table of C19. Returns (cells, cached cells, first error).
pub fn zst_table_run() -> (usize, usize, Option<String>) {
    let t = crate::zst::zst_table();
    let mut cached = 0;
    let mut first = None;
    for f in &t {
        let r = std::panic::catch_unwind(|| f());
        match r {
            Ok(c) => {
                if c.cached {
                    cached += 1;
                }
                if first.is_none() {
                    if let Some(e) = c.errors.first() {
                        first = Some(e.clone());
                    }
                }
            }
            Err(p) => {
                let _ = crate::obs::end_case();
                if first.is_none() {
                    first = Some(format!("panic in ZstCache cell: {}", crate::obs::panic_message(&*p)));
                }
            }
        }
    }
    (t.len(), cached, first)
}

pub fn to_json_l(c: &LCase) -> String {
    serde_json::to_string(c).unwrap()
}

pub fn to_json_b(c: &BCase) -> String {
    serde_json::to_string(c).unwrap()
}
