//! Total decoders from raw bytes to cases (for the coverage-guided fuzz targets). Every byte string
//! decodes to a valid case; running out of bytes yields zeros.

use crate::builders::{BCase, BStep, Stage};
use crate::lang::*;
use crate::layout::{LCase, LStep};

pub struct Cur<'a> {
    d: &'a [u8],
    i: usize,
}

impl<'a> Cur<'a> {
    pub fn new(d: &'a [u8]) -> Self {
        Cur { d, i: 0 }
    }
    pub fn done(&self) -> bool {
        self.i >= self.d.len()
    }
    pub fn u8(&mut self) -> u8 {
        let v = self.d.get(self.i).copied().unwrap_or(0);
        self.i += 1;
        v
    }
    pub fn u16(&mut self) -> u16 {
        (self.u8() as u16) | ((self.u8() as u16) << 8)
    }
    pub fn u64(&mut self) -> u64 {
        let mut v = 0u64;
        for k in 0..8 {
            v |= (self.u8() as u64) << (8 * k);
        }
        v
    }
    pub fn bool(&mut self) -> bool {
        self.u8() & 1 == 1
    }
}

fn kind(b: u8) -> Kind {
    Kind::ALL[b as usize % Kind::ALL.len()]
}

fn api(b: u8) -> Api {
    Api::ALL[b as usize % 5]
}

fn debt(b: u8) -> f64 {
    const T: [f64; 12] = [1.0, -1.0, 0.25, 7.5, -7.5, 1e9, -1e9, 1e12, -1e12, 3000.0, 0.001, -0.001];
    T[b as usize % T.len()]
}

fn opt_sel(c: &mut Cur) -> Option<Sel> {
    let b = c.u8();
    if b % 5 == 0 { None } else { Some(c.u8()) }
}

fn store(c: &mut Cur) -> Option<(Sel, u8, u8)> {
    if c.u8() % 3 == 0 { None } else { Some((c.u8(), c.u8(), c.u8())) }
}

fn mut_op(c: &mut Cur, finalize: bool) -> MutOp {
    let n = if finalize { 22 } else { 19 };
    match c.u8() % n {
        0 | 1 | 2 => MutOp::Alloc { kind: kind(c.u8()), edges: [c.u8(), c.u8(), c.u8()], wedge: c.u8(), len: c.u8() % 4 },
        3 | 4 | 5 => MutOp::Link { parent: c.u8(), slot: c.u8(), child: opt_sel(c), variant: c.u8() },
        6 => MutOp::LinkWeak { parent: c.u8(), slot: c.u8(), child: opt_sel(c), variant: c.u8() },
        7 | 8 => MutOp::RootSet { slot: c.u8(), child: opt_sel(c) },
        9 => MutOp::RootWeak { slot: c.u8(), child: opt_sel(c) },
        10 => MutOp::Upgrade { holder: c.u8(), wslot: c.u8(), store: store(c) },
        11 => MutOp::IsDropped { holder: c.u8(), wslot: c.u8() },
        12 => MutOp::Stash { set: c.u8(), target: c.u8() },
        13 => MutOp::Fetch { handle: c.u8(), set: c.u8() },
        14 => MutOp::BarrierOnly { variant: c.u8(), parent: c.u8(), child: c.u8() },
        15 => MutOp::Temps { n: c.u8() % 5 },
        16 => match c.u8() % 4 {
            0 => MutOp::ReadAll,
            1 => MutOp::AdjustDebt { x: debt(c.u8()) },
            2 => MutOp::SetPacing { preset: c.u8() },
            _ => if c.bool() { MutOp::PokeLeaf { target: c.u8() } } else { MutOp::Push { slot: c.u8(), dual: c.bool(), kind: kind(c.u8()) } },
        },
        17 | 18 => MutOp::Convert { target: c.u8(), chain: c.u8(), store: store(c) },
        19 => MutOp::IsDead { holder: c.u8(), wslot: c.u8() },
        20 => MutOp::Resurrect { holder: c.u8(), wslot: c.u8(), strong: c.bool() },
        _ => MutOp::FinalizeScan,
    }
}

fn ops(c: &mut Cur, finalize: bool) -> Vec<MutOp> {
    let n = c.u8() % 9;
    (0..n).map(|_| mut_op(c, finalize)).collect()
}

fn panic_at(c: &mut Cur) -> Option<u8> {
    let b = c.u8();
    if b % 8 == 0 { Some(c.u8() % 10) } else { None }
}

fn outcome(b: u8) -> Outcome {
    match b % 6 {
        0 => Outcome::Err,
        1 => Outcome::Panic,
        _ => Outcome::Ok,
    }
}

pub fn case(data: &[u8]) -> Case {
    let mut c = Cur::new(data);
    let mut steps = vec![Step::NewArena { preset: c.u8(), fallible: false, outcome: Outcome::Ok, ops: ops(&mut c, false) }];
    while !c.done() && steps.len() < 80 {
        let st = match c.u8() % 38 {
            0..=5 => Step::Mutate { arena: c.u8(), via_root: false, ops: ops(&mut c, false), panic_at: panic_at(&mut c) },
            6..=9 => Step::Mutate { arena: c.u8(), via_root: true, ops: ops(&mut c, false), panic_at: panic_at(&mut c) },
            10..=12 => Step::Collect { arena: c.u8(), api: api(c.u8()) },
            13..=19 => Step::Work { arena: c.u8(), api: api(c.u8()), units: c.u8() % 6 + 1 },
            20 | 21 => Step::Finalize { arena: c.u8(), forced: c.bool(), ops: ops(&mut c, true), panic_at: panic_at(&mut c), then: if c.u8() % 4 == 0 { Then::StartSweeping } else { Then::Nothing } },
            22 => Step::AdjustDebt { arena: c.u8(), x: debt(c.u8()) },
            23 => Step::SetPacing { arena: c.u8(), preset: c.u8() },
            24 => Step::MapRoot { arena: c.u8(), fallible: c.bool(), outcome: outcome(c.u8()), ops: ops(&mut c, false) },
            25 => Step::CloneHandle { h: c.u8() },
            26 => Step::DropHandle { h: c.u8() },
            27 => Step::ArmTracePanic { k: c.u8() % 24 },
            28 => Step::NewArena { preset: c.u8(), fallible: c.bool(), outcome: outcome(c.u8()), ops: ops(&mut c, false) },
            29 => Step::DropArena { arena: c.u8() },
            30 => Step::ArmDropPanic { k: c.u8() % 24 },
            31 => Step::ArmSweepPanic { k: c.u8() % 24 },
            32 => Step::DropArenaUnwinding { arena: c.u8() },
            33 => Step::CloneFromHandle { dst: c.u8(), src: c.u8() },
            34 => Step::DropHandleUnwinding { h: c.u8() },
            35 => Step::PlainRootProtocol { root: c.u8(), variant: c.u8() },
            36 => Step::Rootless { n: c.u8(), cyclic: c.u8() & 1 == 1, panics: c.u8() & 1 == 1 },
            _ => Step::Settle { arena: c.u8() },
        };
        steps.push(st);
    }
    Case { steps }
}

pub fn lcase(data: &[u8]) -> LCase {
    let mut c = Cur::new(data);
    let mut steps = Vec::new();
    while !c.done() && steps.len() < 48 {
        steps.push(match c.u8() % 10 {
            0..=4 => LStep::Alloc { entry: c.u16(), len: c.u16() % 301, seed: c.u64(), rooted: c.u8() % 4 != 0 },
            5 => LStep::Collect { api: c.u8() % 5 },
            6 => LStep::Work { n: c.u8() % 6 },
            7 => LStep::Unroot { i: c.u8() },
            8 => LStep::Overwrite { i: c.u8(), seed: c.u64() },
            _ => LStep::Verify,
        });
    }
    LCase { steps }
}

pub fn bcase(data: &[u8]) -> BCase {
    let mut c = Cur::new(data);
    let mut steps = Vec::new();
    while !c.done() && steps.len() < 32 {
        steps.push(match c.u8() % 8 {
            0..=5 => {
                let stage = match c.u8() % 7 {
                    0 => Stage::AbandonEmpty,
                    1 => Stage::AbandonAfterHeader,
                    2 | 3 => Stage::PanicAt(c.u8() as u16 % 41),
                    4 => Stage::Complete,
                    5 => Stage::CompleteCopy,
                    _ => Stage::WrongLen((c.u8() % 7) as i8 - 3),
                };
                BStep::Build { kind: c.u8(), hdr: c.u8(), elem: c.u8(), len: c.u8() as u16 % 41, stage, rooted: c.bool(), meta: c.bool() }
            }
            6 => BStep::Collect { api: c.u8() % 5 },
            _ => BStep::Work { n: c.u8() % 6 },
        });
    }
    BCase { steps }
}
