//! Running one case in isolation and turning what happened into a plain result.

use crate::exec::*;
use crate::lang::*;
use crate::obs;

#[derive(Clone, Debug)]
pub struct CaseResult {
    pub violations: Vec<Violation>,
    pub internal: Vec<String>,
    pub cov: Cov,
}

pub fn run_case(case: &Case, opts: ExecOpts) -> CaseResult {
    obs::begin_case();
    obs::set_quarantine(!opts.reuse_addresses);
    let mut ex = Exec::new(opts);
    let r = std::panic::catch_unwind(std::panic::AssertUnwindSafe(|| ex.run_case(case)));
    if let Err(p) = r {
        let msg = obs::panic_message(&*p);
        ex.internal(format!("harness panic: {msg}"));
        // best effort teardown so that nothing of this case leaks into the next
        obs::arm_trace_fuse(0);
        obs::set_quiet_panics(false);
    }
    let mut violations = std::mem::take(&mut ex.violations);
    let mut internal = std::mem::take(&mut ex.internal_errors);
    let cov = ex.cov.clone();
    let had_problem = ex.fatal || !internal.is_empty();
    let leaked_by_fault = ex.leaked_by_fault;
    let r2 = std::panic::catch_unwind(std::panic::AssertUnwindSafe(move || drop(ex)));
    if r2.is_err() {
        internal.push("panic while dropping the interpreter".into());
    }
    let end = obs::end_case();
    for f in end.faults {
        match f {
            obs::AllocFault::LayoutMismatch { block, requested, released, watched } => violations.push(mk(if watched { "C04" } else { "C17" }, "layout-mismatch", format!("block {block:#x} requested with {requested:?} released with {released:?}"))),
            obs::AllocFault::DoubleFree { block } => violations.push(mk("C04", "double-free", format!("block {block:#x} released twice"))),
            obs::AllocFault::RedZone { block, front, watched } => {
                if watched {
                    violations.push(mk("C17", "red-zone", format!("write outside Gc block {block:#x} (front = {front})")))
                } else {
                    internal.push(format!("red zone of unwatched block {block:#x} damaged"))
                }
            }
        }
    }
    // (a value whose destructor unwound during arena teardown keeps its block)
    if end.leaked_watched.len() > leaked_by_fault && !had_problem {
        violations.push(mk("C04", "blocks-outstanding", format!("{} Gc blocks never returned to the allocator", end.leaked_watched.len())));
    }
    // detach everything from this thread's allocator bookkeeping
    CaseResult { violations: violations.clone(), internal: internal.clone(), cov }
}

fn mk(prop: &'static str, tag: &'static str, msg: String) -> Violation {
    Violation { prop, tag, msg, step: usize::MAX, after_fault: false, multi_arena: false, has_upgrade_store: false, has_stash: false, active_adoptions: 0 }
}

/// Which recorded violations count for the property being checked.
pub fn relevant(prop: &str, v: &Violation) -> bool {
    if v.prop == prop {
        return true;
    }
    let safety = matches!(v.prop, "C01");
    let c1to5 = matches!(v.prop, "C01" | "C02" | "C03" | "C04" | "C05");
    match prop {
        // a reachable value lost after an adoption in an active phase is a barrier-path failure
        "C06" => (safety && v.active_adoptions > 0) || (v.prop == "C05" && matches!(v.tag, "weak-target-released" | "shell-released-while-referenced") && v.active_adoptions > 0) || (v.prop == "C10" && v.tag == "arithmetic-panic-in-callback"),
        // "never keeps its target's value alive": the exactness oracle's weak-only clause
        "C05" => (safety && v.has_upgrade_store) || (v.prop == "C02" && v.tag == "weak-only-not-destructed"),
        "C11" => c1to5 && v.after_fault,
        // "... and becomes collectable once the last such handle is dropped"
        "C14" => (safety && v.has_stash) || (v.prop == "C02" && v.tag == "unreachable-not-collected" && v.has_stash),
        "C20" => (c1to5 && v.multi_arena) || (v.prop == "C14" && v.multi_arena && matches!(v.tag, "contains-wrong" | "try-fetch-wrong" | "fetch-foreign-accepted")),
        "C10" => v.prop == "C04" && v.tag == "count-after-drop",
        // "DynamicRootSet fetch ... yield pointers that are ptr_eq to the original": a set that accepts a
        // foreign handle hands out a pointer to an object of another set / arena
        "C19" => v.prop == "C14" && matches!(v.tag, "try-fetch-wrong" | "fetch-foreign-accepted" | "contains-wrong" | "fetch-wrong-object"),
        _ => false,
    }
}
