//! C12: brand isolation. Structural probes (variance, auto traits) enumerated completely, plus the
//! product entry point x branded value x escape route; each negative probe has a positive twin.

use std::collections::BTreeMap;

use crate::probe::*;

const PRELUDE: &str = r#"#![forbid(unsafe_code)]
#![allow(unused, dead_code)]
use gc_arena::{Arena, Collect, Gc, GcWeak, Mutation, Finalization, DynamicRootSet, DynamicRoot, Rootable, Static};
use gc_arena::lock::{Lock, RefLock};
use gc_arena::arena::rootless_mutate;
use gc_arena::barrier::Write;
use gc_arena::zst_cache::ZstCache;
use std::cell::RefCell;

#[derive(Collect)]
#[collect(no_drop)]
struct R<'gc> {
    v: Gc<'gc, RefLock<i32>>,
    slot: Gc<'gc, RefLock<Option<Gc<'gc, i32>>>>,
    wslot: Gc<'gc, RefLock<Option<GcWeak<'gc, i32>>>>,
    set: DynamicRootSet<'gc>,
}
type A = Arena<Rootable![R<'_>]>;
fn mk_root<'gc>(mc: &Mutation<'gc>) -> R<'gc> {
    R { v: Gc::new(mc, RefLock::new(1)), slot: Gc::new(mc, RefLock::new(None)), wslot: Gc::new(mc, RefLock::new(None)), set: DynamicRootSet::new(mc) }
}
fn mk() -> A { Arena::new(|mc| mk_root(mc)) }
"#;

#[derive(Clone, Debug)]
pub struct Probe {
    pub name: String,
    pub class: String,
    pub negative: String,
    pub twin: String,
}

struct Carrier {
    name: &'static str,
    /// expression producing the branded value from `mc` (and `fc` where available)
    expr: &'static str,
    /// the same type with the brand replaced by 'static
    ty_static: &'static str,
    /// statement(s) using variable `x` at the destination
    use_: &'static str,
    needs_fc: bool,
}

const CARRIERS: [Carrier; 14] = [
    Carrier { name: "Gc", expr: "Gc::new(mc, 7i32)", ty_static: "Gc<'static, i32>", use_: "let _n: i32 = *x;", needs_fc: false },
    Carrier { name: "GcWeak", expr: "Gc::downgrade(Gc::new(mc, 7i32))", ty_static: "GcWeak<'static, i32>", use_: "let _b: bool = x.is_dropped();", needs_fc: false },
    // A plain `&'gc T` with `T: Sync` may legitimately be lent to a *scoped* thread inside the callback
    // (it cannot outlive it); the carrier therefore points to a `!Sync` value, for which every route
    // including scoped threads must be rejected.
    Carrier { name: "ref-from-as_ref", expr: "Gc::as_ref(Gc::new(mc, std::cell::Cell::new(7i32)))", ty_static: "&'static std::cell::Cell<i32>", use_: "let _n: i32 = x.get();", needs_fc: false },
    Carrier { name: "Mutation", expr: "mc", ty_static: "&'static Mutation<'static>", use_: "let _c = x.metrics().total_gc_count();", needs_fc: false },
    Carrier { name: "Finalization", expr: "fc", ty_static: "&'static Finalization<'static>", use_: "let _c = x.metrics().total_gc_count();", needs_fc: true },
    Carrier { name: "DynamicRootSet", expr: "DynamicRootSet::new(mc)", ty_static: "DynamicRootSet<'static>", use_: "let _c = x.clone();", needs_fc: false },
    Carrier { name: "Write", expr: "Gc::write(mc, Gc::new(mc, RefLock::new(7i32)))", ty_static: "&'static Write<RefLock<i32>>", use_: "let _n: i32 = *x.unlock().borrow();", needs_fc: false },
    Carrier { name: "Ref-from-borrow", expr: "Gc::new(mc, RefLock::new(7i32)).borrow()", ty_static: "std::cell::Ref<'static, i32>", use_: "let _n: i32 = *x;", needs_fc: false },
    Carrier { name: "ZstCache", expr: "ZstCache::<1>::new(mc)", ty_static: "ZstCache<'static, 1>", use_: "let _p = x.cached_ptr();", needs_fc: false },
    Carrier { name: "Gc-from-fetch", expr: "{ let set = DynamicRootSet::new(mc); let h = set.stash::<Rootable![i32]>(mc, Gc::new(mc, 7i32)); set.fetch(&h) }", ty_static: "Gc<'static, i32>", use_: "let _n: i32 = *x;", needs_fc: false },
    Carrier { name: "Gc-from-upgrade", expr: "Gc::downgrade(Gc::new(mc, 7i32)).upgrade(mc).unwrap()", ty_static: "Gc<'static, i32>", use_: "let _n: i32 = *x;", needs_fc: false },
    Carrier { name: "Gc-from-builder", expr: "gc_arena::GcBuilder::<i32>::new().write(mc, 7i32)", ty_static: "Gc<'static, i32>", use_: "let _n: i32 = *x;", needs_fc: false },
    Carrier { name: "GcSlice", expr: "gc_arena::GcSlice::new_slice(mc, &[7i32, 8])", ty_static: "gc_arena::GcSlice<'static, i32>", use_: "let _n: i32 = x[0];", needs_fc: false },
    Carrier { name: "GcThinStr", expr: "Gc::as_thin(gc_arena::GcStr::new_str(mc, \"seven\"))", ty_static: "gc_arena::GcThinStr<'static>", use_: "let _n: usize = x.len();", needs_fc: false },
];

const TWIN: Carrier = Carrier { name: "i32", expr: "*Gc::new(mc, 7i32)", ty_static: "i32", use_: "let _n: i32 = x;", needs_fc: false };

struct Entry {
    name: &'static str,
    /// (open, close) around the callback body; `{RET}` in close is the callback's tail expression
    open: &'static str,
    close: &'static str,
    free_ret: bool,
    has_root: bool,
    has_fc: bool,
    root_ref: &'static str,
}

const ENTRIES: [Entry; 8] = [
    Entry { name: "Arena::new", open: "let made: A = Arena::new(|mc| {", close: "mk_root(mc) });", free_ret: false, has_root: false, has_fc: false, root_ref: "" },
    Entry { name: "Arena::try_new", open: "let made: Result<A, ()> = Arena::try_new(|mc| {", close: "Ok(mk_root(mc)) });", free_ret: false, has_root: false, has_fc: false, root_ref: "" },
    Entry { name: "mutate", open: "let ret = arena.mutate(|mc, root| {", close: "{RET} });", free_ret: true, has_root: true, has_fc: false, root_ref: "root" },
    Entry { name: "mutate_root", open: "let ret = arena.mutate_root(|mc, root| {", close: "{RET} });", free_ret: true, has_root: true, has_fc: false, root_ref: "&*root" },
    Entry { name: "map_root", open: "let arena = arena.map_root::<Rootable![R<'_>]>(|mc, root| {", close: "root });", free_ret: false, has_root: true, has_fc: false, root_ref: "&root" },
    Entry { name: "try_map_root", open: "let arena = arena.try_map_root::<Rootable![R<'_>], ()>(|mc, root| {", close: "Ok(root) });", free_ret: false, has_root: true, has_fc: false, root_ref: "&root" },
    Entry { name: "finalize", open: "let ret = arena.finish_marking().unwrap().finalize(|fc, root| { let mc: &Mutation<'_> = fc;", close: "{RET} });", free_ret: true, has_root: true, has_fc: true, root_ref: "root" },
    Entry { name: "rootless_mutate", open: "let ret = rootless_mutate(|mc| {", close: "{RET} });", free_ret: true, has_root: false, has_fc: false, root_ref: "" },
];

fn program(extra_items: &str, pre: &str, e: &Entry, c: &Carrier, sink_in: &str, ret: &str, post: &str) -> String {
    let close = e.close.replace("{RET}", ret);
    format!(
        "{PRELUDE}\n{extra_items}\nfn main() {{\n    let mut arena = mk();\n    {pre}\n    {open}\n        let x = {expr};\n        {sink_in}\n        {close}\n    {post}\n}}\n",
        open = e.open,
        expr = c.expr
    )
}

/// One escape route rendered for a given (entry, carrier); None if not applicable.
fn route(route: usize, e: &Entry, c: &Carrier) -> Option<(&'static str, String)> {
    let u = c.use_;
    let ty = c.ty_static;
    Some(match route {
        0 => {
            if !e.free_ret {
                return None;
            }
            ("return-from-callback", program("", "", e, c, "", "x", &format!("let x = ret; {u}")))
        }
        1 => ("assign-to-captured-outer-variable", program("", "let mut outer = None;", e, c, "outer = Some(x);", "()", &format!("let x = outer.unwrap(); {u}"))),
        2 => (
            "thread-local",
            program(
                &format!("thread_local! {{ static TL: RefCell<Option<{ty}>> = RefCell::new(None); }}"),
                "",
                e,
                c,
                "TL.with(|t| *t.borrow_mut() = Some(x));",
                "()",
                &format!("TL.with(|t| {{ let x = t.borrow_mut().take().unwrap(); {u} }});"),
            ),
        ),
        3 => ("thread-spawn", program("", "", e, c, &format!("let h = std::thread::spawn(move || {{ {u} }}); h.join().unwrap();"), "()", "")),
        4 => ("scoped-thread", program("", "", e, c, &format!("std::thread::scope(|s| {{ s.spawn(|| {{ {u} }}); }});"), "()", "")),
        5 => (
            "box-dyn-any",
            program(
                "",
                "let mut outer: Option<Box<dyn std::any::Any>> = None;",
                e,
                c,
                "let b: Box<dyn std::any::Any> = Box::new(x); outer = Some(b);",
                "()",
                &format!("let x = *outer.unwrap().downcast::<{ty}>().unwrap(); {u}"),
            ),
        ),
        6 => ("static-wrapper-in-heap", program("", "", e, c, "let hidden = Gc::new(mc, Static(x));", "()", "")),
        7 => (
            "boxed-closure",
            program("", "let mut outer: Option<Box<dyn Fn()>> = None;", e, c, &format!("let f: Box<dyn Fn()> = Box::new(move || {{ let x = &x; let x = *x; {u} }}); outer = Some(f);"), "()", "(outer.unwrap())();"),
        ),
        _ => return None,
    })
}

/// Cross-arena routes: negative uses two arenas, the twin uses the same arena twice.
fn cross(route: usize, e: &Entry, c: &Carrier, twin: bool) -> Option<(&'static str, String)> {
    if !e.has_root && twin {
        return None;
    }
    if !e.has_root {
        return None;
    }
    // the second "arena": a different one (negative) or the same callback's handles (twin)
    let twin_open = format!("{{ let (mc2, root2) = (mc, {});", e.root_ref);
    let (pre, open2, close2) = if twin { ("", twin_open.as_str(), "}") } else { ("let mut arena2 = mk();", "arena2.mutate(|mc2, root2| {", "});") };
    let body = match (route, c.name) {
        (0, "Gc") => "*root2.slot.borrow_mut(mc2) = Some(x);",
        (0, "GcWeak") => "*root2.wslot.borrow_mut(mc2) = Some(x);",
        (0, "Mutation") => "*root2.slot.borrow_mut(mc2) = Some(Gc::new(x, 5i32));",
        (0, "DynamicRootSet") => "let h = x.stash::<Rootable![i32]>(mc2, Gc::new(mc2, 5i32)); let _g = root2.set.fetch(&h);",
        (1, "GcWeak") => "let _u = x.upgrade(mc2);",
        (1, "Gc") => "let w = Gc::new(x_mc(mc2), RefLock::new(Some(x)));",
        (1, "ZstCache") => "*root2.slot.borrow_mut(mc2) = Some(x.alloc(mc2, 5i32));",
        _ => return None,
    };
    let items = "fn x_mc<'a, 'gc>(m: &'a Mutation<'gc>) -> &'a Mutation<'gc> { m }";
    let name = if route == 0 { "store-into-other-arena" } else { "use-with-other-arena" };
    Some((name, program(items, pre, e, c, &format!("{open2} {body} {close2}"), "()", "")))
}

pub fn escape_probes() -> Vec<Probe> {
    let mut v = Vec::new();
    for e in &ENTRIES {
        for c in &CARRIERS {
            if c.needs_fc && !e.has_fc {
                continue;
            }
            for r in 0..8 {
                let Some((rname, neg)) = route(r, e, c) else { continue };
                let Some((_, twin)) = route(r, e, &TWIN) else { continue };
                v.push(Probe { name: format!("esc_{}_{}_{}", v.len(), e.name.replace("::", "_"), c.name.replace('-', "_")), class: format!("{}|{}|{}", e.name, c.name, rname), negative: neg, twin });
            }
            for r in 0..2 {
                let Some((rname, neg)) = cross(r, e, c, false) else { continue };
                let Some((_, twin)) = cross(r, e, c, true) else { continue };
                v.push(Probe { name: format!("esc_{}_{}_{}", v.len(), e.name.replace("::", "_"), c.name.replace('-', "_")), class: format!("{}|{}|{}", e.name, c.name, rname), negative: neg, twin });
            }
        }
    }
    v
}

/// The complete structural set: variance in the brand for every branded type, Send / Sync for
/// every pointer, context and arena type.
pub fn structural_probes() -> Vec<Probe> {
    let mut v = Vec::new();
    // (name, type with lifetime parameter `'x`)
    let branded: [(&str, &str); 12] = [
        ("Gc", "Gc<'x, i32>"),
        ("GcWeak", "GcWeak<'x, i32>"),
        ("Gc-unsized", "Gc<'x, [i32]>"),
        ("GcSlice", "gc_arena::GcSlice<'x, i32>"),
        ("GcThinStr", "gc_arena::GcThinStr<'x>"),
        ("Mutation", "&'r Mutation<'x>"),
        ("Finalization", "&'r Finalization<'x>"),
        ("DynamicRootSet", "DynamicRootSet<'x>"),
        ("ZstCache", "ZstCache<'x, 8>"),
        ("GcBuilder", "gc_arena::GcBuilder<'x, i32>"),
        ("GcLock", "gc_arena::GcLock<'x, i32>"),
        ("GcRefLock", "gc_arena::GcRefLock<'x, i32>"),
    ];
    for (n, ty) in branded {
        let a = ty.replace("'x", "'a");
        let b = ty.replace("'x", "'b");
        let co = format!("{PRELUDE}\nfn shrink<'a: 'b, 'b, 'r>(v: {a}) -> {b} {{ v }}\nfn main() {{}}\n");
        let contra = format!("{PRELUDE}\nfn grow<'a: 'b, 'b, 'r>(v: {b}) -> {a} {{ v }}\nfn main() {{}}\n");
        let twin = format!("{PRELUDE}\nfn shrink<'a: 'b, 'b>(v: &'a i32) -> &'b i32 {{ v }}\nfn same<'a, 'r>(v: {a}) -> {a} {{ v }}\nfn main() {{}}\n", a = a);
        v.push(Probe { name: format!("var_co_{}", v.len()), class: format!("covariant-coercion|{n}"), negative: co, twin: twin.clone() });
        v.push(Probe { name: format!("var_contra_{}", v.len()), class: format!("contravariant-coercion|{n}"), negative: contra, twin });
    }
    let auto: [(&str, &str); 16] = [
        ("Gc", "Gc<'static, i32>"),
        ("GcWeak", "GcWeak<'static, i32>"),
        ("Gc-of-unsized", "Gc<'static, str>"),
        ("GcThinSlice", "gc_arena::GcThinSlice<'static, u8>"),
        ("Mutation", "Mutation<'static>"),
        ("Finalization", "Finalization<'static>"),
        ("DynamicRootSet", "DynamicRootSet<'static>"),
        ("DynamicRoot", "DynamicRoot<Rootable![i32]>"),
        ("Arena", "A"),
        ("MarkedArena", "gc_arena::arena::MarkedArena<'static, Rootable![R<'_>]>"),
        ("Metrics", "gc_arena::metrics::Metrics"),
        ("ZstCache", "ZstCache<'static, 8>"),
        ("GcBuilder", "gc_arena::GcBuilder<'static, i32>"),
        ("GcSliceBuilder", "gc_arena::GcSliceBuilder<'static, i32>"),
        ("GcStrBuilder", "gc_arena::GcStrBuilder<'static>"),
        ("ref-Mutation", "&'static Mutation<'static>"),
    ];
    for (n, ty) in auto {
        for tr in ["Send", "Sync"] {
            let neg = format!("{PRELUDE}\nfn need<T: {tr}>() {{}}\nfn main() {{ need::<{ty}>(); }}\n");
            let twin = format!("{PRELUDE}\nfn need<T: {tr}>() {{}}\nfn named<T>() {{}}\nfn main() {{ need::<i32>(); named::<{ty}>(); }}\n");
            v.push(Probe { name: format!("auto_{}_{}", tr.to_lowercase(), v.len()), class: format!("{tr}|{n}"), negative: neg, twin });
        }
    }
    // 'static-only Collect impls: a branded value behind &, Cell, RefCell, Static must not be Collect
    let wrappers: [(&str, &str); 5] = [("ref", "&'static Gc<'gc, i32>"), ("Cell", "std::cell::Cell<Option<Gc<'gc, i32>>>"), ("RefCell", "RefCell<Option<Gc<'gc, i32>>>"), ("Static", "Static<Gc<'gc, i32>>"), ("ref-Mutation", "&'gc Mutation<'gc>")];
    for (n, ty) in wrappers {
        let neg = format!("{PRELUDE}\nfn need<'gc, T: Collect<'gc>>() {{}}\nfn probe<'gc>() {{ need::<'gc, {ty}>(); }}\nfn main() {{}}\n");
        let twin = format!("{PRELUDE}\nfn need<'gc, T: Collect<'gc>>() {{}}\nfn probe<'gc>() {{ need::<'gc, Option<Gc<'gc, i32>>>(); need::<'gc, std::cell::Cell<i32>>(); need::<'gc, &'static i32>(); }}\nfn main() {{}}\n");
        v.push(Probe { name: format!("static_only_{}", v.len()), class: format!("static-only-Collect|{n}"), negative: neg, twin });
    }
    // sink types (anything that is handed a `T` after it was created) must not be covariant in `T`:
    // a covariant builder for `&'static X` could be completed with a branded `&'gc X`, which then sits
    // in the heap without `&'gc X: Collect`
    let sinks: [(&str, &str); 6] = [
        ("GcBuilder", "gc_arena::GcBuilder<'gc, {T}>"),
        ("GcBuilder-with-type-metadata", "gc_arena::GcBuilder<'gc, {T}, u64>"),
        ("GcSliceBuilder", "gc_arena::GcSliceBuilder<'gc, {T}>"),
        ("GcSliceWithHeaderBuilder-header", "gc_arena::GcSliceWithHeaderBuilder<'gc, {T}, u8>"),
        ("GcSliceWithHeaderBuilder-element", "gc_arena::GcSliceWithHeaderBuilder<'gc, u8, {T}>"),
        ("GcSliceWithHeaderSliceBuilder-element", "gc_arena::slice::GcSliceWithHeaderSliceBuilder<'gc, u8, {T}>"),
    ];
    for (n, ty) in sinks {
        let long = ty.replace("{T}", "&'static std::cell::Cell<u8>");
        let short = ty.replace("{T}", "&'a std::cell::Cell<u8>");
        let neg = format!("{PRELUDE}\nfn shrink<'gc, 'a>(v: {long}) -> {short} {{ v }}\nfn main() {{}}\n");
        let twin = format!("{PRELUDE}\nfn same<'gc, 'a>(v: {short}) -> {short} {{ v }}\nfn plain<'a>(v: &'static u8) -> &'a u8 {{ v }}\nfn main() {{}}\n");
        v.push(Probe { name: format!("sink_variance_{}", v.len()), class: format!("covariant-sink|{n}"), negative: neg, twin });
    }
    // the whole escape as a program: a `&'gc String` from `Gc::as_ref`, parked in the root through a builder
    {
        let body = |bty: &str, val: &str, slot: &str| {
            format!(
                "{PRELUDE}\n#[derive(Collect)]\n#[collect(no_drop)]\nstruct Rt<'gc> {{ owner: Gc<'gc, RefLock<Option<Gc<'gc, String>>>>, stale: Gc<'gc, RefLock<Option<Gc<'gc, {slot}>>>> }}\nstatic FIXED: String = String::new();\nfn main() {{\n    let arena = Arena::<Rootable![Rt<'_>]>::new(|mc| Rt {{ owner: Gc::new(mc, RefLock::new(None)), stale: Gc::new(mc, RefLock::new(None)) }});\n    arena.mutate(|mc, root| {{\n        let s: Gc<String> = Gc::new(mc, String::from(\"payload\"));\n        *root.owner.borrow_mut(mc) = Some(s);\n        let b: gc_arena::GcBuilder<'_, &'static String> = gc_arena::GcBuilder::new();\n        let b2: gc_arena::GcBuilder<'_, {bty}> = b;\n        let g = b2.write(mc, {val});\n        *root.stale.borrow_mut(mc) = Some(g);\n    }});\n}}\n"
            )
        };
        v.push(Probe { name: format!("sink_program_{}", v.len()), class: "covariant-sink|program: &'gc T parked in the root through a GcBuilder".into(), negative: body("&String", "s.as_ref()", "&'gc String"), twin: body("&'static String", "&FIXED", "&'static String") });
    }
    // every operation that takes a context (or another branded value) together with a pointer demands
    // the same brand for both: a foreign arena's context must be rejected
    let pairs: [(&str, &str, &str); 30] = [
        ("GcWeak::upgrade", "mc: &Mutation<'b>, g: GcWeak<'a, u8>", "let _ = g.upgrade(mc);"),
        ("Gc::write", "mc: &Mutation<'b>, g: Gc<'a, RefLock<u8>>", "let _ = Gc::write(mc, g);"),
        ("Gc::unlock", "mc: &Mutation<'b>, g: Gc<'a, RefLock<u8>>", "let _ = g.unlock(mc);"),
        ("GcRefLock::borrow_mut", "mc: &Mutation<'b>, g: Gc<'a, RefLock<u8>>", "let _ = g.borrow_mut(mc);"),
        ("GcRefLock::try_borrow_mut", "mc: &Mutation<'b>, g: Gc<'a, RefLock<u8>>", "let _ = g.try_borrow_mut(mc);"),
        ("GcLock::set", "mc: &Mutation<'b>, g: Gc<'a, Lock<u8>>", "g.set(mc, 1);"),
        ("Gc<OnceLock>::set", "mc: &Mutation<'b>, g: Gc<'a, gc_arena::lock::OnceLock<u8>>", "let _ = g.set(mc, 1);"),
        ("Gc<OnceLock>::get_or_init", "mc: &Mutation<'b>, g: Gc<'a, gc_arena::lock::OnceLock<u8>>", "let _ = g.get_or_init(mc, || 1);"),
        ("backward_barrier parent", "mc: &Mutation<'b>, g: Gc<'a, ()>", "mc.backward_barrier(g, None);"),
        ("backward_barrier child", "mc: &Mutation<'b>, g: Gc<'a, ()>, p: Gc<'b, ()>", "mc.backward_barrier(p, Some(g));"),
        ("backward_barrier_weak child", "mc: &Mutation<'b>, g: GcWeak<'a, ()>, p: Gc<'b, ()>", "mc.backward_barrier_weak(p, g);"),
        ("forward_barrier child", "mc: &Mutation<'b>, g: Gc<'a, ()>", "mc.forward_barrier(None, g);"),
        ("forward_barrier parent", "mc: &Mutation<'b>, g: Gc<'a, ()>, c: Gc<'b, ()>", "mc.forward_barrier(Some(g), c);"),
        ("forward_barrier_weak child", "mc: &Mutation<'b>, g: GcWeak<'a, ()>", "mc.forward_barrier_weak(None, g);"),
        ("DynamicRootSet::stash set", "mc: &Mutation<'b>, g: DynamicRootSet<'a>, v: Gc<'b, i32>", "let _ = g.stash::<Rootable![i32]>(mc, v);"),
        ("DynamicRootSet::stash value", "mc: &Mutation<'b>, g: DynamicRootSet<'b>, v: Gc<'a, i32>", "let _ = g.stash::<Rootable![i32]>(mc, v);"),
        ("Gc::resurrect", "mc: &Finalization<'b>, g: Gc<'a, u8>", "Gc::resurrect(mc, g);"),
        ("Gc::is_dead", "mc: &Finalization<'b>, g: Gc<'a, u8>", "let _ = Gc::is_dead(mc, g);"),
        ("GcWeak::resurrect", "mc: &Finalization<'b>, g: GcWeak<'a, u8>", "let _ = g.resurrect(mc);"),
        ("GcWeak::is_dead", "mc: &Finalization<'b>, g: GcWeak<'a, u8>", "let _ = g.is_dead(mc);"),
        ("ZstCache::alloc", "mc: &Mutation<'b>, g: ZstCache<'a, 8>", "let _ = g.alloc(mc, ());"),
        ("ZstCache::alloc_static", "mc: &Mutation<'b>, g: ZstCache<'a, 8>", "let _ = g.alloc_static(mc, ());"),
        ("ZstCache::is_cached", "g: ZstCache<'a, 8>, p: Gc<'b, ()>", "let _ = g.is_cached(p);"),
        ("Gc::ptr_eq", "g: Gc<'a, u8>, p: Gc<'b, u8>", "let _ = Gc::ptr_eq(g, p);"),
        ("GcBuilder::write", "mc: &Mutation<'b>, g: gc_arena::GcBuilder<'a, u8>", "let _ = g.write(mc, 1);"),
        ("GcSliceBuilder::write_slice_with", "mc: &Mutation<'b>, g: gc_arena::GcSliceBuilder<'a, u8>", "let _ = g.write_slice_with(mc, |i| i as u8);"),
        ("GcSliceBuilder::copy_slice", "mc: &Mutation<'b>, g: gc_arena::GcSliceBuilder<'a, u8>", "let _ = g.copy_slice(mc, &[]);"),
        ("GcStrBuilder::copy_str", "mc: &Mutation<'b>, g: gc_arena::GcStrBuilder<'a>", "let _ = g.copy_str(mc, \"\");"),
        ("slice-with-header builder write_slice_with", "mc: &Mutation<'b>, g: gc_arena::slice::GcSliceWithHeaderSliceBuilder<'a, u8, u8>", "let _ = g.write_slice_with(mc, |i| i as u8);"),
        ("slice-with-header builder copy_slice", "mc: &Mutation<'b>, g: gc_arena::slice::GcSliceWithHeaderSliceBuilder<'a, u8, u8>", "let _ = g.copy_slice(mc, &[]);"),
    ];
    for (n, args, body) in pairs {
        let neg = format!("{PRELUDE}\nfn foreign<'a, 'b>({args}) {{ {body} }}\nfn main() {{}}\n");
        let twin = format!("{PRELUDE}\nfn own<'a>({}) {{ {body} }}\nfn main() {{}}\n", args.replace("'b", "'a"));
        v.push(Probe { name: format!("foreign_ctx_{}", v.len()), class: format!("foreign-context-accepted|{n}"), negative: neg, twin });
    }
    // every pointer-to-pointer conversion keeps the brand of its operand: the result cannot be given
    // an unrelated brand `'b`
    let conv: [(&str, &str, &str, &str); 16] = [
        ("unsize! on Gc", "g: Gc<'a, [u8; 2]>", "Gc<'b, [u8]>", "gc_arena::unsize!(g => [u8])"),
        ("unsize! on GcWeak", "g: GcWeak<'a, [u8; 2]>", "GcWeak<'b, [u8]>", "gc_arena::unsize!(g => [u8])"),
        ("unsize! identity on GcWeak", "g: GcWeak<'a, String>", "GcWeak<'b, String>", "gc_arena::unsize!(g => String)"),
        ("unsize! to dyn on GcWeak", "g: GcWeak<'a, u8>", "GcWeak<'b, dyn std::fmt::Debug>", "gc_arena::unsize!(g => dyn std::fmt::Debug)"),
        ("Gc::erase", "g: Gc<'a, u8>", "Gc<'b, ()>", "Gc::erase(g)"),
        ("GcWeak::erase", "g: GcWeak<'a, u8>", "GcWeak<'b, ()>", "GcWeak::erase(g)"),
        ("Gc::erase_kind", "g: gc_arena::GcSlice<'a, u8>", "Gc<'b, [u8]>", "Gc::erase_kind(g)"),
        ("Gc::downgrade", "g: Gc<'a, u8>", "GcWeak<'b, u8>", "Gc::downgrade(g)"),
        ("GcWeak::upgrade", "g: GcWeak<'a, u8>, mc: &Mutation<'a>", "Option<Gc<'b, u8>>", "g.upgrade(mc)"),
        ("Gc::as_thin", "g: gc_arena::GcStr<'a>", "gc_arena::GcThinStr<'b>", "Gc::as_thin(g)"),
        ("Gc::as_fat", "g: gc_arena::GcThinStr<'a>", "gc_arena::GcStr<'b>", "Gc::as_fat(g)"),
        ("Gc::as_ref", "g: Gc<'a, std::cell::Cell<u8>>", "&'b std::cell::Cell<u8>", "Gc::as_ref(g)"),
        ("Gc::write", "g: Gc<'a, RefLock<u8>>, mc: &Mutation<'a>", "&'b Write<RefLock<u8>>", "Gc::write(mc, g)"),
        ("Gc::unlock", "g: Gc<'a, RefLock<u8>>, mc: &Mutation<'a>", "&'b RefCell<u8>", "g.unlock(mc)"),
        ("DynamicRootSet::fetch", "g: DynamicRootSet<'a>, h: &DynamicRoot<Rootable![i32]>", "Gc<'b, i32>", "g.fetch(h)"),
        ("ZstCache::cached_ptr", "g: ZstCache<'a, 8>", "Gc<'b, ()>", "g.cached_ptr()"),
    ];
    for (n, args, out, body) in conv {
        let neg = format!("{PRELUDE}\nfn rebrand<'a, 'b>({args}) -> {out} {{ {body} }}\nfn main() {{}}\n");
        let twin = format!("{PRELUDE}\nfn keep<'a>({args}) -> {} {{ {body} }}\nfn main() {{}}\n", out.replace("'b", "'a"));
        v.push(Probe { name: format!("conv_brand_{}", v.len()), class: format!("conversion-changes-brand|{n}"), negative: neg, twin });
    }
    // exported macros contain unsafe blocks; a caller-supplied operand evaluated inside one would let
    // a program without `unsafe` transmute a brand away
    for (n, tpl) in [
        ("unsize!", "fn probe<'gc>(mc: &Mutation<'gc>) { let g = Gc::new(mc, [1u8, 2]); let _s: Gc<'gc, [u8]> = gc_arena::unsize!(OPERAND => [u8]); }"),
        ("unsize! rebrand", "fn probe<'gc>(mc: &Mutation<'gc>) -> Gc<'static, [u8]> { let g = Gc::new(mc, [1u8, 2]); gc_arena::unsize!(REBRAND => [u8]) }"),
        ("field!", "#[derive(Collect)]\n#[collect(no_drop)]\nstruct Nd<'gc> { f: RefLock<Option<Gc<'gc, u8>>> }\nfn probe<'gc>(mc: &Mutation<'gc>) { let w = Gc::write(mc, Gc::new(mc, Nd { f: RefLock::new(None) })); let _c = gc_arena::barrier::field!(OPERAND2, Nd, f); }"),
        ("unlock!", "#[derive(Collect)]\n#[collect(no_drop)]\nstruct Nd<'gc> { f: RefLock<Option<Gc<'gc, u8>>> }\nfn probe<'gc>(mc: &Mutation<'gc>) { let w = Gc::write(mc, Gc::new(mc, Nd { f: RefLock::new(None) })); let _c = gc_arena::barrier::unlock!(OPERAND2, Nd, f); }"),
    ] {
        let neg = tpl
            .replace("OPERAND2", "{ let _x: i8 = std::mem::transmute::<u8, i8>(1u8); w }")
            .replace("OPERAND", "{ let _x: i8 = std::mem::transmute::<u8, i8>(1u8); g }")
            .replace("REBRAND", "std::mem::transmute::<Gc<'gc, [u8; 2]>, Gc<'static, [u8; 2]>>(g)");
        let twin = tpl.replace("OPERAND2", "w").replace("OPERAND", "g").replace("-> Gc<'static, [u8]>", "-> Gc<'gc, [u8]>").replace("REBRAND", "g");
        v.push(Probe { name: format!("macro_operand_{}", v.len()), class: format!("unsafe-operation-in-macro-operand|{n}"), negative: format!("{PRELUDE}\n{neg}\nfn main() {{}}\n"), twin: format!("{PRELUDE}\n{twin}\nfn main() {{}}\n") });
    }
    // the static_collect! macro must not produce an impl usable with a branded (non-'static) type
    let sc: [(&str, &str, &str, &str); 3] = [
        ("generic arm naming the macro's own 'gc", "struct B<'a, T>(&'a T);\nstatic_collect!(<T> B<'gc, T>);", "B<'gc, std::cell::Cell<u8>>", "struct B<'a, T>(&'a T);\nstatic_collect!(<T> B<'static, T>);\nfn ok<'gc>() { need::<'gc, B<'static, u8>>(); }"),
        ("plain arm naming the macro's own 'gc", "struct B<'a>(&'a u8);\nstatic_collect!(B<'gc>);", "B<'gc>", "struct B<'a>(&'a u8);\nstatic_collect!(B<'static>);\nfn ok<'gc>() { need::<'gc, B<'static>>(); }"),
        ("generic arm with a non-'static type argument", "struct B<T>(T);\nstatic_collect!(<T> B<T>);", "B<Gc<'gc, u8>>", "struct B<T>(T);\nstatic_collect!(<T> B<T>);\nfn ok<'gc>() { need::<'gc, B<String>>(); }"),
    ];
    for (n, items, ty, twin_items) in sc {
        let neg = format!("{PRELUDE}\nuse gc_arena::static_collect;\nfn need<'gc, T: Collect<'gc>>() {{}}\n{items}\nfn probe<'gc>() {{ need::<'gc, {ty}>(); }}\nfn main() {{}}\n");
        let twin = format!("{PRELUDE}\nuse gc_arena::static_collect;\nfn need<'gc, T: Collect<'gc>>() {{}}\n{twin_items}\nfn main() {{}}\n");
        v.push(Probe { name: format!("static_collect_{}", v.len()), class: format!("static_collect-macro|{n}"), negative: neg, twin });
    }
    // a root type that is only well-formed if 'gc: 'static: `Rootable!` hides the type under
    // `dyn for<'gc> Rootable<'gc, Root = ..>`, where rustc does not check well-formedness, and every
    // callback signature that mentions the root then carries the implied bound 'gc: 'static
    // (KNOWN FINDING, see KNOWN_FINDINGS.txt: signature `non-wf-root-implies-static`)
    for (n, marker, mk) in [
        ("PhantomData marker in a tuple root", "std::marker::PhantomData<&'static Gc<'gc, ()>>", "std::marker::PhantomData"),
        ("Option<Gc<.., &'static &'gc ()>> carrier in a tuple root", "Option<Gc<'gc, &'static &'gc ()>>", "None"),
        ("PhantomData<fn(&'static &'gc ())> marker in a tuple root", "std::marker::PhantomData<fn(&'static &'gc ())>", "std::marker::PhantomData"),
        ("Option<Gc<.., &'static Gc<..>>> carrier in a tuple root", "Option<Gc<'gc, &'static Gc<'gc, i32>>>", "None"),
    ] {
        let neg = format!("{PRELUDE}\ntype Collapsed<'gc> = (Gc<'gc, i32>, {marker});\nthread_local! {{ static STASH: std::cell::Cell<Option<Gc<'static, i32>>> = std::cell::Cell::new(None); }}\nfn main() {{\n    let a = Arena::<Rootable![Collapsed<'_>]>::new(|mc| (Gc::new(mc, 1), {mk}));\n    a.mutate(|mc, _root| {{ let g = Gc::new(mc, 7i32); STASH.with(|s| s.set(Some(g))); }});\n}}\n");
        let twin = format!("{PRELUDE}\ntype Plain<'gc> = (Gc<'gc, i32>, std::marker::PhantomData<&'static u8>);\nthread_local! {{ static STASH: std::cell::Cell<Option<i32>> = std::cell::Cell::new(None); }}\nfn main() {{\n    let a = Arena::<Rootable![Plain<'_>]>::new(|mc| (Gc::new(mc, 1), std::marker::PhantomData));\n    a.mutate(|mc, _root| {{ let g = Gc::new(mc, 7i32); STASH.with(|s| s.set(Some(*g))); }});\n}}\n");
        v.push(Probe { name: format!("non_wf_root_{}", v.len()), class: format!("non-wf-root-implies-static|{n}"), negative: neg, twin });
    }
    // `&'static T` is Collect, and never traced, only for T: 'static: a root must not reach a pointer
    // through a leaked box (the explicit T: 'static bound on that impl is what rejects these; where the
    // reference sits behind a Gc or a PhantomData the programs fall under the known finding above)
    for (n, ty, mk) in [
        ("&'static Gc as the root", "&'static Gc<'gc, i32>", "&*Box::leak(Box::new(Gc::new(mc, 1)))"),
        ("&'static Gc in a tuple root", "(Gc<'gc, i32>, &'static Gc<'gc, i32>)", "(Gc::new(mc, 1), &*Box::leak(Box::new(Gc::new(mc, 1))))"),
        ("&'static Lock<Option<Gc>> as the root", "&'static Lock<Option<Gc<'gc, i32>>>", "&*Box::leak(Box::new(Lock::new(None)))"),
        ("Option<&'static [Gc]> as the root", "Option<&'static [Gc<'gc, i32>]>", "None"),
        ("Vec<&'static Gc> as the root", "Vec<&'static Gc<'gc, i32>>", "Vec::new()"),
        ("Box<&'static Gc> as the root", "Box<&'static Gc<'gc, i32>>", "Box::new(&*Box::leak(Box::new(Gc::new(mc, 1))))"),
        ("&'static GcWeak as the root", "&'static GcWeak<'gc, i32>", "&*Box::leak(Box::new(Gc::downgrade(Gc::new(mc, 1))))"),
    ] {
        let neg = format!("{PRELUDE}
type SR<'gc> = {ty};
fn main() {{
    let mut a = Arena::<Rootable![SR<'_>]>::new(|mc| {mk});
    a.finish_cycle();
}}
");
        let twin = format!("{PRELUDE}
type SR<'gc> = (Gc<'gc, i32>, &'static i32, &'static [u8], Option<&'static str>);
fn main() {{
    let mut a = Arena::<Rootable![SR<'_>]>::new(|mc| (Gc::new(mc, 1), &*Box::leak(Box::new(7)), &[1u8, 2][..], None));
    a.finish_cycle();
}}
");
        v.push(Probe { name: format!("static_ref_root_{}", v.len()), class: format!("static-reference-to-branded-data-in-root|{n}"), negative: neg, twin });
    }
    // the root must be Collect: the arena releases every object before it drops the root, so the
    // destructor of a root that is not Collect (a user Drop impl reading its Gc, a std Ref guard
    // borrowed from a Gc<RefLock>) would run on freed objects
    for (n, items, mk_arena) in [
        ("Ref guard as the root of Arena::new", "", "let arena = Arena::<Rootable![std::cell::Ref<'_, i32>]>::new(|mc| Gc::new(mc, RefLock::new(7)).borrow()); drop(arena);"),
        ("root with a destructor that reads its Gc", "struct Rt<'gc>(Gc<'gc, i32>);\nimpl<'gc> Drop for Rt<'gc> { fn drop(&mut self) { let _n: i32 = *self.0; } }", "let arena = Arena::<Rootable![Rt<'_>]>::new(|mc| Rt(Gc::new(mc, 7))); drop(arena);"),
        ("Ref guard as the root of Arena::try_new", "", "let arena = Arena::<Rootable![std::cell::Ref<'_, i32>]>::try_new(|mc| Ok::<_, ()>(Gc::new(mc, RefLock::new(7)).borrow())); drop(arena);"),
        ("Ref guard as the root after map_root", "", "let arena = mk().map_root::<Rootable![std::cell::Ref<'_, i32>]>(|_mc, root| root.v.borrow()); drop(arena);"),
        ("Ref guard as the root after try_map_root", "", "let arena = mk().try_map_root::<Rootable![std::cell::Ref<'_, i32>], ()>(|_mc, root| Ok(root.v.borrow())); drop(arena);"),
    ] {
        let neg = format!("{PRELUDE}\n{items}\nfn main() {{ {mk_arena} }}\n");
        let twin = format!("{PRELUDE}\nfn main() {{ let arena = mk().map_root::<Rootable![Gc<'_, RefLock<i32>>]>(|_mc, root| root.v); drop(arena); let a2 = Arena::<Rootable![Option<Gc<'_, i32>>]>::try_new(|mc| Ok::<_, ()>(Some(Gc::new(mc, 7)))); drop(a2); }}\n");
        v.push(Probe { name: format!("root_not_collect_{}", v.len()), class: format!("root-is-not-Collect|{n}"), negative: neg, twin });
    }
    // dyn_collect! is for trait objects only: for a sized type its impl would be satisfied circularly
    // (blanket DynCollect for sized Collect types) and make any type Collect
    for (n, items, ty) in [
        ("generic arm on a struct holding a branded reference", "struct B<'a>(&'a std::cell::Cell<u8>);\ngc_arena::collect::dyn_collect!(<'a> B<'a>);", "B<'gc>"),
        ("plain arm on a struct holding a branded reference", "struct B<'a>(&'a std::cell::Cell<u8>);\ngc_arena::collect::dyn_collect!(B<'gc>);", "B<'gc>"),
        ("generic arm on a struct with a type parameter", "struct B<T>(T);\ngc_arena::collect::dyn_collect!(<T> B<T>);", "B<&'gc std::cell::Cell<u8>>"),
    ] {
        let neg = format!("{PRELUDE}\nfn need<'gc, T: Collect<'gc>>() {{}}\n{items}\nfn probe<'gc>() {{ need::<'gc, {ty}>(); }}\nfn main() {{}}\n");
        let twin = format!("{PRELUDE}\nfn need<'gc, T: Collect<'gc> + ?Sized>() {{}}\ntrait Tr<'gc>: 'gc + gc_arena::collect::DynCollect<'gc> {{}}\ngc_arena::collect::dyn_collect!(dyn Tr<'gc>);\ntrait Tr2<'gc, T>: gc_arena::collect::DynCollect<'gc> where T: Clone {{}}\ngc_arena::collect::dyn_collect!(<T> dyn Tr2<'gc, T> where T: Clone);\nfn ok<'gc>() {{ need::<'gc, dyn Tr<'gc>>(); need::<'gc, Box<dyn Tr2<'gc, u8>>>(); }}\nfn main() {{}}\n");
        v.push(Probe { name: format!("dyn_collect_{}", v.len()), class: format!("dyn_collect-macro|{n}"), negative: neg, twin });
    }
    // derive(Collect): require_static (whole type or field) must keep demanding 'static whatever `bound` says
    let dv: [(&str, &str, &str); 4] = [
        ("whole-type require_static with an empty bound", "#[derive(Collect)]\n#[collect(require_static, bound = \"\")]\nstruct B<'a>(&'a std::cell::Cell<u8>);", "#[derive(Collect)]\n#[collect(require_static, bound = \"\")]\nstruct B<'a>(&'a std::cell::Cell<u8>);\nfn ok<'gc>() { need::<'gc, B<'static>>(); }"),
        ("whole-type require_static, bound first", "#[derive(Collect)]\n#[collect(bound = \"where u8: Copy\", require_static)]\nstruct B<'a>(&'a std::cell::Cell<u8>);", "#[derive(Collect)]\n#[collect(require_static)]\nstruct B<'a>(&'a std::cell::Cell<u8>);\nfn ok<'gc>() { need::<'gc, B<'static>>(); }"),
        ("require_static field with an empty bound", "#[derive(Collect)]\n#[collect(no_drop, bound = \"\")]\nstruct W<T> { #[collect(require_static)] r: T }\ntype B<'a> = W<&'a std::cell::Cell<u8>>;", "#[derive(Collect)]\n#[collect(no_drop, bound = \"\")]\nstruct W<T> { #[collect(require_static)] r: T }\ntype B<'a> = W<&'a std::cell::Cell<u8>>;\nfn ok<'gc>() { need::<'gc, B<'static>>(); }"),
        ("require_static field with a where bound", "#[derive(Collect)]\n#[collect(no_drop, bound = \"where u8: Copy\")]\nstruct W<T> { n: u8, #[collect(require_static)] r: T }\ntype B<'a> = W<&'a std::cell::Cell<u8>>;", "#[derive(Collect)]\n#[collect(no_drop)]\nstruct W<T> { n: u8, #[collect(require_static)] r: T }\ntype B<'a> = W<&'a std::cell::Cell<u8>>;\nfn ok<'gc>() { need::<'gc, B<'static>>(); }"),
    ];
    for (n, items, twin_items) in dv {
        let neg = format!("{PRELUDE}\nfn need<'gc, T: Collect<'gc>>() {{}}\n{items}\nfn probe<'gc>() {{ need::<'gc, B<'gc>>(); }}\nfn main() {{}}\n");
        let twin = format!("{PRELUDE}\nfn need<'gc, T: Collect<'gc>>() {{}}\n{twin_items}\nfn main() {{}}\n");
        v.push(Probe { name: format!("derive_static_{}", v.len()), class: format!("derive-require_static|{n}"), negative: neg, twin });
    }
    // type parameters a provided Collect impl does not trace (hashers) must be 'static: a branded
    // reference parked there would be stored in the heap without ever being traced
    let untraced: [(&str, &str, &str); 7] = [
        ("std HashMap hasher", "std::collections::HashMap<u8, u8, {S}>", "std::hash::RandomState"),
        ("std HashSet hasher", "std::collections::HashSet<u8, {S}>", "std::hash::RandomState"),
        ("hashbrown HashMap hasher", "hashbrown::HashMap<u8, u8, {S}>", "std::hash::RandomState"),
        ("hashbrown HashSet hasher", "hashbrown::HashSet<u8, {S}>", "std::hash::RandomState"),
        ("indexmap IndexMap hasher", "indexmap::IndexMap<u8, u8, {S}>", "std::hash::RandomState"),
        ("indexmap IndexSet hasher", "indexmap::IndexSet<u8, {S}>", "std::hash::RandomState"),
        ("Static payload", "Static<{S}>", "u8"),
    ];
    for (n, ty, ok) in untraced {
        for (bn, bad) in [("branded-reference", "&'gc std::cell::Cell<u8>"), ("Gc", "Gc<'gc, u8>"), ("Mutation-reference", "&'gc Mutation<'gc>")] {
            let neg = format!("{PRELUDE}\nfn need<'gc, T: Collect<'gc>>() {{}}\nfn probe<'gc>() {{ need::<'gc, {}>(); }}\nfn main() {{}}\n", ty.replace("{S}", bad));
            let twin = format!("{PRELUDE}\nfn need<'gc, T: Collect<'gc>>() {{}}\nfn probe<'gc>() {{ need::<'gc, {}>(); }}\nfn main() {{}}\n", ty.replace("{S}", ok));
            v.push(Probe { name: format!("untraced_param_{}", v.len()), class: format!("untraced-parameter-must-be-static|{n}|{bn}"), negative: neg, twin });
        }
    }
    v
}

#[derive(Default)]
pub struct C12Report {
    pub probes: usize,
    pub rejected: usize,
    pub families: BTreeMap<String, u64>,
    pub classes: BTreeMap<String, u64>,
    pub accepted_negative: Vec<(String, String)>,
    pub generator_faults: Vec<String>,
    pub twin_failures: Vec<String>,
    pub samples: Vec<serde_json::Value>,
}

pub fn run(tc: &Toolchain, probes: &[Probe], threads: usize) -> C12Report {
    let res = par_map(probes, threads, |_, p| {
        let n = tc.compile(&format!("{}_neg", p.name), &p.negative, false);
        let t = tc.compile(&format!("{}_twin", p.name), &p.twin, false);
        (n, t)
    });
    let mut rep = C12Report { probes: probes.len(), ..Default::default() };
    for (p, (n, t)) in probes.iter().zip(res) {
        *rep.classes.entry(p.class.clone()).or_insert(0) += 1;
        if !t.ok {
            rep.twin_failures.push(format!("{}: twin does not compile: {}", p.class, t.stderr.lines().take(6).collect::<Vec<_>>().join(" | ")));
            continue;
        }
        if n.ok {
            rep.accepted_negative.push((p.class.clone(), p.negative.clone()));
            continue;
        }
        // a probe that feeds a macro something it must refuse dies in macro expansion ("no rules expected")
        let macro_refusal = p.class.starts_with("dyn_collect-macro") && n.stderr.contains("no rules expected");
        if macro_refusal {
            rep.rejected += 1;
            *rep.families.entry("macro-refusal".to_string()).or_insert(0) += 1;
            continue;
        }
        if generator_fault(&n.stderr) {
            rep.generator_faults.push(format!("{}: {}", p.class, n.stderr.lines().take(6).collect::<Vec<_>>().join(" | ")));
            continue;
        }
        let mut fams: Vec<String> = error_codes(&n.stderr).into_iter().map(|c| c.split(':').next().unwrap().to_string()).collect();
        fams.sort();
        fams.dedup();
        const EXPECTED: [&str; 16] = ["E0277", "E0521", "E0597", "E0716", "E0308", "E0310", "E0477", "E0478", "E0491", "E0373", "E0495", "E0759", "E0515", "lifetime-may-not-live-long-enough", "not-general-enough", "borrowed-data-escapes"];
        // the macro-operand probes are about unsafe operations: there E0133 is the expected family
        // (a constructor that is not available for a root type shows up as E0599: unsatisfied trait bounds)
        let expected_here = |f: &str| if p.class.starts_with("unsafe-operation-in-macro-operand") { f == "E0133" } else if p.class.starts_with("root-is-not-Collect") { f == "E0599" || f == "E0277" } else { EXPECTED.contains(&f) };
        if !fams.iter().any(|f| expected_here(f.as_str())) {
            rep.generator_faults.push(format!("{}: rejected, but with none of the expected diagnostic families: {fams:?}", p.class));
            continue;
        }
        rep.rejected += 1;
        for f in &fams {
            *rep.families.entry(f.clone()).or_insert(0) += 1;
        }
        if rep.samples.len() < 3 {
            rep.samples.push(serde_json::json!({"class": p.class, "diagnostics": fams, "program": p.negative.replace(PRELUDE, "/* common prelude */")}));
        }
    }
    rep
}
