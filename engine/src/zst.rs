//! C19: ZstCache hands out its shared pointer exactly for zero-sized types whose alignment fits
//! (exhaustive table over cache alignment x type alignment x size).

use std::cell::Cell;

use gc_arena::lock::Lock;
use gc_arena::zst_cache::{Alignment, ValidAlignment, ZstCache};
use gc_arena::{Arena, Collect, Gc, Rootable};

use crate::layout::*;
use crate::obs;

thread_local! {
    static DZ_DROPS: Cell<u64> = const { Cell::new(0) };
}

/// Zero-sized, aligned like `A`, with a destructor.
pub struct DZ<A: Copy>([A; 0]);
impl<A: Copy> Drop for DZ<A> {
    fn drop(&mut self) {
        DZ_DROPS.with(|c| c.set(c.get() + 1));
    }
}

#[derive(Collect)]
#[collect(no_drop)]
pub struct ZRoot<'gc> {
    p: Lock<Option<Gc<'gc, ()>>>,
}

/// The cache itself, embedded in a derived struct behind a Gc, is the only thing kept.
#[derive(Collect)]
#[collect(no_drop)]
pub struct Holder<'gc, const M: usize>
where
    Alignment<M>: ValidAlignment,
{
    pad: u8,
    cache: ZstCache<'gc, M>,
}

#[derive(Collect)]
#[collect(no_drop)]
pub struct HRoot<'gc, const M: usize>
where
    Alignment<M>: ValidAlignment,
{
    holder: Gc<'gc, Holder<'gc, M>>,
    direct: ZstCache<'gc, M>,
}

/// Keeping only the cache reachable (directly in the root, and inside a Gc'd struct) keeps the
/// shared allocation alive: pointers handed out later must refer to live memory.
pub fn cache_only_cell<const M: usize>() -> Cell1
where
    Alignment<M>: ValidAlignment,
{
    let name = format!("ZstCache<{M}> kept alive only through the cache itself");
    let mut errs = Vec::new();
    obs::begin_case();
    {
        let mut blocks: Vec<usize> = Vec::new();
        let mut arena: Arena<Rootable![HRoot<'_, M>]> = Arena::new(|mc| {
            obs::capture_on();
            let c1 = ZstCache::<M>::new(mc);
            let c2 = ZstCache::<M>::new(mc);
            blocks = obs::capture_off();
            HRoot { holder: Gc::new(mc, Holder { pad: 1, cache: c1 }), direct: c2 }
        });
        for b in &blocks {
            obs::watch(*b, *b);
        }
        arena.finish_cycle();
        arena.finish_cycle();
        for (i, b) in blocks.iter().enumerate() {
            if !obs::block_live(*b) {
                errs.push(format!("{name}: the shared allocation of cache {i} ({}) was released while the cache is reachable", if i == 0 { "inside a Gc'd struct" } else { "directly in the root" }));
            }
        }
        if errs.is_empty() {
            arena.mutate(|mc, root| {
                let p = root.holder.cache.alloc_static(mc, ());
                let q = root.direct.alloc_static(mc, ());
                if !root.holder.cache.is_cached(p) || !root.direct.is_cached(q) {
                    errs.push(format!("{name}: unit value not answered with the shared pointer"));
                }
                let _u: () = *p;
            });
        }
        let want = 3;
        if arena.metrics().total_gc_count() != want {
            errs.push(format!("{name}: {} allocations survive, expected {want} (holder + two shared allocations)", arena.metrics().total_gc_count()));
        }
    }
    let end = obs::end_case();
    for f in end.faults {
        errs.push(format!("{name}: allocator: {f:?}"));
    }
    Cell1 { name, errors: errs, cached: true }
}

pub trait Marker {
    fn which(&self) -> u8;
}
pub struct MA;
pub struct MB;
impl Marker for MA {
    fn which(&self) -> u8 {
        1
    }
}
impl Marker for MB {
    fn which(&self) -> u8 {
        2
    }
}

/// Two pointers to the same allocation stay `ptr_eq` whatever metadata unsizing gave them.
pub fn ptr_eq_metadata_cell() -> Cell1 {
    use gc_arena::unsize;
    let name = "ptr_eq of pointers that share an allocation but differ in metadata".to_string();
    let mut errs = Vec::new();
    gc_arena::arena::rootless_mutate(|mc| {
        let cache = ZstCache::<8>::new(mc);
        let a3 = cache.alloc_static(mc, [(); 3]);
        let a5 = cache.alloc_static(mc, [(); 5]);
        let s3 = unsize!(a3 => [()]);
        let s5 = unsize!(a5 => [()]);
        if s3.len() != 3 || s5.len() != 5 {
            errs.push(format!("{name}: unsized zero-sized arrays have lengths {} and {}", s3.len(), s5.len()));
        }
        if Gc::as_ptr(s3) as *const () != Gc::as_ptr(s5) as *const () {
            errs.push(format!("{name}: the cache handed out different addresses for two zero-sized arrays"));
        } else {
            if !Gc::ptr_eq(s3, s5) {
                errs.push(format!("{name}: Gc::ptr_eq is false for two slice pointers to the same allocation (lengths 3 and 5)"));
            }
            if !gc_arena::GcWeak::ptr_eq(Gc::downgrade(s3), Gc::downgrade(s5)) {
                errs.push(format!("{name}: GcWeak::ptr_eq is false for two slice pointers to the same allocation"));
            }
        }
        let da = unsize!(cache.alloc_static(mc, MA) => dyn Marker);
        let db = unsize!(cache.alloc_static(mc, MB) => dyn Marker);
        if da.which() != 1 || db.which() != 2 {
            errs.push(format!("{name}: trait objects dispatch to the wrong implementation"));
        }
        if Gc::as_ptr(da) as *const () == Gc::as_ptr(db) as *const () && !Gc::ptr_eq(da, db) {
            errs.push(format!("{name}: Gc::ptr_eq is false for two trait-object pointers to the same allocation (different vtables)"));
        }
        // and a pointer is ptr_eq to its own unsized / re-sized forms
        let arr = Gc::new(mc, [1u8, 2, 3]);
        let sl = unsize!(arr => [u8]);
        if !Gc::ptr_eq(Gc::erase(arr), Gc::erase(sl)) || sl.len() != 3 {
            errs.push(format!("{name}: an array pointer and its unsized form are not ptr_eq"));
        }
    });
    Cell1 { name, errors: errs, cached: true }
}

pub struct Cell1 {
    pub name: String,
    pub errors: Vec<String>,
    pub cached: bool,
}

pub fn zst_cell<const M: usize, const S: usize, A: Copy + Default + 'static>() -> Cell1
where
    Alignment<M>: ValidAlignment,
{
    let ta = std::mem::align_of::<Blob<S, A>>();
    let ts = std::mem::size_of::<Blob<S, A>>();
    let name = format!("ZstCache<{M}> x Blob(size {ts}, align {ta})");
    let mut errs = Vec::new();
    let expect = ts == 0 && ta <= M;
    obs::begin_case();
    let mut cached_seen = false;
    {
        let mut arena: Arena<Rootable![ZRoot<'_>]> = Arena::new(|_| ZRoot { p: Lock::new(None) });
        let blocks = arena.mutate_root(|mc, root| {
            obs::capture_on();
            let cache = ZstCache::<M>::new(mc);
            let cache_blocks = obs::capture_off();
            let cp = Gc::as_ptr(cache.cached_ptr()) as usize;
            if cp % M != 0 {
                errs.push(format!("{name}: cached pointer {cp:#x} is not aligned to {M}"));
            }
            obs::capture_on();
            let p = cache.alloc_static(mc, blob_default::<S, A>());
            let q = cache.alloc(mc, blob_default::<S, A>());
            let own_blocks = obs::capture_off();
            let pc = cache.is_cached(p);
            let qc = cache.is_cached(q);
            cached_seen = pc;
            if pc != expect || qc != expect {
                errs.push(format!("{name}: alloc_static returned the shared pointer: {pc}, alloc: {qc}; expected {expect}"));
            }
            for (what, addr) in [("alloc_static", Gc::as_ptr(p) as usize), ("alloc", Gc::as_ptr(q) as usize)] {
                if addr % ta != 0 {
                    errs.push(format!("{name}: pointer from {what} ({addr:#x}) is not aligned for the type"));
                }
            }
            if pc && !Gc::ptr_eq(cache.cached_ptr(), Gc::erase(p)) {
                errs.push(format!("{name}: is_cached but not ptr_eq to cached_ptr"));
            }
            if !pc && Gc::ptr_eq(Gc::erase(p), Gc::erase(q)) {
                errs.push(format!("{name}: two separate allocations share an address"));
            }
            if expect != own_blocks.is_empty() {
                errs.push(format!("{name}: the two alloc calls made {} allocations", own_blocks.len()));
            }
            let _: &Blob<S, A> = &p;
            // keep only the pointer obtained from alloc_static
            root.p = Lock::new(Some(Gc::erase(p)));
            let addr = Gc::as_ptr(p) as *const () as usize;
            let all: Vec<usize> = cache_blocks.iter().chain(own_blocks.iter()).copied().collect();
            let mine = all.iter().copied().find(|b| obs::block_info(*b).map(|i| addr >= *b && addr <= *b + i.size).unwrap_or(false));
            for b in &all {
                obs::watch(*b, *b);
            }
            (all, mine)
        });
        arena.finish_cycle();
        arena.finish_cycle();
        match blocks.1 {
            Some(b) => {
                if !obs::block_live(b) {
                    errs.push(format!("{name}: the allocation behind the only rooted pointer was released"));
                }
            }
            None => errs.push(format!("{name}: pointer lies in no allocation made by the cache or the alloc calls")),
        }
        let want = 1;
        if arena.metrics().total_gc_count() != want {
            errs.push(format!("{name}: {} allocations survive, expected {want}", arena.metrics().total_gc_count()));
        }
        arena.mutate_root(|_, root| root.p = Lock::new(None));
        arena.finish_cycle();
        arena.finish_cycle();
        for b in &blocks.0 {
            if obs::block_live(*b) {
                errs.push(format!("{name}: allocation {b:#x} not released after the pointer was dropped"));
            }
        }
    }
    let end = obs::end_case();
    for f in end.faults {
        errs.push(format!("{name}: allocator: {f:?}"));
    }
    Cell1 { name, errors: errs, cached: cached_seen }
}

fn blob_default<const S: usize, A: Copy>() -> Blob<S, A> {
    // all-zero bytes
    unsafe { std::mem::zeroed() }
}

/// A zero-sized `Collect` type with drop glue (but no `Drop` impl of its own, as `no_drop` demands).
#[derive(Collect)]
#[collect(no_drop, bound = "")]
pub struct DZHolder<A: Copy + 'static> {
    inner: gc_arena::Static<DZ<A>>,
}

/// `VIA`: 0 = `alloc_static(DZ)`, 1 = `alloc(Static(DZ))`, 2 = `alloc(derived struct holding Static<DZ>)`.
pub fn dz_cell<const M: usize, A: Copy + Default + 'static, const VIA: u8>() -> Cell1
where
    Alignment<M>: ValidAlignment,
{
    let ta = std::mem::align_of::<DZ<A>>();
    let via = ["alloc_static", "alloc(Static<_>)", "alloc(derived holder)"][VIA as usize];
    let name = format!("ZstCache<{M}> x zero-sized type with destructor, align {ta}, via {via}");
    let mut errs = Vec::new();
    let expect = ta <= M;
    obs::begin_case();
    DZ_DROPS.with(|c| c.set(0));
    let mut cached = false;
    {
        let mut arena: Arena<Rootable![ZRoot<'_>]> = Arena::new(|_| ZRoot { p: Lock::new(None) });
        arena.mutate_root(|mc, root| {
            let cache = ZstCache::<M>::new(mc);
            let p: Gc<'_, ()> = match VIA {
                0 => {
                    let p = cache.alloc_static(mc, DZ::<A>([]));
                    cached = cache.is_cached(p);
                    Gc::erase(p)
                }
                1 => {
                    assert!(std::mem::size_of::<gc_arena::Static<DZ<A>>>() == 0 && std::mem::align_of::<gc_arena::Static<DZ<A>>>() == ta);
                    let p = cache.alloc(mc, gc_arena::Static(DZ::<A>([])));
                    cached = cache.is_cached(p);
                    Gc::erase(p)
                }
                _ => {
                    assert!(std::mem::size_of::<DZHolder<A>>() == 0 && std::mem::align_of::<DZHolder<A>>() == ta);
                    let p = cache.alloc(mc, DZHolder::<A> { inner: gc_arena::Static(DZ::<A>([])) });
                    cached = cache.is_cached(p);
                    Gc::erase(p)
                }
            };
            // the shared pointer may only be handed out if the alignment fits; whether a type with a
            // destructor is served from the cache at all is the library's choice, but the value that was
            // handed over must stay alive as long as the pointer does
            if cached && !expect {
                errs.push(format!("{name}: shared pointer returned although the alignment exceeds the cache's"));
            }
            let now = DZ_DROPS.with(|c| c.get());
            if now != 0 {
                errs.push(format!("{name}: {now} destructor runs right after the allocation call (cached = {cached}), while the returned pointer is alive"));
            }
            root.p = Lock::new(Some(p));
        });
        arena.finish_cycle();
        arena.finish_cycle();
        let now = DZ_DROPS.with(|c| c.get());
        if now != 0 {
            errs.push(format!("{name}: {now} destructor runs while the pointer is rooted"));
        }
        arena.mutate_root(|_, root| root.p = Lock::new(None));
        arena.finish_cycle();
        arena.finish_cycle();
        let now = DZ_DROPS.with(|c| c.get());
        if now != 1 {
            errs.push(format!("{name}: the value was destructed {now} times over its lifetime"));
        }
    }
    let end = obs::end_case();
    for f in end.faults {
        errs.push(format!("{name}: allocator: {f:?}"));
    }
    Cell1 { name, errors: errs, cached }
}

include!("zst_table.rs");
