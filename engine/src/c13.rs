//! C13: safe code cannot adopt a pointer without a write barrier. Generated `#![forbid(unsafe_code)]`
//! programs: every probe must either be rejected by rustc or run without losing the adopted child.

use proptest::prelude::*;

const PRELUDE: &str = r#"#![forbid(unsafe_code)]
#![allow(unused, dead_code)]
use gc_arena::{Arena, Collect, Gc, Mutation, Rootable, Static};
use gc_arena::lock::{Lock, RefLock, OnceLock};
use gc_arena::barrier::{Write, field, unlock};
use std::cell::{Cell, RefCell};
use std::rc::Rc;
use std::sync::Arc;
use std::collections::{BTreeMap, HashMap, VecDeque};

thread_local! { static DROPPED: Cell<u32> = Cell::new(0); }
struct Child(u32);
impl Drop for Child { fn drop(&mut self) { DROPPED.with(|d| d.set(d.get() + 1)); } }
type C<'gc> = Gc<'gc, Static<Child>>;
"#;

#[derive(Clone, Copy, Debug, PartialEq, Eq)]
pub enum CellKind {
    RefLock,
    Lock,
    OnceLock,
}

#[derive(Clone, Copy, Debug, PartialEq, Eq)]
pub enum Wrap {
    Box,
    Rc,
    Arc,
    Vec,
    Arr,
    Opt,
    Res,
    Inner,
    Deque,
    BTree,
    Hash,
    PinBox,
    PinRc,
    Cow,
}

impl Wrap {
    fn shared(self) -> bool {
        matches!(self, Wrap::Rc | Wrap::Arc | Wrap::PinRc | Wrap::Cow)
    }
}

#[derive(Clone, Copy, Debug, PartialEq, Eq)]
pub enum Start {
    /// Gc::write on the object that owns the storage (the sanctioned way)
    Legit,
    /// Write::from_mut(&mut &*node).as_deref()
    FromMutRef,
    /// Write::from_static(&*node)
    FromStatic,
    /// a fresh, unrooted node sharing the first (Rc / Arc) wrapper; barrier on the fresh node only
    FreshSibling,
    /// Write::from_mut on a local clone of the first (Rc / Arc) wrapper
    CloneShared,
    /// plain shared reference, no Write at all: unlock on the bare lock
    NoWrite,
    /// &Write<&Node> through a local reference, then field!
    FieldThroughRef,
    /// the node lives in a Gc<RefLock<Node>>; Write::from_mut on the (barrier-free) `Ref` guard, as_deref
    RefGuard,
    /// the same through the RefMut guard of the sanctioned borrow_mut (a barrier was issued)
    RefMutGuard,
}

#[derive(Clone, Debug)]
pub struct Shape {
    pub cell: CellKind,
    pub wraps: Vec<Wrap>,
    pub start: Start,
}

impl Shape {
    pub fn class(&self) -> String {
        format!("{:?}|{:?}|{:?}", self.start, self.wraps, self.cell)
    }

    /// only unique owners between the barriered object and the storage, sanctioned start
    pub fn must_be_accepted(&self) -> bool {
        self.start == Start::Legit && !self.wraps.iter().any(|w| w.shared() || matches!(w, Wrap::PinBox))
    }

    fn cell_ty(&self) -> &'static str {
        match self.cell {
            CellKind::RefLock => "RefLock<Option<C<'gc>>>",
            CellKind::Lock => "Lock<Option<C<'gc>>>",
            CellKind::OnceLock => "OnceLock<C<'gc>>",
        }
    }

    fn cell_new(&self) -> &'static str {
        match self.cell {
            CellKind::RefLock => "RefLock::new(None)",
            CellKind::Lock => "Lock::new(None)",
            CellKind::OnceLock => "OnceLock::new()",
        }
    }

    fn field_ty(&self) -> String {
        let mut t = self.cell_ty().to_string();
        for w in self.wraps.iter().rev() {
            t = match w {
                Wrap::Box => format!("Box<{t}>"),
                Wrap::Rc => format!("Rc<{t}>"),
                Wrap::Arc => format!("Arc<{t}>"),
                Wrap::Vec => format!("Vec<{t}>"),
                Wrap::Arr => format!("[{t}; 1]"),
                Wrap::Opt => format!("Option<{t}>"),
                Wrap::Res => format!("Result<{t}, u8>"),
                Wrap::Inner => format!("Inner<{t}>"),
                Wrap::Deque => format!("VecDeque<{t}>"),
                Wrap::BTree => format!("BTreeMap<u8, {t}>"),
                Wrap::Hash => format!("HashMap<u8, {t}>"),
                Wrap::PinBox => format!("std::pin::Pin<Box<{t}>>"),
                Wrap::PinRc => format!("std::pin::Pin<Rc<{t}>>"),
                Wrap::Cow => format!("std::borrow::Cow<'gc, {t}>"),
            };
        }
        t
    }

    fn field_new(&self) -> String {
        let mut e = self.cell_new().to_string();
        for w in self.wraps.iter().rev() {
            e = match w {
                Wrap::Box => format!("Box::new({e})"),
                Wrap::Rc => format!("Rc::new({e})"),
                Wrap::Arc => format!("Arc::new({e})"),
                Wrap::Vec => format!("vec![{e}]"),
                Wrap::Arr => format!("[{e}]"),
                Wrap::Opt => format!("Some({e})"),
                Wrap::Res => format!("Ok({e})"),
                Wrap::Inner => format!("Inner {{ g: {e} }}"),
                Wrap::Deque => format!("VecDeque::from(vec![{e}])"),
                Wrap::BTree => format!("BTreeMap::from([(0u8, {e})])"),
                Wrap::Hash => format!("HashMap::from([(0u8, {e})])"),
                Wrap::PinBox => format!("Box::pin({e})"),
                Wrap::PinRc => format!("Rc::pin({e})"),
                Wrap::Cow => format!("std::borrow::Cow::Owned({e})"),
            };
        }
        e
    }

    /// projection from a `&Write<field type>` named `wf` down to the `&Write<cell>`
    fn project(&self, from: usize) -> String {
        let mut e = "wf".to_string();
        for w in self.wraps.iter().skip(from) {
            e = match w {
                Wrap::Box | Wrap::Rc | Wrap::Arc | Wrap::PinBox | Wrap::PinRc | Wrap::Cow => format!("{e}.as_deref()"),
                Wrap::Vec | Wrap::Arr | Wrap::Deque => format!("(&{e}[0])"),
                Wrap::Opt => format!("{e}.as_write().unwrap()"),
                Wrap::Res => format!("{e}.as_write().ok().unwrap()"),
                Wrap::Inner => format!("field!({e}, Inner, g)"),
                Wrap::BTree | Wrap::Hash => format!("(&{e}[&0u8])"),
            };
        }
        e
    }

    /// plain path from a `&field type` expression to the lock
    fn path(&self, base: &str) -> String {
        let mut e = base.to_string();
        for w in &self.wraps {
            e = match w {
                Wrap::Box | Wrap::Rc | Wrap::Arc | Wrap::PinBox | Wrap::PinRc | Wrap::Cow => format!("(*{e})"),
                Wrap::Vec | Wrap::Arr | Wrap::Deque => format!("{e}[0]"),
                Wrap::Opt => format!("(*{e}.as_ref().unwrap())"),
                Wrap::Res => format!("(*{e}.as_ref().ok().unwrap())"),
                Wrap::Inner => format!("{e}.g"),
                Wrap::BTree | Wrap::Hash => format!("{e}[&0u8]"),
            };
        }
        e
    }

    fn read(&self, base: &str) -> String {
        let e = self.path(base);
        match self.cell {
            CellKind::RefLock => format!("{e}.borrow().is_some()"),
            CellKind::Lock => format!("{e}.get().is_some()"),
            CellKind::OnceLock => format!("{e}.get().is_some()"),
        }
    }

    fn store(&self, w: &str) -> String {
        match self.cell {
            CellKind::RefLock => format!("*{w}.unlock().borrow_mut() = Some(child);"),
            CellKind::Lock => format!("{w}.unlock().set(Some(child));"),
            CellKind::OnceLock => format!("let _ = {w}.unlock().set(child);"),
        }
    }

    pub fn render(&self) -> String {
        let fty = self.field_ty();
        let fnew = self.field_new();
        let chain = match self.start {
            Start::Legit => format!("let w: &Write<Node> = Gc::write(mc, root.a);\n        let wf = field!(w, Node, f);\n        let cell = {};\n        {}", self.project(0), self.store("cell")),
            Start::FromMutRef => format!(
                "let mut r: &Node = &*root.a;\n        let w: &Write<Node> = Write::from_mut(&mut r).as_deref();\n        let wf = field!(w, Node, f);\n        let cell = {};\n        {}",
                self.project(0),
                self.store("cell")
            ),
            Start::FromStatic => format!("let w: &Write<Node> = Write::from_static(&*root.a);\n        let wf = field!(w, Node, f);\n        let cell = {};\n        {}", self.project(0), self.store("cell")),
            Start::FreshSibling => format!(
                "let temp = Gc::new(mc, Node {{ f: root.a.f.clone() }});\n        let w: &Write<Node> = Gc::write(mc, temp);\n        let wf = field!(w, Node, f);\n        let cell = {};\n        {}",
                self.project(0),
                self.store("cell")
            ),
            Start::CloneShared => format!("let mut local = root.a.f.clone();\n        let wf = Write::from_mut(&mut local);\n        let wf: &Write<_> = &*wf;\n        let cell = {};\n        {}", self.project(0), self.store("cell")),
            Start::NoWrite => {
                let path = self.path("root.a.f");
                format!("let lock = &{path};\n        {}", self.store("lock"))
            }
            Start::RefGuard | Start::RefMutGuard => String::new(),
            Start::FieldThroughRef => format!(
                "let mut r: &Node = &*root.a;\n        let w: &Write<&Node> = Write::from_mut(&mut r);\n        let wf = field!(w, Node, f);\n        let cell = {};\n        {}",
                self.project(0),
                self.store("cell")
            ),
        };
        if matches!(self.start, Start::RefGuard | Start::RefMutGuard) {
            let guard = if self.start == Start::RefGuard { "let mut guard = root.a.borrow();" } else { "let mut guard = root.a.borrow_mut(mc);" };
            let chain = format!("{guard}\n        let w: &Write<Node> = Write::from_mut(&mut guard).as_deref();\n        let wf = field!(w, Node, f);\n        let cell = {};\n        {}", self.project(0), self.store("cell"));
            let read = self.read("root.a.borrow().f");
            return format!(
                r#"{PRELUDE}
#[derive(Collect)]
#[collect(no_drop)]
struct Inner<T> {{ g: T }}
#[derive(Collect)]
#[collect(no_drop)]
struct Node<'gc> {{ f: {fty} }}
#[derive(Collect)]
#[collect(no_drop)]
struct Root<'gc> {{ a: Gc<'gc, RefLock<Node<'gc>>> }}

fn main() {{
    let mut arena = Arena::<Rootable![Root<'_>]>::new(|mc| Root {{ a: Gc::new(mc, RefLock::new(Node {{ f: {fnew} }})) }});
    arena.finish_marking();
    arena.mutate(|mc, root| {{
        let child: C = Gc::new(mc, Static(Child(7)));
        {chain}
    }});
    arena.finish_cycle();
    let held: bool = arena.mutate(|_mc, root| {read});
    let dropped = DROPPED.with(|d| d.get());
    if held && dropped > 0 {{
        println!("LOST: the child was destructed while it is still stored in a reachable object");
        std::process::exit(3);
    }}
    if !held {{
        println!("NOT-STORED");
        std::process::exit(4);
    }}
    arena.finish_cycle();
    if DROPPED.with(|d| d.get()) > 0 {{
        println!("LOST: the child was destructed by the following cycle");
        std::process::exit(3);
    }}
    println!("OK");
}}
"#
            );
        }
        let read = self.read("root.a.f");
        format!(
            r#"{PRELUDE}
#[derive(Collect)]
#[collect(no_drop)]
struct Inner<T> {{ g: T }}
#[derive(Collect)]
#[collect(no_drop)]
struct Node<'gc> {{ f: {fty} }}
#[derive(Collect)]
#[collect(no_drop)]
struct Root<'gc> {{ a: Gc<'gc, Node<'gc>> }}

fn main() {{
    let mut arena = Arena::<Rootable![Root<'_>]>::new(|mc| Root {{ a: Gc::new(mc, Node {{ f: {fnew} }}) }});
    // every object is fully traced now
    arena.finish_marking();
    arena.mutate(|mc, root| {{
        let child: C = Gc::new(mc, Static(Child(7)));
        {chain}
    }});
    arena.finish_cycle();
    let held: bool = arena.mutate(|_mc, root| {read});
    let dropped = DROPPED.with(|d| d.get());
    if held && dropped > 0 {{
        println!("LOST: the child was destructed while it is still stored in a reachable object");
        std::process::exit(3);
    }}
    if !held {{
        println!("NOT-STORED");
        std::process::exit(4);
    }}
    // one more full cycle with the child in place
    arena.finish_cycle();
    if DROPPED.with(|d| d.get()) > 0 {{
        println!("LOST: the child was destructed by the following cycle");
        std::process::exit(3);
    }}
    println!("OK");
}}
"#
        )
    }
}

pub fn shape_strategy() -> BoxedStrategy<Shape> {
    let cell = prop_oneof![Just(CellKind::RefLock), Just(CellKind::Lock), Just(CellKind::OnceLock)];
    let wrap = prop_oneof![
        3 => Just(Wrap::Box),
        3 => Just(Wrap::Rc),
        2 => Just(Wrap::Arc),
        2 => Just(Wrap::Vec),
        1 => Just(Wrap::Arr),
        2 => Just(Wrap::Opt),
        1 => Just(Wrap::Res),
        2 => Just(Wrap::Inner),
        1 => Just(Wrap::Deque),
        1 => Just(Wrap::BTree),
        1 => Just(Wrap::Hash),
        1 => Just(Wrap::PinBox),
        1 => Just(Wrap::PinRc),
        1 => Just(Wrap::Cow),
    ];
    let start = prop_oneof![
        4 => Just(Start::Legit),
        3 => Just(Start::FromMutRef),
        1 => Just(Start::FromStatic),
        3 => Just(Start::FreshSibling),
        3 => Just(Start::CloneShared),
        1 => Just(Start::NoWrite),
        1 => Just(Start::FieldThroughRef),
        3 => Just(Start::RefGuard),
        1 => Just(Start::RefMutGuard),
    ];
    (cell, proptest::collection::vec(wrap, 0..=4), start)
        .prop_map(|(cell, mut wraps, start)| {
            // starts that need a shared first wrapper get one by construction
            if matches!(start, Start::FreshSibling | Start::CloneShared) && !wraps.first().map(|w| w.shared()).unwrap_or(false) {
                wraps.insert(0, Wrap::Rc);
            }
            Shape { cell, wraps, start }
        })
        .boxed()
}

/// Fixed probes for the remaining clauses of the statement (each must be rejected or run clean).
pub fn fixed_programs() -> Vec<(String, String)> {
    let body = |items: &str, init: &str, chain: &str, read: &str| {
        format!(
            r#"{PRELUDE}
{items}
fn main() {{
    let mut arena = Arena::<Rootable![Root<'_>]>::new(|mc| {init});
    arena.finish_marking();
    arena.mutate(|mc, root| {{
        let child: C = Gc::new(mc, Static(Child(7)));
        {chain}
    }});
    arena.finish_cycle();
    let held: bool = arena.mutate(|_mc, root| {read});
    if held && DROPPED.with(|d| d.get()) > 0 {{ println!("LOST"); std::process::exit(3); }}
    println!("OK");
}}
"#
        )
    };
    vec![
        (
            "plain Cell field in a derived type".into(),
            body(
                "#[derive(Collect)]\n#[collect(no_drop)]\nstruct Root<'gc> { c: Cell<Option<C<'gc>>> }",
                "Root { c: Cell::new(None) }",
                "root.c.set(Some(child));",
                "{ let v = root.c.take(); let h = v.is_some(); root.c.set(v); h }",
            ),
        ),
        (
            "plain RefCell field in a derived type".into(),
            body("#[derive(Collect)]\n#[collect(no_drop)]\nstruct Root<'gc> { c: RefCell<Option<C<'gc>>> }", "Root { c: RefCell::new(None) }", "*root.c.borrow_mut() = Some(child);", "root.c.borrow().is_some()"),
        ),
        (
            "plain OnceCell field in a derived type".into(),
            body("#[derive(Collect)]\n#[collect(no_drop)]\nstruct Root<'gc> { c: std::cell::OnceCell<C<'gc>> }", "Root { c: std::cell::OnceCell::new() }", "let _ = root.c.set(child);", "root.c.get().is_some()"),
        ),
        (
            "plain Mutex field in a derived type".into(),
            body("#[derive(Collect)]\n#[collect(no_drop)]\nstruct Root<'gc> { c: std::sync::Mutex<Option<C<'gc>>> }", "Root { c: std::sync::Mutex::new(None) }", "*root.c.lock().unwrap() = Some(child);", "root.c.lock().unwrap().is_some()"),
        ),
        (
            "plain RwLock field in a derived type".into(),
            body("#[derive(Collect)]\n#[collect(no_drop)]\nstruct Root<'gc> { c: std::sync::RwLock<Option<C<'gc>>> }", "Root { c: std::sync::RwLock::new(None) }", "*root.c.write().unwrap() = Some(child);", "root.c.read().unwrap().is_some()"),
        ),
        (
            "Gc<RefCell<..>> allocation".into(),
            body(
                "#[derive(Collect)]\n#[collect(no_drop)]\nstruct Root<'gc> { c: Gc<'gc, RefCell<Option<C<'gc>>>> }",
                "Root { c: Gc::new(mc, RefCell::new(None)) }",
                "*root.c.borrow_mut() = Some(child);",
                "root.c.borrow().is_some()",
            ),
        ),
        (
            "RefLock::as_ptr write without unsafe".into(),
            body(
                "#[derive(Collect)]\n#[collect(no_drop)]\nstruct Root<'gc> { c: Gc<'gc, RefLock<Option<C<'gc>>>> }",
                "Root { c: Gc::new(mc, RefLock::new(None)) }",
                "*root.c.as_ptr() = Some(child);",
                "root.c.borrow().is_some()",
            ),
        ),
        (
            "Gc<Cell<..>> allocation".into(),
            body(
                "#[derive(Collect)]\n#[collect(no_drop)]\nstruct Root<'gc> { c: Gc<'gc, Cell<Option<C<'gc>>>> }",
                "Root { c: Gc::new(mc, Cell::new(None)) }",
                "root.c.set(Some(child));",
                "{ let v = root.c.take(); let h = v.is_some(); root.c.set(v); h }",
            ),
        ),
        (
            "Lock::as_cell without unsafe".into(),
            body("#[derive(Collect)]\n#[collect(no_drop)]\nstruct Root<'gc> { c: Gc<'gc, Lock<Option<C<'gc>>>> }", "Root { c: Gc::new(mc, Lock::new(None)) }", "root.c.as_cell().set(Some(child));", "root.c.get().is_some()"),
        ),
        (
            "RefLock::as_ref_cell without unsafe".into(),
            body(
                "#[derive(Collect)]\n#[collect(no_drop)]\nstruct Root<'gc> { c: Gc<'gc, RefLock<Option<C<'gc>>>> }",
                "Root { c: Gc::new(mc, RefLock::new(None)) }",
                "*root.c.as_ref_cell().borrow_mut() = Some(child);",
                "root.c.borrow().is_some()",
            ),
        ),
        (
            "Write::__from_ref_and_ptr (hidden helper of field!) without unsafe".into(),
            body(
                "#[derive(Collect)]\n#[collect(no_drop)]\nstruct Root<'gc> { c: Gc<'gc, RefLock<Option<C<'gc>>>> }",
                "Root { c: Gc::new(mc, RefLock::new(None)) }",
                "let r: &RefLock<Option<C>> = &*root.c; *Write::__from_ref_and_ptr(r, r as *const _).unlock().borrow_mut() = Some(child);",
                "root.c.borrow().is_some()",
            ),
        ),
        (
            "Write::assume without unsafe".into(),
            body(
                "#[derive(Collect)]\n#[collect(no_drop)]\nstruct Root<'gc> { c: Gc<'gc, RefLock<Option<C<'gc>>>> }",
                "Root { c: Gc::new(mc, RefLock::new(None)) }",
                "*Write::assume(&*root.c).unlock().borrow_mut() = Some(child);",
                "root.c.borrow().is_some()",
            ),
        ),
        (
            "hand-written Unlock impl".into(),
            body(
                "struct My<'gc>(RefCell<Option<C<'gc>>>);\nimpl<'gc> gc_arena::barrier::Unlock for My<'gc> { type Unlocked = RefCell<Option<C<'gc>>>; unsafe fn unlock_unchecked(&self) -> &Self::Unlocked { &self.0 } }\n#[derive(Collect)]\n#[collect(no_drop)]\nstruct Root<'gc> { c: Gc<'gc, RefLock<Option<C<'gc>>>> }",
                "Root { c: Gc::new(mc, RefLock::new(None)) }",
                "let _ = child;",
                "root.c.borrow().is_some()",
            ),
        ),
        (
            "unlock on a bare &RefLock".into(),
            body(
                "#[derive(Collect)]\n#[collect(no_drop)]\nstruct Root<'gc> { c: Gc<'gc, RefLock<Option<C<'gc>>>> }",
                "Root { c: Gc::new(mc, RefLock::new(None)) }",
                "let l: &RefLock<Option<C>> = &*root.c; *l.unlock().borrow_mut() = Some(child);",
                "root.c.borrow().is_some()",
            ),
        ),
        (
            "field! through a Gc dereference".into(),
            body(
                "#[derive(Collect)]\n#[collect(no_drop)]\nstruct N<'gc> { f: RefLock<Option<C<'gc>>> }\n#[derive(Collect)]\n#[collect(no_drop)]\nstruct Root<'gc> { outer: Gc<'gc, Gc<'gc, N<'gc>>> }",
                "Root { outer: Gc::new(mc, Gc::new(mc, N { f: RefLock::new(None) })) }",
                "let w = Gc::write(mc, root.outer); *field!(w, N, f).unlock().borrow_mut() = Some(child);",
                "root.outer.f.borrow().is_some()",
            ),
        ),
        (
            "Write through Gc::as_deref (Gc is not DerefWrite)".into(),
            body(
                "#[derive(Collect)]\n#[collect(no_drop)]\nstruct N<'gc> { f: RefLock<Option<C<'gc>>> }\n#[derive(Collect)]\n#[collect(no_drop)]\nstruct Root<'gc> { outer: Gc<'gc, Gc<'gc, N<'gc>>> }",
                "Root { outer: Gc::new(mc, Gc::new(mc, N { f: RefLock::new(None) })) }",
                "let w = Gc::write(mc, root.outer).as_deref(); *field!(w, N, f).unlock().borrow_mut() = Some(child);",
                "root.outer.f.borrow().is_some()",
            ),
        ),
        (
            "field! with a dotted path through a Gc field".into(),
            body(
                "#[derive(Collect)]\n#[collect(no_drop)]\nstruct N<'gc> { f: RefLock<Option<C<'gc>>> }\n#[derive(Collect)]\n#[collect(no_drop)]\nstruct O<'gc> { inner: Gc<'gc, N<'gc>> }\n#[derive(Collect)]\n#[collect(no_drop)]\nstruct Root<'gc> { outer: Gc<'gc, O<'gc>> }",
                "Root { outer: Gc::new(mc, O { inner: Gc::new(mc, N { f: RefLock::new(None) }) }) }",
                "let w = Gc::write(mc, root.outer); *field!(w, O, inner.f).unlock().borrow_mut() = Some(child);",
                "root.outer.inner.f.borrow().is_some()",
            ),
        ),
        (
            "unlock! with a dotted path through a Gc field".into(),
            body(
                "#[derive(Collect)]\n#[collect(no_drop)]\nstruct N<'gc> { f: RefLock<Option<C<'gc>>> }\n#[derive(Collect)]\n#[collect(no_drop)]\nstruct O<'gc> { inner: Gc<'gc, N<'gc>> }\n#[derive(Collect)]\n#[collect(no_drop)]\nstruct Root<'gc> { outer: Gc<'gc, O<'gc>> }",
                "Root { outer: Gc::new(mc, O { inner: Gc::new(mc, N { f: RefLock::new(None) }) }) }",
                "let w = Gc::write(mc, root.outer); *unlock!(w, O, inner.f).borrow_mut() = Some(child);",
                "root.outer.inner.f.borrow().is_some()",
            ),
        ),
        (
            "field! with a dotted path through a shared Rc".into(),
            body(
                "#[derive(Collect)]\n#[collect(no_drop)]\nstruct N<'gc> { f: RefLock<Option<C<'gc>>> }\n#[derive(Collect)]\n#[collect(no_drop)]\nstruct O<'gc> { inner: Rc<N<'gc>> }\n#[derive(Collect)]\n#[collect(no_drop)]\nstruct Root<'gc> { a: Gc<'gc, O<'gc>> }",
                "Root { a: Gc::new(mc, O { inner: Rc::new(N { f: RefLock::new(None) }) }) }",
                "let temp = Gc::new(mc, O { inner: root.a.inner.clone() }); let w = Gc::write(mc, temp); *field!(w, O, inner.f).unlock().borrow_mut() = Some(child);",
                "root.a.inner.f.borrow().is_some()",
            ),
        ),
        (
            "field! with an index expression into a Vec of Gc".into(),
            body(
                "#[derive(Collect)]\n#[collect(no_drop)]\nstruct N<'gc> { f: RefLock<Option<C<'gc>>> }\n#[derive(Collect)]\n#[collect(no_drop)]\nstruct O<'gc> { v: Vec<Gc<'gc, N<'gc>>> }\n#[derive(Collect)]\n#[collect(no_drop)]\nstruct Root<'gc> { outer: Gc<'gc, O<'gc>> }",
                "Root { outer: Gc::new(mc, O { v: vec![Gc::new(mc, N { f: RefLock::new(None) })] }) }",
                "let w = Gc::write(mc, root.outer); *field!(w, O, v[0].f).unlock().borrow_mut() = Some(child);",
                "root.outer.v[0].f.borrow().is_some()",
            ),
        ),
        (
            "field! on a dereferenced Write".into(),
            body(
                "#[derive(Collect)]\n#[collect(no_drop)]\nstruct N<'gc> { f: RefLock<Option<C<'gc>>> }\n#[derive(Collect)]\n#[collect(no_drop)]\nstruct Root<'gc> { outer: Gc<'gc, Gc<'gc, N<'gc>>> }",
                "Root { outer: Gc::new(mc, Gc::new(mc, N { f: RefLock::new(None) })) }",
                "let w = Gc::write(mc, root.outer); let inner: &N = &**w; *field!(Write::from_static(inner), N, f).unlock().borrow_mut() = Some(child);",
                "root.outer.f.borrow().is_some()",
            ),
        ),
        (
            "require_static RefCell field under an explicit bound".into(),
            body(
                "#[derive(Collect)]\n#[collect(no_drop, bound = \"\")]\nstruct H<'gc> { #[collect(require_static)] slot: RefCell<Option<C<'gc>>> }\n#[derive(Collect)]\n#[collect(no_drop)]\nstruct Root<'gc> { h: Gc<'gc, H<'gc>> }",
                "Root { h: Gc::new(mc, H { slot: RefCell::new(None) }) }",
                "*root.h.slot.borrow_mut() = Some(child);",
                "root.h.slot.borrow().is_some()",
            ),
        ),
        (
            "whole-type require_static holder under an explicit bound".into(),
            body(
                "#[derive(Collect)]\n#[collect(require_static, bound = \"\")]\nstruct H<'gc> { slot: RefCell<Option<C<'gc>>> }\n#[derive(Collect)]\n#[collect(no_drop)]\nstruct Root<'gc> { h: Gc<'gc, H<'gc>> }",
                "Root { h: Gc::new(mc, H { slot: RefCell::new(None) }) }",
                "*root.h.slot.borrow_mut() = Some(child);",
                "root.h.slot.borrow().is_some()",
            ),
        ),
        (
            "derive(Collect) with an impl body injected through the bound string".into(),
            body(
                "#[derive(Collect)]\n#[collect(no_drop, bound = \"where Self: Sized { const NEEDS_TRACE: bool = false; } macro_rules! eat {($($t:tt)*)=>{}} eat!\")]\nstruct Hd<'gc> { slot: RefCell<Option<C<'gc>>> }\n#[derive(Collect)]\n#[collect(no_drop)]\nstruct Root<'gc> { h: Gc<'gc, Hd<'gc>> }",
                "Root { h: Gc::new(mc, Hd { slot: RefCell::new(None) }) }",
                "*root.h.slot.borrow_mut() = Some(child);",
                "root.h.slot.borrow().is_some()",
            ),
        ),
        (
            "dyn_collect! with an impl body injected through the where clause".into(),
            body(
                "trait Tr<'gc>: 'gc + gc_arena::collect::DynCollect<'gc> { fn slot(&self) -> Gc<'gc, Lock<Option<C<'gc>>>>; }\n#[derive(Collect)]\n#[collect(no_drop)]\nstruct Im<'gc>(Gc<'gc, Lock<Option<C<'gc>>>>);\nimpl<'gc> Tr<'gc> for Im<'gc> { fn slot(&self) -> Gc<'gc, Lock<Option<C<'gc>>>> { self.0 } }\ntrait Decoy<'gc> { fn trace<_T: gc_arena::collect::Trace<'gc>>(&self, cc: &mut _T); }\ngc_arena::collect::dyn_collect!(<'x> dyn Tr<'gc> where 'gc: 'x { fn trace<T: gc_arena::collect::Trace<'gc>>(&self, _cc: &mut T) {} } impl<'gc> Decoy<'gc> for u8);\n#[derive(Collect)]\n#[collect(no_drop)]\nstruct Root<'gc> { b: Box<dyn Tr<'gc> + 'gc> }",
                "Root { b: Box::new(Im(Gc::new(mc, Lock::new(None)))) }",
                "root.b.slot().set(mc, Some(child));",
                "true",
            ),
        ),
        (
            "dyn_collect! with an impl body injected after the type".into(),
            body(
                "trait Tr<'gc>: 'gc + gc_arena::collect::DynCollect<'gc> { fn slot(&self) -> Gc<'gc, Lock<Option<C<'gc>>>>; }\n#[derive(Collect)]\n#[collect(no_drop)]\nstruct Im<'gc>(Gc<'gc, Lock<Option<C<'gc>>>>);\nimpl<'gc> Tr<'gc> for Im<'gc> { fn slot(&self) -> Gc<'gc, Lock<Option<C<'gc>>>> { self.0 } }\ntrait Decoy<'gc> { fn trace<_T: gc_arena::collect::Trace<'gc>>(&self, cc: &mut _T); }\ngc_arena::collect::dyn_collect!(dyn Tr<'gc> { fn trace<T: gc_arena::collect::Trace<'gc>>(&self, _cc: &mut T) {} } impl<'gc> Decoy<'gc> for u8);\n#[derive(Collect)]\n#[collect(no_drop)]\nstruct Root<'gc> { b: Box<dyn Tr<'gc> + 'gc> }",
                "Root { b: Box::new(Im(Gc::new(mc, Lock::new(None)))) }",
                "root.b.slot().set(mc, Some(child));",
                "true",
            ),
        ),
        (
            "dyn_collect! used as documented (control)".into(),
            body(
                "trait Tr<'gc>: 'gc + gc_arena::collect::DynCollect<'gc> { fn slot(&self) -> Gc<'gc, Lock<Option<C<'gc>>>>; }\n#[derive(Collect)]\n#[collect(no_drop)]\nstruct Im<'gc>(Gc<'gc, Lock<Option<C<'gc>>>>);\nimpl<'gc> Tr<'gc> for Im<'gc> { fn slot(&self) -> Gc<'gc, Lock<Option<C<'gc>>>> { self.0 } }\ntrait Decoy<'gc> { fn trace<_T: gc_arena::collect::Trace<'gc>>(&self, cc: &mut _T); }\ngc_arena::collect::dyn_collect!(dyn Tr<'gc>);\n#[derive(Collect)]\n#[collect(no_drop)]\nstruct Root<'gc> { b: Box<dyn Tr<'gc> + 'gc> }",
                "Root { b: Box::new(Im(Gc::new(mc, Lock::new(None)))) }",
                "root.b.slot().set(mc, Some(child));",
                "true",
            ),
        ),
        (
            "dyn_collect! on a sized type with a Cell holding a pointer".into(),
            body(
                "struct H<'a>(Cell<Option<C<'a>>>);\ngc_arena::collect::dyn_collect!(<'a> H<'a>);\n#[derive(Collect)]\n#[collect(no_drop)]\nstruct Root<'gc> { h: Gc<'gc, H<'gc>> }",
                "Root { h: Gc::new(mc, H(Cell::new(None))) }",
                "root.h.0.set(Some(child));",
                "root.h.0.get().is_some()",
            ),
        ),
        (
            "dyn_collect! on a sized type, plain arm".into(),
            body(
                "struct H<'gc>(Cell<Option<C<'gc>>>);\ngc_arena::collect::dyn_collect!(H<'gc>);\n#[derive(Collect)]\n#[collect(no_drop)]\nstruct Root<'gc> { h: Gc<'gc, H<'gc>> }",
                "Root { h: Gc::new(mc, H(Cell::new(None))) }",
                "root.h.0.set(Some(child));",
                "root.h.0.get().is_some()",
            ),
        ),
        (
            "static_collect! on a RefCell holder of a pointer".into(),
            body(
                "struct H<'a>(RefCell<Option<C<'a>>>);\ngc_arena::static_collect!(<T> H<'gc>);\n#[derive(Collect)]\n#[collect(no_drop)]\nstruct Root<'gc> { h: Gc<'gc, H<'gc>> }",
                "Root { h: Gc::new(mc, H(RefCell::new(None))) }",
                "*root.h.0.borrow_mut() = Some(child);",
                "root.h.0.borrow().is_some()",
            ),
        ),
        (
            "third-party index type on an array (Index impl crosses a Gc)".into(),
            body(
                "#[derive(Collect)]\n#[collect(no_drop)]\nstruct M<'gc> { f: RefLock<Option<C<'gc>>> }\n#[derive(Collect)]\n#[collect(no_drop)]\nstruct N<'gc> { inner: Gc<'gc, M<'gc>> }\nstruct First;\nimpl<'gc> std::ops::Index<First> for [N<'gc>] { type Output = RefLock<Option<C<'gc>>>; fn index(&self, _: First) -> &Self::Output { &self[0].inner.f } }\n#[derive(Collect)]\n#[collect(no_drop)]\nstruct Root<'gc> { holder: Gc<'gc, [N<'gc>; 1]> }",
                "Root { holder: Gc::new(mc, [N { inner: Gc::new(mc, M { f: RefLock::new(None) }) }]) }",
                "let w = Gc::write(mc, root.holder); *w[First].unlock().borrow_mut() = Some(child);",
                "root.holder[0].inner.f.borrow().is_some()",
            ),
        ),
        (
            "third-party index type on a Vec, impl on the slice".into(),
            body(
                "#[derive(Collect)]\n#[collect(no_drop)]\nstruct M<'gc> { f: RefLock<Option<C<'gc>>> }\n#[derive(Collect)]\n#[collect(no_drop)]\nstruct N<'gc> { inner: Gc<'gc, M<'gc>> }\nstruct First;\nimpl<'gc> std::ops::Index<First> for [N<'gc>] { type Output = RefLock<Option<C<'gc>>>; fn index(&self, _: First) -> &Self::Output { &self[0].inner.f } }\nimpl<'gc> std::ops::Index<First> for Vec<N<'gc>> { type Output = RefLock<Option<C<'gc>>>; fn index(&self, _: First) -> &Self::Output { &self[0].inner.f } }\n#[derive(Collect)]\n#[collect(no_drop)]\nstruct Root<'gc> { holder: Gc<'gc, Vec<N<'gc>>> }",
                "Root { holder: Gc::new(mc, vec![N { inner: Gc::new(mc, M { f: RefLock::new(None) }) }]) }",
                "let w = Gc::write(mc, root.holder); *w[First].unlock().borrow_mut() = Some(child);",
                "root.holder[0].inner.f.borrow().is_some()",
            ),
        ),
        (
            "third-party index type on a VecDeque".into(),
            body(
                "#[derive(Collect)]\n#[collect(no_drop)]\nstruct M<'gc> { f: RefLock<Option<C<'gc>>> }\n#[derive(Collect)]\n#[collect(no_drop)]\nstruct N<'gc> { inner: Gc<'gc, M<'gc>> }\nstruct First;\nimpl<'gc> std::ops::Index<First> for VecDeque<N<'gc>> { type Output = RefLock<Option<C<'gc>>>; fn index(&self, _: First) -> &Self::Output { &self[0].inner.f } }\n#[derive(Collect)]\n#[collect(no_drop)]\nstruct Root<'gc> { holder: Gc<'gc, VecDeque<N<'gc>>> }",
                "Root { holder: Gc::new(mc, VecDeque::from(vec![N { inner: Gc::new(mc, M { f: RefLock::new(None) }) }])) }",
                "let w = Gc::write(mc, root.holder); *w[First].unlock().borrow_mut() = Some(child);",
                "root.holder[0].inner.f.borrow().is_some()",
            ),
        ),
        (
            "third-party index type on a boxed slice".into(),
            body(
                "#[derive(Collect)]\n#[collect(no_drop)]\nstruct M<'gc> { f: RefLock<Option<C<'gc>>> }\n#[derive(Collect)]\n#[collect(no_drop)]\nstruct N<'gc> { inner: Gc<'gc, M<'gc>> }\nstruct First;\nimpl<'gc> std::ops::Index<First> for [N<'gc>] { type Output = RefLock<Option<C<'gc>>>; fn index(&self, _: First) -> &Self::Output { &self[0].inner.f } }\n#[derive(Collect)]\n#[collect(no_drop)]\nstruct Root<'gc> { holder: Gc<'gc, Box<[N<'gc>]>> }",
                "Root { holder: Gc::new(mc, vec![N { inner: Gc::new(mc, M { f: RefLock::new(None) }) }].into_boxed_slice()) }",
                "let w = Gc::write(mc, root.holder).as_deref(); *w[First].unlock().borrow_mut() = Some(child);",
                "root.holder[0].inner.f.borrow().is_some()",
            ),
        ),
        (
            "root replaced through mutate_root while Marked".into(),
            format!(
                r#"{PRELUDE}
#[derive(Collect)]
#[collect(no_drop)]
struct Root<'gc> {{ c: Option<C<'gc>> }}
fn main() {{
    let mut arena = Arena::<Rootable![Root<'_>]>::new(|_mc| Root {{ c: None }});
    arena.finish_marking();
    arena.mutate_root(|mc, root| {{ root.c = Some(Gc::new(mc, Static(Child(7)))); }});
    arena.finish_cycle();
    let held: bool = arena.mutate(|_mc, root| root.c.is_some());
    if held && DROPPED.with(|d| d.get()) > 0 {{ println!("LOST"); std::process::exit(3); }}
    if !held {{ println!("NOT-STORED"); std::process::exit(4); }}
    arena.finish_cycle();
    if DROPPED.with(|d| d.get()) > 0 {{ println!("LOST"); std::process::exit(3); }}
    println!("OK");
}}
"#
            ),
        ),
        (
            "root replaced through map_root while Marked".into(),
            format!(
                r#"{PRELUDE}
#[derive(Collect)]
#[collect(no_drop)]
struct Root<'gc> {{ c: Option<C<'gc>> }}
fn main() {{
    let mut arena = Arena::<Rootable![Root<'_>]>::new(|_mc| Root {{ c: None }});
    arena.finish_marking();
    let mut arena = arena.map_root::<Rootable![Root<'_>]>(|mc, _old| Root {{ c: Some(Gc::new(mc, Static(Child(7)))) }});
    arena.finish_cycle();
    let held: bool = arena.mutate(|_mc, root| root.c.is_some());
    if held && DROPPED.with(|d| d.get()) > 0 {{ println!("LOST"); std::process::exit(3); }}
    if !held {{ println!("NOT-STORED"); std::process::exit(4); }}
    arena.finish_cycle();
    if DROPPED.with(|d| d.get()) > 0 {{ println!("LOST"); std::process::exit(3); }}
    println!("OK");
}}
"#
            ),
        ),
        (
            "root replaced through try_map_root while Marked".into(),
            format!(
                r#"{PRELUDE}
#[derive(Collect)]
#[collect(no_drop)]
struct Root<'gc> {{ c: Option<C<'gc>> }}
fn main() {{
    let mut arena = Arena::<Rootable![Root<'_>]>::new(|_mc| Root {{ c: None }});
    arena.finish_marking();
    let mut arena = arena.try_map_root::<Rootable![Root<'_>], ()>(|mc, _old| Ok(Root {{ c: Some(Gc::new(mc, Static(Child(7)))) }})).ok().unwrap();
    arena.finish_cycle();
    let held: bool = arena.mutate(|_mc, root| root.c.is_some());
    if held && DROPPED.with(|d| d.get()) > 0 {{ println!("LOST"); std::process::exit(3); }}
    if !held {{ println!("NOT-STORED"); std::process::exit(4); }}
    arena.finish_cycle();
    if DROPPED.with(|d| d.get()) > 0 {{ println!("LOST"); std::process::exit(3); }}
    println!("OK");
}}
"#
            ),
        ),
        (
            "downstream Index<&Local> impl on a BTreeMap (Local is not Ord, the impl crosses a Gc)".into(),
            body(
                "#[derive(Collect)]\n#[collect(no_drop)]\nstruct M<'gc> { f: RefLock<Option<C<'gc>>> }\n#[derive(Collect)]\n#[collect(no_drop)]\nstruct N<'gc> { inner: Gc<'gc, M<'gc>> }\nstruct Hop;\nimpl<'a, 'gc> std::ops::Index<&'a Hop> for BTreeMap<u8, N<'gc>> { type Output = RefLock<Option<C<'gc>>>; fn index(&self, _: &'a Hop) -> &Self::Output { &self.get(&0u8).unwrap().inner.f } }\n#[derive(Collect)]\n#[collect(no_drop)]\nstruct Root<'gc> { holder: Gc<'gc, BTreeMap<u8, N<'gc>>> }",
                "Root { holder: Gc::new(mc, BTreeMap::from([(0u8, N { inner: Gc::new(mc, M { f: RefLock::new(None) }) })])) }",
                "let w = Gc::write(mc, root.holder); *w[&Hop].unlock().borrow_mut() = Some(child);",
                "root.holder.get(&0u8).unwrap().inner.f.borrow().is_some()",
            ),
        ),
        (
            "downstream Index<&Local> impl on a HashMap (Local is not Hash, the impl crosses a Gc)".into(),
            body(
                "#[derive(Collect)]\n#[collect(no_drop)]\nstruct M<'gc> { f: RefLock<Option<C<'gc>>> }\n#[derive(Collect)]\n#[collect(no_drop)]\nstruct N<'gc> { inner: Gc<'gc, M<'gc>> }\nstruct Hop;\nimpl<'a, 'gc> std::ops::Index<&'a Hop> for HashMap<u8, N<'gc>> { type Output = RefLock<Option<C<'gc>>>; fn index(&self, _: &'a Hop) -> &Self::Output { &self.get(&0u8).unwrap().inner.f } }\n#[derive(Collect)]\n#[collect(no_drop)]\nstruct Root<'gc> { holder: Gc<'gc, HashMap<u8, N<'gc>>> }",
                "Root { holder: Gc::new(mc, HashMap::from([(0u8, N { inner: Gc::new(mc, M { f: RefLock::new(None) }) })])) }",
                "let w = Gc::write(mc, root.holder); *w[&Hop].unlock().borrow_mut() = Some(child);",
                "root.holder.get(&0u8).unwrap().inner.f.borrow().is_some()",
            ),
        ),
        (
            // the two arguments of the call in field! are coerced at different points of inference:
            // an unsizing coercion that is still ambiguous falls back to a deref coercion for the
            // reference, while the cast is checked last and passes as an unsizing cast
            "field! with an ambiguous unsizing coercion that falls back to a user Deref impl".into(),
            body(
                "trait Super<X> {}\ntrait Sub<'gc>: Super<u8> + Super<u16> { fn other(&self) -> Gc<'gc, S<'gc, dyn Super<u8> + 'gc>>; }\n#[derive(Collect)]\n#[collect(no_drop)]\nstruct S<'gc, T: ?Sized> { slot: Lock<Option<C<'gc>>>, tail: T }\n#[derive(Collect)]\n#[collect(no_drop)]\nstruct Outer<F: ?Sized> { f: F }\nimpl<'gc> std::ops::Deref for S<'gc, dyn Sub<'gc> + 'gc> { type Target = S<'gc, dyn Super<u8> + 'gc>; fn deref(&self) -> &Self::Target { self.tail.other().as_ref() } }\n#[derive(Collect)]\n#[collect(no_drop)]\nstruct C2;\nimpl Super<u8> for C2 {}\n#[derive(Collect)]\n#[collect(no_drop)]\nstruct C1<'gc> { other: Gc<'gc, S<'gc, dyn Super<u8> + 'gc>> }\nimpl<'gc> Super<u8> for C1<'gc> {}\nimpl<'gc> Super<u16> for C1<'gc> {}\nimpl<'gc> Sub<'gc> for C1<'gc> { fn other(&self) -> Gc<'gc, S<'gc, dyn Super<u8> + 'gc>> { self.other } }\n#[derive(Collect)]\n#[collect(no_drop)]\nstruct Root<'gc> { holder: Gc<'gc, Outer<S<'gc, dyn Sub<'gc> + 'gc>>>, victim: Gc<'gc, S<'gc, dyn Super<u8> + 'gc>> }\nfn through<'a, 'gc>(w: &'a Write<Outer<S<'gc, dyn Sub<'gc> + 'gc>>>) -> &'a Write<S<'gc, dyn Super<u8> + 'gc>> { let r: &Write<S<'gc, dyn Super<_> + 'gc>> = field!(w, Outer, f); r }",
                "{ let victim: Gc<'_, S<'_, dyn Super<u8> + '_>> = gc_arena::unsize!(Gc::new(mc, S { slot: Lock::new(None), tail: C2 }) => S<'_, dyn Super<u8> + '_>); let holder: Gc<'_, Outer<S<'_, dyn Sub<'_> + '_>>> = gc_arena::unsize!(Gc::new(mc, Outer { f: S { slot: Lock::new(None), tail: C1 { other: victim } } }) => Outer<S<'_, dyn Sub<'_> + '_>>); Root { holder, victim } }",
                "let w = Gc::write(mc, root.holder); let v = through(w); field!(v, S, slot).unlock().set(Some(child));",
                "root.victim.slot.get().is_some() || root.holder.f.slot.get().is_some()",
            ),
        ),
        (
            "field! with an unambiguous unsizing coercion (control)".into(),
            body(
                "trait Super<X> {}\n#[derive(Collect)]\n#[collect(no_drop)]\nstruct S<'gc, T: ?Sized> { slot: Lock<Option<C<'gc>>>, tail: T }\n#[derive(Collect)]\n#[collect(no_drop)]\nstruct Outer<F: ?Sized> { f: F }\n#[derive(Collect)]\n#[collect(no_drop)]\nstruct C2;\nimpl Super<u8> for C2 {}\n#[derive(Collect)]\n#[collect(no_drop)]\nstruct Root<'gc> { holder: Gc<'gc, Outer<S<'gc, C2>>> }\nfn through<'a, 'gc>(w: &'a Write<Outer<S<'gc, C2>>>) -> &'a Write<S<'gc, dyn Super<u8> + 'gc>> { let r: &Write<S<'gc, dyn Super<u8> + 'gc>> = field!(w, Outer, f); r }",
                "Root { holder: Gc::new(mc, Outer { f: S { slot: Lock::new(None), tail: C2 } }) }",
                "let w = Gc::write(mc, root.holder); let v = through(w); field!(v, S, slot).unlock().set(Some(child));",
                "root.holder.f.slot.get().is_some()",
            ),
        ),
        (
            // the internal arms of the exported macro are as callable as its documented forms
            "dyn_collect! internal @emit arm called directly on a sized type".into(),
            body(
                "struct H<'a>(Cell<Option<C<'a>>>);\ntrait Decoy<'gc> { fn trace<_T: gc_arena::collect::Trace<'gc>>(&self, cc: &mut _T); }\ngc_arena::collect::dyn_collect!(@emit [] [H<'gc>] [Self: Sized { fn trace<T: gc_arena::collect::Trace<'gc>>(&self, cc: &mut T) { if let Some(p) = self.0.get() { cc.trace_gc(Gc::erase(p)); } } } impl<'gc> Decoy<'gc> for H<'gc>]);\n#[derive(Collect)]\n#[collect(no_drop)]\nstruct Root<'gc> { h: Gc<'gc, H<'gc>> }",
                "Root { h: Gc::new(mc, H(Cell::new(None))) }",
                "root.h.0.set(Some(child));",
                "root.h.0.get().is_some()",
            ),
        ),
        (
            "dyn_collect! internal @emit arm called directly, body injected for a trait object".into(),
            body(
                "trait Tr<'gc>: 'gc + gc_arena::collect::DynCollect<'gc> { fn slot(&self) -> Gc<'gc, Lock<Option<C<'gc>>>>; }\n#[derive(Collect)]\n#[collect(no_drop)]\nstruct Im<'gc>(Gc<'gc, Lock<Option<C<'gc>>>>);\nimpl<'gc> Tr<'gc> for Im<'gc> { fn slot(&self) -> Gc<'gc, Lock<Option<C<'gc>>>> { self.0 } }\ntrait Decoy<'gc> { fn trace<_T: gc_arena::collect::Trace<'gc>>(&self, cc: &mut _T); }\ngc_arena::collect::dyn_collect!(@emit [] [dyn Tr<'gc>] ['gc: 'gc { fn trace<T: gc_arena::collect::Trace<'gc>>(&self, _cc: &mut T) {} } impl<'gc> Decoy<'gc> for u8]);\n#[derive(Collect)]\n#[collect(no_drop)]\nstruct Root<'gc> { b: Box<dyn Tr<'gc> + 'gc> }",
                "Root { b: Box::new(Im(Gc::new(mc, Lock::new(None)))) }",
                "root.b.slot().set(mc, Some(child));",
                "true",
            ),
        ),
        (
            "dyn_collect! internal @split arm called directly on a sized type".into(),
            body(
                "struct H<'a>(Cell<Option<C<'a>>>);\ngc_arena::collect::dyn_collect!(@split [] [H<'gc>]);\n#[derive(Collect)]\n#[collect(no_drop)]\nstruct Root<'gc> { h: Gc<'gc, H<'gc>> }",
                "Root { h: Gc::new(mc, H(Cell::new(None))) }",
                "root.h.0.set(Some(child));",
                "root.h.0.get().is_some()",
            ),
        ),
        (
            "dyn_collect! internal @bounds arm called directly on a sized type".into(),
            body(
                "struct H<'a>(Cell<Option<C<'a>>>);\ngc_arena::collect::dyn_collect!(@bounds [] [H<'gc>] [Self: Sized]);\n#[derive(Collect)]\n#[collect(no_drop)]\nstruct Root<'gc> { h: Gc<'gc, H<'gc>> }",
                "Root { h: Gc::new(mc, H(Cell::new(None))) }",
                "root.h.0.set(Some(child));",
                "root.h.0.get().is_some()",
            ),
        ),
        (
            // `&'static T` is Collect (and never traced) only for T: 'static
            "Write::from_static on a &'static root that holds a Lock of a pointer".into(),
            body(
                "type Root<'gc> = &'static Lock<Option<C<'gc>>>;",
                "&*Box::leak(Box::new(Lock::new(None)))",
                "let slot: &Write<Lock<Option<C<'_>>>> = Write::from_static(*root); slot.unlock().set(Some(child));",
                "root.get().is_some()",
            ),
        ),
        (
            "Write::from_static on a &'static reference inside a tuple root".into(),
            body(
                "type Root<'gc> = (u8, &'static Lock<Option<C<'gc>>>);",
                "(0u8, &*Box::leak(Box::new(Lock::new(None))))",
                "let slot: &Write<Lock<Option<C<'_>>>> = Write::from_static(root.1); slot.unlock().set(Some(child));",
                "root.1.get().is_some()",
            ),
        ),
        (
            // KNOWN FINDING (KNOWN_FINDINGS.txt, signature non-wf-root-implies-static): a root type that
            // is well-formed only if 'gc: 'static hands that bound to every callback
            "non-wf-root-implies-static: Write::from_static on a &'static reference behind a Gc".into(),
            body(
                "type Root<'gc> = Gc<'gc, &'static Lock<Option<C<'gc>>>>;",
                "{ let l: &'static Lock<Option<C<'_>>> = &*Box::leak(Box::new(Lock::new(None))); Gc::new(mc, l) }",
                "let slot: &Write<Lock<Option<C<'_>>>> = Write::from_static(**root); slot.unlock().set(Some(child));",
                "root.get().is_some()",
            ),
        ),
        (
            "non-wf-root-implies-static: Write::from_static with a PhantomData marker in the root".into(),
            body(
                "type Root<'gc> = (std::marker::PhantomData<&'static Gc<'gc, ()>>, Gc<'gc, Lock<Option<C<'gc>>>>);",
                "(std::marker::PhantomData, Gc::new(mc, Lock::new(None)))",
                "let slot: &Write<Lock<Option<C<'_>>>> = Write::from_static(&*root.1); slot.unlock().set(Some(child));",
                "root.1.get().is_some()",
            ),
        ),
        (
            "Lock::take needs no barrier and adopts nothing".into(),
            body(
                "#[derive(Collect)]\n#[collect(no_drop)]\nstruct Root<'gc> { c: Gc<'gc, Lock<Option<C<'gc>>>> }",
                "Root { c: Gc::new(mc, Lock::new(None)) }",
                "let _ = root.c.take(); root.c.set(mc, Some(child));",
                "root.c.get().is_some()",
            ),
        ),
        (
            "sanctioned Gc<RefLock>::borrow_mut".into(),
            body(
                "#[derive(Collect)]\n#[collect(no_drop)]\nstruct Root<'gc> { c: Gc<'gc, RefLock<Option<C<'gc>>>> }",
                "Root { c: Gc::new(mc, RefLock::new(None)) }",
                "*root.c.borrow_mut(mc) = Some(child);",
                "root.c.borrow().is_some()",
            ),
        ),
        (
            "RefMut from borrow_mut, then Write::from_mut on the contents, through a shared Rc".into(),
            body(
                "#[derive(Collect)]\n#[collect(no_drop)]\nstruct Root<'gc> { a: Gc<'gc, RefLock<Rc<RefLock<Option<C<'gc>>>>>>, b: Gc<'gc, RefLock<Rc<RefLock<Option<C<'gc>>>>>> }",
                "{ let rc = Rc::new(RefLock::new(None)); Root { a: Gc::new(mc, RefLock::new(rc.clone())), b: Gc::new(mc, RefLock::new(rc)) } }",
                "let temp = Gc::new(mc, RefLock::new(root.a.borrow().clone())); let mut m = temp.borrow_mut(mc); *Write::from_mut(&mut *m).as_deref().unlock().borrow_mut() = Some(child);",
                "root.a.borrow().borrow().is_some()",
            ),
        ),
    ]
}
