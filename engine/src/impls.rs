//! C16: the provided Collect impls report every contained pointer, in every position.

use std::cell::Cell;
use std::collections::{BTreeMap, BTreeSet, BinaryHeap, HashMap, HashSet, LinkedList, VecDeque};
use std::rc::Rc;
use std::sync::Arc;

use gc_arena::collect::Trace;
use gc_arena::lock::{Lock, OnceLock, RefLock};
use gc_arena::{Arena, Collect, Gc, GcSliceWithHeaderBuilder, GcWeak, Mutation, Rootable};
use serde::{Deserialize, Serialize};

use crate::heap::Tok;
use crate::inputs::Outcome;
use crate::obs::{self, Ev};

/// Target of the generated pointers.
pub struct Target {
    tok: Tok,
    ord: u32,
}
gc_arena::static_collect!(Target);

/// One position of a container: a strong pointer, a weak pointer, or plain data.
#[derive(Copy, Clone, Collect)]
#[collect(no_drop)]
pub enum P<'gc> {
    S(Gc<'gc, Target>),
    W(GcWeak<'gc, Target>),
    N(u32),
}

impl<'gc> P<'gc> {
    fn ord(&self) -> u32 {
        match self {
            P::S(g) => g.ord,
            // weak targets are alive while the container is being built
            P::W(w) => unsafe { (*w.as_ptr()).ord },
            P::N(n) => *n,
        }
    }
}
impl<'gc> PartialEq for P<'gc> {
    fn eq(&self, o: &Self) -> bool {
        self.ord() == o.ord()
    }
}
impl<'gc> Eq for P<'gc> {}
impl<'gc> PartialOrd for P<'gc> {
    fn partial_cmp(&self, o: &Self) -> Option<std::cmp::Ordering> {
        Some(self.cmp(o))
    }
}
impl<'gc> Ord for P<'gc> {
    fn cmp(&self, o: &Self) -> std::cmp::Ordering {
        self.ord().cmp(&o.ord())
    }
}
impl<'gc> std::hash::Hash for P<'gc> {
    fn hash<H: std::hash::Hasher>(&self, h: &mut H) {
        self.ord().hash(h)
    }
}

#[derive(Default)]
pub struct Rec {
    pub strong: Vec<usize>,
    pub weak: Vec<usize>,
}
impl<'gc> Trace<'gc> for Rec {
    fn trace_gc(&mut self, gc: Gc<'gc, ()>) {
        self.strong.push(Gc::as_ptr(gc) as usize);
    }
    fn trace_gc_weak(&mut self, gc: GcWeak<'gc, ()>) {
        self.weak.push(gc.as_ptr() as usize);
    }
}

pub trait DynP<'gc>: 'gc + gc_arena::collect::DynCollect<'gc> {}
gc_arena::collect::dyn_collect!(dyn DynP<'gc>);
impl<'gc> DynP<'gc> for Vec<P<'gc>> {}

fn expect<'gc>(ps: &[P<'gc>]) -> (Vec<usize>, Vec<usize>) {
    let mut s = Vec::new();
    let mut w = Vec::new();
    for p in ps {
        match p {
            P::S(g) => s.push(Gc::as_ptr(*g) as usize),
            P::W(g) => w.push(g.as_ptr() as usize),
            P::N(_) => {}
        }
    }
    s.sort();
    w.sort();
    (s, w)
}

fn check<'gc, C: Collect<'gc> + ?Sized>(name: &str, c: &C, ps: &[P<'gc>], errs: &mut Vec<String>) {
    let mut rec = Rec::default();
    rec.trace(c);
    rec.strong.sort();
    rec.weak.sort();
    let (s, w) = expect(ps);
    if rec.strong != s {
        errs.push(format!("{name} with {} positions: trace reported {} strong pointers, the container holds {} ({})", ps.len(), rec.strong.len(), s.len(), diff(&rec.strong, &s)));
    }
    if rec.weak != w {
        errs.push(format!("{name} with {} positions: trace reported {} weak pointers, the container holds {} ({})", ps.len(), rec.weak.len(), w.len(), diff(&rec.weak, &w)));
    }
    if !C::NEEDS_TRACE {
        errs.push(format!("{name}: NEEDS_TRACE is false for a container type that can hold pointers"));
    }
}

fn diff(got: &[usize], want: &[usize]) -> String {
    let missing = want.iter().filter(|x| !got.contains(x)).count();
    let extra = got.iter().filter(|x| !want.contains(x)).count();
    format!("{missing} missing, {extra} not held")
}

fn fin<'gc, C: Collect<'gc> + 'gc>(mc: &Mutation<'gc>, name: &str, c: C, ps: &[P<'gc>], errs: &mut Vec<String>) -> Gc<'gc, ()> {
    check(name, &c, ps, errs);
    Gc::erase(Gc::new(mc, c))
}

fn pad<'gc, const N: usize>(ps: &[P<'gc>]) -> ([P<'gc>; N], Vec<P<'gc>>) {
    let arr: [P<'gc>; N] = std::array::from_fn(|i| ps.get(i).copied().unwrap_or(P::N(1_000_000 + i as u32)));
    let used: Vec<P<'gc>> = ps.iter().take(N).copied().collect();
    (arr, used)
}

#[derive(enum_map::Enum, Copy, Clone)]
pub enum EK {
    A,
    B,
    C,
    D,
}

pub type BuildFn = for<'gc> fn(&Mutation<'gc>, &[P<'gc>], u64, &mut Vec<String>) -> (Gc<'gc, ()>, usize);

macro_rules! tuple_entry {
    ($n:literal; $($i:tt)*) => {
        |mc, ps, _seed, errs| {
            let (a, used) = pad::<$n>(ps);
            let t = ($(a[$i],)*);
            (fin(mc, concat!("tuple", stringify!($n)), t, &used, errs), used.len())
        }
    };
}

pub fn table() -> Vec<(&'static str, BuildFn)> {
    let mut v: Vec<(&'static str, BuildFn)> = vec![
        ("Option", |mc, ps, _s, errs| {
            let o = ps.first().copied();
            (fin(mc, "Option", o, &ps[..ps.len().min(1)], errs), ps.len().min(1))
        }),
        ("Result::Ok", |mc, ps, _s, errs| {
            let p = ps.first().copied().unwrap_or(P::N(0));
            let r: Result<P, P> = Ok(p);
            (fin(mc, "Result::Ok", r, &ps[..ps.len().min(1)], errs), ps.len().min(1))
        }),
        ("Result::Err", |mc, ps, _s, errs| {
            let p = ps.first().copied().unwrap_or(P::N(0));
            let r: Result<P, P> = Err(p);
            (fin(mc, "Result::Err", r, &ps[..ps.len().min(1)], errs), ps.len().min(1))
        }),
        ("Result mixed", |mc, ps, s, errs| {
            let p = ps.first().copied().unwrap_or(P::N(0));
            let one = &ps[..ps.len().min(1)];
            match s % 4 {
                0 => (fin(mc, "Result<P, u8>::Ok", Ok::<P, u8>(p), one, errs), one.len()),
                1 => (fin(mc, "Result<u8, P>::Err", Err::<u8, P>(p), one, errs), one.len()),
                2 => (fin(mc, "Result<P, u8>::Err", Err::<P, u8>(3), &[], errs), 0),
                _ => (fin(mc, "Result<u8, P>::Ok", Ok::<u8, P>(3), &[], errs), 0),
            }
        }),
        ("tuple mixed", |mc, ps, s, errs| {
            let (a, used) = pad::<3>(ps);
            let u = |n: usize| &used[..used.len().min(n)];
            match s % 5 {
                0 => (fin(mc, "(u8, P)", (1u8, a[0]), u(1), errs), u(1).len()),
                1 => (fin(mc, "(P, u8)", (a[0], 1u8), u(1), errs), u(1).len()),
                2 => (fin(mc, "(u8, P, String, P)", (1u8, a[0], String::new(), a[1]), u(2), errs), u(2).len()),
                3 => (fin(mc, "(P, (), P, u64, P)", (a[0], (), a[1], 5u64, a[2]), u(3), errs), u(3).len()),
                _ => (fin(mc, "((u8, P), (P, u8), u8)", ((1u8, a[0]), (a[1], 2u8), 3u8), u(2), errs), u(2).len()),
            }
        }),
        ("array0", |mc, _ps, _s, errs| {
            let a: [P; 0] = [];
            (fin(mc, "[T; 0]", a, &[], errs), 0)
        }),
        ("array1", |mc, ps, _s, errs| {
            let (a, u) = pad::<1>(ps);
            (fin(mc, "[T; 1]", a, &u, errs), u.len())
        }),
        ("array7", |mc, ps, _s, errs| {
            let (a, u) = pad::<7>(ps);
            (fin(mc, "[T; 7]", a, &u, errs), u.len())
        }),
        ("array33", |mc, ps, _s, errs| {
            let (a, u) = pad::<33>(ps);
            (fin(mc, "[T; 33]", a, &u, errs), u.len())
        }),
        ("Box<[T]>", |mc, ps, _s, errs| (fin(mc, "Box<[T]>", ps.to_vec().into_boxed_slice(), ps, errs), ps.len())),
        ("Box<T>", |mc, ps, _s, errs| (fin(mc, "Box<Vec<T>>", Box::new(ps.to_vec()), ps, errs), ps.len())),
        ("Rc<T>", |mc, ps, _s, errs| (fin(mc, "Rc<Vec<T>>", Rc::new(ps.to_vec()), ps, errs), ps.len())),
        ("Rc<[T]>", |mc, ps, _s, errs| {
            let r: Rc<[P]> = Rc::from(ps.to_vec());
            (fin(mc, "Rc<[T]>", r, ps, errs), ps.len())
        }),
        ("Arc<T>", |mc, ps, _s, errs| (fin(mc, "Arc<Vec<T>>", Arc::new(ps.to_vec()), ps, errs), ps.len())),
        ("Vec", |mc, ps, _s, errs| (fin(mc, "Vec", ps.to_vec(), ps, errs), ps.len())),
        ("VecDeque", |mc, ps, seed, errs| {
            // wrap around the ring buffer
            let mut d: VecDeque<P> = VecDeque::with_capacity(ps.len().max(2));
            let k = (seed as usize) % (ps.len() + 1);
            for p in &ps[k..] {
                d.push_back(*p);
            }
            for p in ps[..k].iter().rev() {
                d.push_front(*p);
            }
            (fin(mc, "VecDeque", d, ps, errs), ps.len())
        }),
        ("LinkedList", |mc, ps, _s, errs| (fin(mc, "LinkedList", ps.iter().copied().collect::<LinkedList<P>>(), ps, errs), ps.len())),
        ("BinaryHeap", |mc, ps, _s, errs| (fin(mc, "BinaryHeap", ps.iter().copied().collect::<BinaryHeap<P>>(), ps, errs), ps.len())),
        ("BTreeSet", |mc, ps, _s, errs| (fin(mc, "BTreeSet", ps.iter().copied().collect::<BTreeSet<P>>(), ps, errs), ps.len())),
        ("BTreeMap keys", |mc, ps, _s, errs| (fin(mc, "BTreeMap (keys)", ps.iter().map(|p| (*p, 0u8)).collect::<BTreeMap<P, u8>>(), ps, errs), ps.len())),
        ("BTreeMap values", |mc, ps, _s, errs| (fin(mc, "BTreeMap (values)", ps.iter().enumerate().map(|(i, p)| (i as u32, *p)).collect::<BTreeMap<u32, P>>(), ps, errs), ps.len())),
        ("BTreeMap both", |mc, ps, _s, errs| {
            let n = ps.len() / 2;
            let m: BTreeMap<P, P> = (0..n).map(|i| (ps[2 * i], ps[2 * i + 1])).collect();
            (fin(mc, "BTreeMap (keys and values)", m, &ps[..2 * n], errs), 2 * n)
        }),
        ("HashSet", |mc, ps, _s, errs| (fin(mc, "HashSet", ps.iter().copied().collect::<HashSet<P>>(), ps, errs), ps.len())),
        ("HashMap keys", |mc, ps, _s, errs| (fin(mc, "HashMap (keys)", ps.iter().map(|p| (*p, 0u8)).collect::<HashMap<P, u8>>(), ps, errs), ps.len())),
        ("HashMap values", |mc, ps, _s, errs| (fin(mc, "HashMap (values)", ps.iter().enumerate().map(|(i, p)| (i as u32, *p)).collect::<HashMap<u32, P>>(), ps, errs), ps.len())),
        ("HashMap both", |mc, ps, _s, errs| {
            let n = ps.len() / 2;
            let m: HashMap<P, P> = (0..n).map(|i| (ps[2 * i], ps[2 * i + 1])).collect();
            (fin(mc, "HashMap (keys and values)", m, &ps[..2 * n], errs), 2 * n)
        }),
        ("Lock", |mc, ps, _s, errs| {
            let p = ps.first().copied().unwrap_or(P::N(0));
            (fin(mc, "Lock", Lock::new(p), &ps[..ps.len().min(1)], errs), ps.len().min(1))
        }),
        ("RefLock", |mc, ps, _s, errs| (fin(mc, "RefLock<Vec<T>>", RefLock::new(ps.to_vec()), ps, errs), ps.len())),
        ("RefLock write-locked", |mc, ps, _s, errs| {
            // a leaked RefMut leaves the lock write-locked for ever; tracing it may refuse (panic) but
            // must not return normally while reporting less than the lock holds
            let p = ps.first().copied().unwrap_or(P::N(0));
            let one = &ps[..ps.len().min(1)];
            let mut l = RefLock::new(p);
            std::mem::forget(gc_arena::barrier::Write::from_mut(&mut l).unlock().borrow_mut());
            let was_quiet = crate::obs::set_quiet_panics(true);
            let r = std::panic::catch_unwind(std::panic::AssertUnwindSafe(|| {
                let mut rec = Rec::default();
                rec.trace(&l);
                rec
            }));
            crate::obs::set_quiet_panics(was_quiet);
            if let Ok(mut rec) = r {
                rec.strong.sort();
                rec.weak.sort();
                let (s, w) = expect(one);
                if rec.strong != s || rec.weak != w {
                    errs.push(format!("RefLock with a leaked RefMut: trace returned normally and reported {} strong / {} weak pointers, the lock holds {} / {}", rec.strong.len(), rec.weak.len(), s.len(), w.len()));
                }
            }
            std::mem::forget(l);
            (fin(mc, "Vec (carrier for the write-locked RefLock case)", ps.to_vec(), ps, errs), ps.len())
        }),
        ("OnceLock set", |mc, ps, _s, errs| {
            let c = std::cell::OnceCell::new();
            let _ = c.set(ps.to_vec());
            let l: OnceLock<Vec<P>> = OnceLock::from(c);
            (fin(mc, "OnceLock (set)", l, ps, errs), ps.len())
        }),
        ("OnceLock unset", |mc, _ps, _s, errs| {
            let c: OnceLock<Vec<P>> = OnceLock::new();
            (fin(mc, "OnceLock (unset)", c, &[], errs), 0)
        }),
        ("SliceWithHeader", |mc, ps, seed, errs| {
            // header takes the first pointer, the slice the rest
            let h = ps.first().copied().unwrap_or(P::N(0));
            let rest: Vec<P> = ps.iter().skip(1).copied().collect();
            let b = GcSliceWithHeaderBuilder::<P, P>::new(rest.len()).write_header(h);
            let g = if seed % 2 == 0 { b.copy_slice(mc, &rest) } else { b.write_slice_with(mc, |i| rest[i]) };
            check("SliceWithHeader (header and elements)", &*g, ps, errs);
            (Gc::erase(g), ps.len())
        }),
        ("SliceWithHeader header only", |mc, ps, seed, errs| {
            let h = ps.first().copied().unwrap_or(P::N(0));
            let n = (seed % 5) as usize;
            let g = GcSliceWithHeaderBuilder::<P, u8>::new(n).write_header(h).write_slice_with(mc, |i| i as u8);
            check("SliceWithHeader<pointer header, plain elements>", &*g, &ps[..ps.len().min(1)], errs);
            (Gc::erase(g), ps.len().min(1))
        }),
        ("SliceWithHeader elements only", |mc, ps, _s, errs| {
            let g = GcSliceWithHeaderBuilder::<u64, P>::new(ps.len()).write_header(7).copy_slice(mc, ps);
            check("SliceWithHeader<plain header, pointer elements>", &*g, ps, errs);
            (Gc::erase(g), ps.len())
        }),
        ("Arc<[T]>", |mc, ps, _s, errs| {
            let r: Arc<[P]> = Arc::from(ps.to_vec());
            (fin(mc, "Arc<[T]>", r, ps, errs), ps.len())
        }),
        ("Box<dyn DynCollect>", |mc, ps, _s, errs| {
            fn boxed<'gc>(ps: &[P<'gc>]) -> Box<dyn DynP<'gc> + 'gc> {
                Box::new(ps.to_vec())
            }
            (fin(mc, "Box<dyn Trait> through dyn_collect! (dyn_trace adapter)", boxed(ps), ps, errs), ps.len())
        }),
        ("GcSlice", |mc, ps, _s, errs| {
            let g = gc_arena::GcSlice::new_slice(mc, ps);
            check("[T] behind GcSlice", &*g, ps, errs);
            (Gc::erase(g), ps.len())
        }),
        ("hashbrown::HashMap keys", |mc, ps, _s, errs| {
            let m: hashbrown::HashMap<P, u8, std::hash::RandomState> = ps.iter().map(|p| (*p, 0u8)).collect();
            (fin(mc, "hashbrown::HashMap (keys)", m, ps, errs), ps.len())
        }),
        ("hashbrown::HashMap values", |mc, ps, _s, errs| {
            let m: hashbrown::HashMap<u32, P, std::hash::RandomState> = ps.iter().enumerate().map(|(i, p)| (i as u32, *p)).collect();
            (fin(mc, "hashbrown::HashMap (values)", m, ps, errs), ps.len())
        }),
        ("hashbrown::HashSet", |mc, ps, _s, errs| {
            let m: hashbrown::HashSet<P, std::hash::RandomState> = ps.iter().copied().collect();
            (fin(mc, "hashbrown::HashSet", m, ps, errs), ps.len())
        }),
        ("hashbrown::HashTable", |mc, ps, _s, errs| {
            let mut t: hashbrown::HashTable<P> = hashbrown::HashTable::new();
            for p in ps {
                t.insert_unique(p.ord() as u64, *p, |q| q.ord() as u64);
            }
            (fin(mc, "hashbrown::HashTable", t, ps, errs), ps.len())
        }),
        ("indexmap::IndexMap keys", |mc, ps, _s, errs| {
            let m: indexmap::IndexMap<P, u8, std::hash::RandomState> = ps.iter().map(|p| (*p, 0u8)).collect();
            (fin(mc, "IndexMap (keys)", m, ps, errs), ps.len())
        }),
        ("indexmap::IndexMap values", |mc, ps, _s, errs| {
            let m: indexmap::IndexMap<u32, P, std::hash::RandomState> = ps.iter().enumerate().map(|(i, p)| (i as u32, *p)).collect();
            (fin(mc, "IndexMap (values)", m, ps, errs), ps.len())
        }),
        ("indexmap::IndexSet", |mc, ps, _s, errs| {
            let m: indexmap::IndexSet<P, std::hash::RandomState> = ps.iter().copied().collect();
            (fin(mc, "IndexSet", m, ps, errs), ps.len())
        }),
        ("slotmap::SlotMap", |mc, ps, seed, errs| {
            let mut m: slotmap::SlotMap<slotmap::DefaultKey, P> = slotmap::SlotMap::new();
            // leave holes: insert extra entries and remove them again
            let mut junk = Vec::new();
            for (i, p) in ps.iter().enumerate() {
                if (seed >> (i % 60)) & 1 == 1 {
                    junk.push(m.insert(P::N(7)));
                }
                m.insert(*p);
            }
            for k in junk {
                m.remove(k);
            }
            (fin(mc, "SlotMap", m, ps, errs), ps.len())
        }),
        ("smallvec::SmallVec", |mc, ps, _s, errs| {
            // inline up to 4 elements, spilled beyond
            let m: smallvec::SmallVec<[P; 4]> = ps.iter().copied().collect();
            (fin(mc, "SmallVec<[T; 4]>", m, ps, errs), ps.len())
        }),
        ("smallvec::SmallVec zero inline capacity", |mc, ps, _s, errs| {
            // everything lives in the spilled heap buffer
            let m: smallvec::SmallVec<[P; 0]> = ps.iter().copied().collect();
            (fin(mc, "SmallVec<[T; 0]>", m, ps, errs), ps.len())
        }),
        ("enum_map::EnumMap", |mc, ps, _s, errs| {
            let (a, u) = pad::<4>(ps);
            let m: enum_map::EnumMap<EK, P> = enum_map::EnumMap::from_array(a);
            (fin(mc, "EnumMap", m, &u, errs), u.len())
        }),
        ("nested", |mc, ps, _s, errs| {
            let n = ps.len() / 3;
            let c: Vec<(Option<P>, Result<Box<P>, Rc<P>>, [P; 1])> =
                (0..n).map(|i| (Some(ps[3 * i]), if i % 2 == 0 { Ok(Box::new(ps[3 * i + 1])) } else { Err(Rc::new(ps[3 * i + 1])) }, [ps[3 * i + 2]])).collect();
            (fin(mc, "Vec<(Option, Result<Box, Rc>, [T; 1])>", c, &ps[..3 * n], errs), 3 * n)
        }),
    ];
    v.push(("tuple1", tuple_entry!(1; 0)));
    v.push(("tuple2", tuple_entry!(2; 0 1)));
    v.push(("tuple3", tuple_entry!(3; 0 1 2)));
    v.push(("tuple4", tuple_entry!(4; 0 1 2 3)));
    v.push(("tuple5", tuple_entry!(5; 0 1 2 3 4)));
    v.push(("tuple6", tuple_entry!(6; 0 1 2 3 4 5)));
    v.push(("tuple7", tuple_entry!(7; 0 1 2 3 4 5 6)));
    v.push(("tuple8", tuple_entry!(8; 0 1 2 3 4 5 6 7)));
    v.push(("tuple9", tuple_entry!(9; 0 1 2 3 4 5 6 7 8)));
    v.push(("tuple10", tuple_entry!(10; 0 1 2 3 4 5 6 7 8 9)));
    v.push(("tuple11", tuple_entry!(11; 0 1 2 3 4 5 6 7 8 9 10)));
    v.push(("tuple12", tuple_entry!(12; 0 1 2 3 4 5 6 7 8 9 10 11)));
    v.push(("tuple13", tuple_entry!(13; 0 1 2 3 4 5 6 7 8 9 10 11 12)));
    v.push(("tuple14", tuple_entry!(14; 0 1 2 3 4 5 6 7 8 9 10 11 12 13)));
    v.push(("tuple15", tuple_entry!(15; 0 1 2 3 4 5 6 7 8 9 10 11 12 13 14)));
    v.push(("tuple16", tuple_entry!(16; 0 1 2 3 4 5 6 7 8 9 10 11 12 13 14 15)));
    v
}

include!("impls_nt_table.rs");

#[derive(Clone, Debug, PartialEq, Serialize, Deserialize)]
pub struct ICase {
    pub entry: u16,
    /// per position: 0 strong, 1 weak, 2 plain data
    pub positions: Vec<u8>,
    pub seed: u64,
}

#[derive(Collect)]
#[collect(no_drop)]
pub struct IRoot<'gc> {
    c: Lock<Option<Gc<'gc, ()>>>,
}

pub fn run_case(case: &ICase) -> Outcome {
    let table = table();
    let (name, f) = table[case.entry as usize % table.len()];
    obs::begin_case();
    let mut out = Outcome::default();
    let mut errs: Vec<String> = Vec::new();
    {
        let mut arena: Arena<Rootable![IRoot<'_>]> = Arena::new(|_| IRoot { c: Lock::new(None) });
        let n = case.positions.len();
        let ev0 = obs::events_len();
        // build: targets, then the container; only the container is rooted
        let (used, strengths) = arena.mutate_root(|mc, root| {
            let mut ps: Vec<P> = Vec::new();
            for (i, s) in case.positions.iter().enumerate() {
                let t = Gc::new(mc, Target { tok: Tok { arena: 0, id: i as u32, class: 0 }, ord: i as u32 });
                ps.push(match s % 3 {
                    0 => P::S(t),
                    1 => P::W(Gc::downgrade(t)),
                    _ => P::N(i as u32),
                });
            }
            let (g, used) = f(mc, &ps, case.seed, &mut errs);
            root.c = Lock::new(Some(g));
            (used, case.positions.iter().map(|s| s % 3).collect::<Vec<u8>>())
        });
        // end to end: strong targets held by the container survive, everything else is collected
        arena.finish_cycle();
        arena.finish_cycle();
        let mut dropped = vec![0u32; n];
        for ev in obs::events_since(ev0) {
            if let Ev::Drop { id, .. } = ev {
                if (id as usize) < n {
                    dropped[id as usize] += 1;
                }
            }
        }
        for i in 0..n {
            let held_strong = i < used && strengths[i] == 0;
            if held_strong && dropped[i] != 0 {
                errs.push(format!("{name}: strong target at position {i} of {used} was destructed while the rooted container holds it"));
            }
            if !held_strong && dropped[i] != 1 {
                errs.push(format!("{name}: target {i} (not strongly held by the container) was destructed {} times after two full cycles", dropped[i]));
            }
        }
        out.classes.push(format!("{name}:size{}", if used == 0 { "0".to_string() } else if used == 1 { "1".into() } else if used <= 8 { "2-8".into() } else { "9+".into() }));
        *out.counters.entry("positions".into()).or_insert(0) += used as u64;
        drop(arena);
    }
    let end = obs::end_case();
    for f in end.faults {
        match f {
            obs::AllocFault::RedZone { watched: false, .. } => out.internal.push(format!("{f:?}")),
            f => errs.push(format!("allocator: {f:?}")),
        }
    }
    out.errors = errs;
    let _ = Cell::new(0);
    out
}
