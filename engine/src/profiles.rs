//! Per-property generation profiles, budgets and non-triviality rules for the history engine.

use crate::exec::{Cov, ExecOpts};
use crate::r#gen::Profile;
use crate::lang::Kind;

pub struct Plan {
    pub prop: &'static str,
    pub profile: Profile,
    pub opts: ExecOpts,
    pub cases_quick: u64,
    pub cases_thorough: u64,
    pub rule: &'static str,
    pub nontrivial: fn(&Cov) -> bool,
    /// a memory fault (SIGSEGV etc.) while running a history counts as a violation of this property
    pub crash_is_violation: bool,
    pub assumptions: &'static [&'static str],
}

pub const HISTORY_PROPS: [&str; 14] = ["C01", "C02", "C03", "C04", "C05", "C06", "C07", "C08", "C09", "C10", "C11", "C14", "C19", "C20"];

const COMMON_ASSUMPTIONS: [&str; 4] = [
    "the harness's own unsafe impl Collect for Probe and RNode trace every pointer they hold",
    "the tracking global allocator and the event log report what happened (thread-local, one case per thread)",
    "graph reachability is computed from the mutations the harness itself performed through sanctioned paths",
    "bounds: <= 3 arenas, <= 64 live objects, <= 150 steps per history; destructor panics and allocation failure are not generated",
];

pub fn plan(prop: &str) -> Option<Plan> {
    let opts = ExecOpts { hook: true, ..Default::default() };
    let mut p = Profile::base("base");
    let plan = match prop {
        "C01" => {
            p.name = "C01";
            p.w_work = 36;
            p.w_map_root = 3;
            Plan {
                prop: "C01",
                profile: p,
                opts,
                cases_quick: 400_000,
                cases_thorough: 3_000_000,
                rule: "random histories (proptest, 64 shards) after directed templates; non-trivial = at least one adoption or root replacement performed while the arena was Marking/Marked/Sweeping and the running cycle completed afterwards; distinct by hash of the history",
                nontrivial: |c| c.cycle_completed_after_active_adopt,
                crash_is_violation: true,
                assumptions: &COMMON_ASSUMPTIONS,
            }
        }
        "C02" => {
            p.name = "C02";
            p.w_settle = 12;
            p.o_unlink = 16;
            p.o_link = 36;
            p.o_link_weak = 12;
            Plan {
                prop: "C02",
                profile: p,
                opts,
                cases_quick: 320_000,
                cases_thorough: 2_000_000,
                rule: "random histories biased to cyclic garbage, unlinking and weak edges, with Settle = finish_cycle x2 at generated points; non-trivial = a Settle whose garbage contains a cycle, an object allocated while not Sleeping, a weak-only target, or that began mid-cycle",
                nontrivial: |c| c.settle_nontrivial > 0,
                crash_is_violation: false,
                assumptions: &COMMON_ASSUMPTIONS,
            }
        }
        "C03" => {
            p.name = "C03";
            p.w_sweep_fault = 2;
            p.o_temps = 14;
            p.o_read = 6;
            p.w_adjust = 8;
            p.o_adjust = 3;
            p.w_finalize = 8;
            p.w_map_root = 5;
            Plan {
                prop: "C03",
                profile: p,
                opts,
                cases_quick: 320_000,
                cases_thorough: 1_000_000,
                rule: "random histories whose callbacks allocate unlinked temporaries early and touch them last, entered in every phase with natural and artificial debt up to 1e12; non-trivial = a callback entered with positive debt while not Sleeping that held >= 1 temporary",
                nontrivial: |c| c.callbacks_with_debt_active_temps > 0,
                crash_is_violation: false,
                assumptions: &COMMON_ASSUMPTIONS,
            }
        }
        "C04" => {
            p.name = "C04";
            p.w_rootless = 2;
            p.w_drop_arena = 5;
            p.w_drop_fault = 3;
            p.w_sweep_fault = 3;
            p.w_drop_unwinding = 2;
            p.w_new_arena = 4;
            p.o_link_weak = 14;
            p.o_unlink = 12;
            p.max_steps = 30;
            Plan {
                prop: "C04",
                profile: p,
                opts,
                cases_quick: 320_000,
                cases_thorough: 2_000_000,
                rule: "random histories ending in dropping the arena in whatever phase it is in (plus explicit DropArena steps), with shells, garbage and DSTs present; non-trivial = an arena dropped while not Sleeping or while holding at least one shell of a destructed object",
                nontrivial: |c| c.arena_drop_phase[1] + c.arena_drop_phase[2] + c.arena_drop_phase[3] > 0 || c.arena_drop_with_shell > 0,
                crash_is_violation: true,
                assumptions: &COMMON_ASSUMPTIONS,
            }
        }
        "C05" => {
            p.name = "C05";
            p.w_sweep_fault = 3;
            p.o_link_weak = 24;
            p.w_settle = 8;
            p.kinds.push((10, Kind::DB));
            p.o_upgrade = 22;
            p.o_weak_query = 10;
            p.o_unlink = 14;
            p.w_work = 40;
            Plan {
                prop: "C05",
                profile: p,
                opts,
                cases_quick: 400_000,
                cases_thorough: 3_000_000,
                rule: "random histories biased to weak edges, upgrade (optionally storing the result through an adoption path) and is_dropped in every phase, single-unit collector increments; non-trivial = a weak query while Sweeping on a live target that is only weakly reachable, or an upgrade-and-store while not Sleeping",
                nontrivial: |c| c.weak_q_sweeping_weakonly > 0 || c.upgrade_store_active > 0,
                crash_is_violation: true,
                assumptions: &COMMON_ASSUMPTIONS,
            }
        }
        "C06" => {
            p.name = "C06";
            p.o_link = 40;
            p.o_barrier = 10;
            p.o_stash = 6;
            p.w_map_root = 5;
            p.w_work = 40;
            p.o_leaf = 4;
            p.o_link_weak = 18;
            p.o_upgrade = 16;
            p.o_unlink = 12;
            p.kinds = vec![(24, Kind::D), (24, Kind::R), (6, Kind::L), (2, Kind::LS), (12, Kind::LB), (12, Kind::RB), (10, Kind::OB), (2, Kind::Sl), (2, Kind::SH), (2, Kind::Dyn), (6, Kind::P), (4, Kind::DB), (3, Kind::NT), (4, Kind::HSl), (8, Kind::Set)];
            Plan {
                prop: "C06",
                profile: p,
                opts,
                cases_quick: 400_000,
                cases_thorough: 3_000_000,
                rule: "random histories in which every store goes through one of the adoption paths (path id = projection / setter / barrier variant / root path / stash), with single-unit increments arranging parent and child colours; non-trivial = an adoption while Marking/Marked/Sweeping with the cycle completed afterwards; the evidence lists the covered (path, phase, parent colour, child colour) cells",
                nontrivial: |c| c.cycle_completed_after_active_adopt,
                crash_is_violation: true,
                assumptions: &COMMON_ASSUMPTIONS,
            }
        }
        "C07" => {
            p.name = "C07";
            p.w_finalize = 30;
            p.o_link_weak = 20;
            p.o_unlink = 14;
            p.o_fin = 20;
            Plan {
                prop: "C07",
                profile: p,
                opts,
                cases_quick: 320_000,
                cases_thorough: 2_000_000,
                rule: "random histories with finalize callbacks (is_dead scan at callback start, resurrect through weak and strong pointers) after incremental marking and interleaved mutation; non-trivial = a dead, undestructed object with children was resurrected, or a finalize ran after mutation in the same cycle",
                nontrivial: |c| c.resurrect_dead_with_child > 0 || c.finalize_after_mutation > 0,
                crash_is_violation: false,
                assumptions: &COMMON_ASSUMPTIONS,
            }
        }
        "C08" => {
            p.name = "C08";
            p.w_plain_root = 3;
            p.w_collect = 40;
            p.w_work = 25;
            p.w_adjust = 10;
            p.w_finalize = 10;
            p.w_pacing = 4;
            Plan {
                prop: "C08",
                profile: p,
                opts,
                cases_quick: 320_000,
                cases_thorough: 1_000_000,
                rule: "random API call sequences from every phase with zero / tiny / natural / huge debt and all pacing presets; non-trivial = the history made at least two collection calls that began in a phase other than Sleeping; the evidence lists the covered (phase, api, debt class) triples",
                nontrivial: |c| c.c08.iter().filter(|(k, _)| k.0 != 0).map(|(_, v)| *v).sum::<u32>() >= 2,
                crash_is_violation: false,
                assumptions: &COMMON_ASSUMPTIONS,
            }
        }
        "C09" => {
            p.name = "C09";
            p.burst = true;
            p.max_steps = 40;
            p.w_work = 0;
            p.w_collect = 60;
            p.w_adjust = 0;
            p.o_adjust = 0;
            p.w_finalize = 3;
            p.w_pacing = 4;
            p.o_pacing = 0;
            p.neg_adjust = false;
            p.w_settle = 1;
            p.o_alloc = 70;
            p.o_link = 14;
            p.o_root = 10;
            p.o_unlink = 6;
            p.o_link_weak = 6;
            p.o_temps = 0;
            p.o_read = 0;
            p.o_convert = 0;
            p.o_stash = 1;
            p.o_fetch = 0;
            p.o_push = 70;
            p.o_alloc = 40;
            p.w_mutate_root = 45;
            Plan {
                prop: "C09",
                profile: p,
                opts: ExecOpts { c09: true, hook: true, max_live: 3000, ..Default::default() },
                cases_quick: 32_000,
                cases_thorough: 600_000,
                rule: "random histories with allocation bursts of 0-300 objects between natural (never artificially reduced) debt-driven calls under all pacing presets; oracles: zero debt / stopping phase on return, the completion bound rho*H/(1-rho), the sleep allowance, per-cycle credit counters (<= objects that existed, sum <= rho x that) and allocation_debt() == the documented formula over the counter hook's values; non-trivial = a tracked cycle that needed >= 3 calls, or a sleep allowance crossed from below",
                nontrivial: |c| c.c09_multi_call_cycles > 0 || c.c09_sleep_crossed > 0,
                crash_is_violation: false,
                assumptions: &COMMON_ASSUMPTIONS,
            }
        }
        "C10" => {
            p.name = "C10";
            p.o_leaf = 14;
            p.o_barrier = 14;
            p.w_adjust = 10;
            p.o_adjust = 4;
            p.w_trace_panic = 3;
            p.kinds.push((20, Kind::L));
            p.kinds.push((6, Kind::LS));
            Plan {
                prop: "C10",
                profile: p,
                opts,
                cases_quick: 320_000,
                cases_thorough: 2_000_000,
                rule: "random histories with barriers of every variant on tracing and non-tracing objects in every phase, adjust_debt of both signs up to 1e12 and trace panics; run in the release-like and the overflow-checking build; non-trivial = a barrier applied to a fully traced (black) object while Marking/Marked",
                nontrivial: |c| c.barrier_black_tracing + c.barrier_black_nontracing > 0,
                crash_is_violation: false,
                assumptions: &COMMON_ASSUMPTIONS,
            }
        }
        "C11" => {
            p.name = "C11";
            p.w_rootless = 2;
            p.w_trace_panic = 14;
            p.w_cb_panic = 12;
            p.w_map_root = 6;
            p.w_new_arena = 4;
            p.w_settle = 8;
            p.w_drop_arena = 2;
            p.w_drop_fault = 2;
            p.w_sweep_fault = 4;
            p.w_drop_unwinding = 1;
            Plan {
                prop: "C11",
                profile: p,
                opts,
                cases_quick: 320_000,
                cases_thorough: 2_000_000,
                rule: "random histories with injected faults: trace panic at the k-th trace call (k up to 24, repeatedly), callback panic after every op index for every callback kind, failing and panicking constructors and map_root; the C01-C05 oracles keep running on the continued history; non-trivial = a fault was injected and the arena was used again afterwards",
                nontrivial: |c| c.faults_trace + c.faults_callback + c.faults_ctor > 0 && c.used_after_fault > 0,
                crash_is_violation: true,
                assumptions: &COMMON_ASSUMPTIONS,
            }
        }
        "C14" => {
            p.name = "C14";
            p.o_stash = 24;
            p.o_fetch = 14;
            p.w_handle = 16;
            p.w_new_arena = 3;
            p.w_drop_arena = 2;
            p.w_settle = 8;
            p.kinds.push((20, Kind::Set));
            Plan {
                prop: "C14",
                profile: p,
                opts,
                cases_quick: 320_000,
                cases_thorough: 2_000_000,
                rule: "random histories over several root sets, arenas and handles (stash in every phase, clone, drop in any order, fetch with own / foreign / dead handles); non-trivial = a slot was reused while another handle of the set was alive, or a stash happened while the arena was not Sleeping",
                nontrivial: |c| c.slot_reuse_live > 0 || c.stash_active > 0,
                crash_is_violation: true,
                assumptions: &COMMON_ASSUMPTIONS,
            }
        }
        "C19" => {
            p.name = "C19";
            p.o_convert = 30;
            p.w_settle = 8;
            p.o_unlink = 12;
            p.kinds = vec![(14, Kind::D), (8, Kind::R), (4, Kind::L), (4, Kind::LS), (6, Kind::LB), (6, Kind::RB), (4, Kind::OB), (12, Kind::Sl), (8, Kind::TSl), (12, Kind::SH), (8, Kind::TSH), (8, Kind::Str), (6, Kind::TStr), (8, Kind::Dyn), (8, Kind::Arr), (6, Kind::DB), (4, Kind::P), (8, Kind::Set)];
            p.o_stash = 8;
            p.o_fetch = 10;
            Plan {
                prop: "C19",
                profile: p,
                opts,
                cases_quick: 200_000,
                cases_thorough: 1_000_000,
                rule: "random histories with conversion chains (erase, downgrade/upgrade, as_ptr/from_ptr, thin/fat, unsize!, erase_kind, weak unsize) whose result is stored and later is the only pointer kept, plus DynamicRootSet stash / fetch / try_fetch / contains across several sets (a fetch must hand out the stashed object and only from its own set); non-trivial = a conversion was performed and a collection cycle completed in the same history",
                nontrivial: |c| c.convert_ops > 0 && c.cycles_completed > 0,
                crash_is_violation: true,
                assumptions: &COMMON_ASSUMPTIONS,
            }
        }
        "C20" => {
            p.name = "C20";
            p.w_new_arena = 8;
            p.w_drop_arena = 4;
            p.w_drop_unwinding = 4;
            p.w_drop_fault = 2;
            p.o_fetch = 6;
            p.o_stash = 6;
            p.w_settle = 6;
            p.max_steps = 50;
            Plan {
                prop: "C20",
                profile: p,
                opts,
                cases_quick: 256_000,
                cases_thorough: 1_000_000,
                rule: "random histories interleaving steps on up to three arenas with different pacing, dropping one while others are mid-cycle, presenting foreign handles; after every step the phase, Gc count and debt of every other arena must be bit-identical; non-trivial = a step on one arena while another was Marking/Marked/Sweeping",
                nontrivial: |c| c.other_arena_active > 0,
                crash_is_violation: true,
                assumptions: &COMMON_ASSUMPTIONS,
            }
        }
        _ => return None,
    };
    Some(plan)
}
