//! Fatal-signal handler: if the process dies while a worker thread is running a case, the case is
//! written out so that the supervisor can report it.

use std::cell::Cell;
use std::sync::atomic::{AtomicBool, Ordering};
use std::sync::OnceLock;

thread_local! {
    static CURRENT: Cell<(*const u8, usize)> = const { Cell::new((std::ptr::null(), 0)) };
}

static CRASH_PATH: OnceLock<std::ffi::CString> = OnceLock::new();
static WRITING: AtomicBool = AtomicBool::new(false);

/// Publish the serialised case this thread is about to run. The buffer must stay alive until
/// `clear_current`.
pub fn set_current(buf: &[u8]) {
    CURRENT.with(|c| c.set((buf.as_ptr(), buf.len())));
}

pub fn clear_current() {
    CURRENT.with(|c| c.set((std::ptr::null(), 0)));
}

extern "C" fn handler(sig: libc::c_int) {
    unsafe {
        let (p, n) = CURRENT.try_with(|c| c.get()).unwrap_or((std::ptr::null(), 0));
        // Heap damage done by a case on one thread tends to bring down other threads as well, also
        // threads that are between two cases. Only the first thread that has a case writes the
        // record; a thread without one must not truncate it, and gives the others a moment to
        // write theirs before the process ends.
        if !p.is_null() && !WRITING.swap(true, Ordering::SeqCst) {
            if let Some(path) = CRASH_PATH.get() {
                let fd = libc::open(path.as_ptr(), libc::O_WRONLY | libc::O_CREAT | libc::O_TRUNC, 0o644);
                if fd >= 0 {
                    let _ = libc::write(fd, p as *const libc::c_void, n);
                    libc::close(fd);
                }
            }
        } else {
            libc::usleep(500_000);
        }
        let msg = b"gcverif: fatal signal while running a case\n";
        let _ = libc::write(2, msg.as_ptr() as *const libc::c_void, msg.len());
        libc::_exit(100 + sig);
    }
}

pub fn install(path: &str) {
    let _ = CRASH_PATH.set(std::ffi::CString::new(path).unwrap());
    unsafe {
        for sig in [libc::SIGSEGV, libc::SIGBUS, libc::SIGABRT, libc::SIGILL, libc::SIGFPE] {
            let mut sa: libc::sigaction = std::mem::zeroed();
            sa.sa_sigaction = handler as usize;
            sa.sa_flags = libc::SA_ONSTACK;
            libc::sigemptyset(&mut sa.sa_mask);
            libc::sigaction(sig, &sa, std::ptr::null_mut());
        }
    }
}
