//! Workers for the program-space checks (C12, C13, C15).

use std::time::Instant;

use proptest::strategy::{Strategy, ValueTree};
use proptest::test_runner::{Config, RngAlgorithm, TestRng, TestRunner};

use crate::probe::*;

fn rng_runner(seed: u64, prop: &str) -> TestRunner {
    let rng = TestRng::from_seed(RngAlgorithm::ChaCha, &crate::inputs::shard_seed(seed, 0, prop));
    TestRunner::new_with_rng(Config { failure_persistence: None, ..Config::default() }, rng)
}

pub fn worker(prop: &str, tier: &str, tag: &str, seed: u64, thorough: bool, root: &str, threads: usize) -> i32 {
    let t0 = Instant::now();
    let tc = match Toolchain::from_env(prop) {
        Ok(t) => t,
        Err(e) => {
            eprintln!("gcverif: {e}");
            return 2;
        }
    };
    let code = match prop {
        "C12" => c12(&tc, tier, tag, seed, thorough, root, threads, t0),
        _ => 2,
    };
    tc.cleanup();
    code
}

fn c12(tc: &Toolchain, tier: &str, tag: &str, seed: u64, thorough: bool, root: &str, threads: usize, t0: Instant) -> i32 {
    let structural = crate::c12::structural_probes();
    let all_escapes = crate::c12::escape_probes();
    let n_all = all_escapes.len();
    let escapes: Vec<crate::c12::Probe> = if thorough || std::env::var("GCVERIF_CASES").is_err() {
        all_escapes
    } else {
        let n = std::env::var("GCVERIF_CASES").ok().and_then(|s| s.parse().ok()).unwrap_or(160usize).min(n_all);
        let mut runner = rng_runner(seed, "C12");
        let idx: Vec<usize> = proptest::sample::subsequence((0..n_all).collect::<Vec<_>>(), n).new_tree(&mut runner).unwrap().current();
        idx.into_iter().map(|i| all_escapes[i].clone()).collect()
    };
    let rs = crate::c12::run(tc, &structural, threads);
    let re = crate::c12::run(tc, &escapes, threads);
    let wall = t0.elapsed().as_secs_f64();
    let mut code = 0;
    let mut violations = 0;
    for rep in [&rs, &re] {
        for f in rep.generator_faults.iter().chain(rep.twin_failures.iter()) {
            eprintln!("gcverif: probe generator fault (cannot decide): {f}");
            code = 2;
        }
    }
    let accepted: Vec<&(String, String)> = rs.accepted_negative.iter().chain(re.accepted_negative.iter()).collect();
    if let Some((class, prog)) = accepted.first() {
        violations = accepted.len() as u32;
        let path = format!("{root}/failures/C12-accepted-{:016x}.json", hash(prog));
        let body = serde_json::json!({"property": "C12", "kind": "probe-must-not-compile", "class": class, "program": prog});
        let _ = std::fs::write(&path, serde_json::to_string_pretty(&body).unwrap());
        println!("violated oracle: rustc accepted an escape / variance / auto-trait probe of class {class} ({} accepted in total)", accepted.len());
        for (c, _) in accepted.iter().skip(1).take(12) {
            println!("  also accepted: {c}");
        }
        println!("VIOLATION property=C12 replay={path}");
        code = 1;
    }
    let mut classes = rs.classes.clone();
    classes.extend(re.classes.clone());
    let mut fams = rs.families.clone();
    for (k, v) in &re.families {
        *fams.entry(k.clone()).or_insert(0) += v;
    }
    let mut samples = rs.samples.clone();
    samples.extend(re.samples.iter().take(2).cloned());
    let cov = serde_json::json!({
        "evaluations": 2 * (rs.probes + re.probes),
        "distinct_nontrivial": rs.rejected + re.rejected,
        "rule": "each probe is a #![forbid(unsafe_code)] program that dereferences the escaped value at its destination, paired with a twin that differs only in escaping an unbranded copy (or in using one arena instead of two); non-trivial = the negative program was rejected by rustc with a diagnostic that is not a generator fault while its twin compiled; all probe classes are distinct by construction. The structural set (variance of 12 branded types in both directions, Send and Sync of 16 pointer / context / arena types, the 'static-only Collect wrappers) is enumerated completely in both tiers; the escape product (8 entry points x 9 branded values x 10 routes, where applicable) is enumerated completely in both tiers (a seeded sample only when GCVERIF_CASES is set)",
        "samples": samples,
        "exhaustive": re.probes == n_all,
        "structural_probes": rs.probes,
        "structural_rejected": rs.rejected,
        "escape_probes_run": re.probes,
        "escape_probes_in_product": n_all,
        "escape_rejected": re.rejected,
        "diagnostic_families": fams,
        "classes_covered": classes.len(),
        "build": tag,
    });
    let assumptions = ["rustc (the toolchain the repository builds with) is the accept/reject oracle", "the probe corpus samples 'no safe program': it settles variance and auto traits structurally and defeats each known escape route per entry point, nothing more"];
    crate::evidence::write_part(root, "C12", tier, seed, tag, cov, &assumptions, wall, violations);
    println!("C12 {tier}: {} structural + {} escape probe pairs, {} rejected as required, {:.1}s, exit {code}", rs.probes, re.probes, rs.rejected + re.rejected, wall);
    code
}

fn hash(s: &str) -> u64 {
    use std::hash::{Hash, Hasher};
    let mut h = std::collections::hash_map::DefaultHasher::new();
    s.hash(&mut h);
    h.finish()
}

pub fn replay(v: &serde_json::Value, prop: &str, path: &str) -> i32 {
    let tc = match Toolchain::from_env("replay") {
        Ok(t) => t,
        Err(e) => {
            eprintln!("gcverif: {e}");
            return 2;
        }
    };
    let kind = v["kind"].as_str().unwrap_or("");
    let prog = v["program"].as_str().unwrap_or("");
    let code = match kind {
        "probe-must-not-compile" => {
            let c = tc.compile("replay_probe", prog, false);
            if c.ok {
                println!("rustc accepts the program:\n{prog}");
                println!("VIOLATION property={prop} replay={path}");
                1
            } else {
                println!("rustc rejects the program: {:?}", error_codes(&c.stderr));
                0
            }
        }
        "probe-must-run-clean" => {
            let c = tc.compile("replay_probe", prog, true);
            match c.bin {
                None => {
                    println!("rustc rejects the program: {:?}", error_codes(&c.stderr));
                    0
                }
                Some(bin) => {
                    let (rc, out) = tc.run(&bin, 20);
                    println!("program exit {rc:?}: {out}");
                    if rc == Some(0) {
                        0
                    } else {
                        println!("VIOLATION property={prop} replay={path}");
                        1
                    }
                }
            }
        }
        _ => 2,
    };
    tc.cleanup();
    code
}
