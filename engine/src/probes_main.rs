//! Workers for the program-space checks (C12, C13, C15).

use std::time::Instant;

use proptest::strategy::{Strategy, ValueTree};
use proptest::test_runner::{Config, RngAlgorithm, TestRng, TestRunner};

use crate::probe::*;

fn rng_runner(seed: u64, prop: &str) -> TestRunner {
    let rng = TestRng::from_seed(RngAlgorithm::ChaCha, &crate::inputs::shard_seed(seed, 0, prop));
    TestRunner::new_with_rng(Config { failure_persistence: None, ..Config::default() }, rng)
}

pub fn worker(prop: &str, tier: &str, tag: &str, seed: u64, thorough: bool, root: &str, threads: usize) -> i32 {
    let t0 = Instant::now();
    let tc = match Toolchain::from_env(prop) {
        Ok(t) => t,
        Err(e) => {
            eprintln!("gcverif: {e}");
            return 2;
        }
    };
    let code = match prop {
        "C12" => c12(&tc, tier, tag, seed, thorough, root, threads, t0),
        "C13" => c13(&tc, tier, tag, seed, thorough, root, threads, t0),
        "C15" => c15(&tc, tier, tag, seed, thorough, root, threads, t0),
        _ => 2,
    };
    tc.cleanup();
    code
}

fn c12(tc: &Toolchain, tier: &str, tag: &str, seed: u64, thorough: bool, root: &str, threads: usize, t0: Instant) -> i32 {
    let structural = crate::c12::structural_probes();
    let all_escapes = crate::c12::escape_probes();
    let n_all = all_escapes.len();
    let escapes: Vec<crate::c12::Probe> = if thorough || std::env::var("GCVERIF_CASES").is_err() {
        all_escapes
    } else {
        let n = std::env::var("GCVERIF_CASES").ok().and_then(|s| s.parse().ok()).unwrap_or(160usize).min(n_all);
        let mut runner = rng_runner(seed, "C12");
        let idx: Vec<usize> = proptest::sample::subsequence((0..n_all).collect::<Vec<_>>(), n).new_tree(&mut runner).unwrap().current();
        idx.into_iter().map(|i| all_escapes[i].clone()).collect()
    };
    let rs = crate::c12::run(tc, &structural, threads);
    let re = crate::c12::run(tc, &escapes, threads);
    let wall = t0.elapsed().as_secs_f64();
    let mut code = 0;
    let mut violations = 0;
    for rep in [&rs, &re] {
        for f in rep.generator_faults.iter().chain(rep.twin_failures.iter()) {
            eprintln!("gcverif: probe generator fault (cannot decide): {f}");
            code = 2;
        }
    }
    // findings listed as `known:` in KNOWN_FINDINGS.txt are excluded by signature (class prefix) and
    // reported by ./check as KNOWN-FINDING lines; anything else that is accepted is a violation
    let known = known_signatures(root, "C12");
    let all_accepted: Vec<&(String, String)> = rs.accepted_negative.iter().chain(re.accepted_negative.iter()).collect();
    let known_hits: Vec<String> = all_accepted.iter().filter(|(c, _)| known.iter().any(|k| c.starts_with(k.as_str()))).map(|(c, _)| c.clone()).collect();
    let accepted: Vec<&(String, String)> = all_accepted.iter().filter(|(c, _)| !known.iter().any(|k| c.starts_with(k.as_str()))).copied().collect();
    if let Some((class, prog)) = accepted.first() {
        violations = accepted.len() as u32;
        let path = format!("{root}/failures/C12-accepted-{:016x}.json", hash(prog));
        let body = serde_json::json!({"property": "C12", "kind": "probe-must-not-compile", "class": class, "program": prog});
        let _ = std::fs::write(&path, serde_json::to_string_pretty(&body).unwrap());
        println!("violated oracle: rustc accepted an escape / variance / auto-trait probe of class {class} ({} accepted in total)", accepted.len());
        for (c, _) in accepted.iter().skip(1).take(12) {
            println!("  also accepted: {c}");
        }
        println!("VIOLATION property=C12 replay={path}");
        code = 1;
    }
    let mut classes = rs.classes.clone();
    classes.extend(re.classes.clone());
    let mut fams = rs.families.clone();
    for (k, v) in &re.families {
        *fams.entry(k.clone()).or_insert(0) += v;
    }
    let mut samples = rs.samples.clone();
    samples.extend(re.samples.iter().take(2).cloned());
    let cov = serde_json::json!({
        "evaluations": 2 * (rs.probes + re.probes),
        "distinct_nontrivial": rs.rejected + re.rejected,
        "rule": "each probe is a #![forbid(unsafe_code)] program that dereferences the escaped value at its destination, paired with a twin that differs only in escaping an unbranded copy (or in using one arena instead of two); non-trivial = the negative program was rejected by rustc with a diagnostic that is not a generator fault while its twin compiled; all probe classes are distinct by construction. The structural set (variance of 12 branded types in both directions, Send and Sync of 16 pointer / context / arena types, the 'static-only Collect wrappers) is enumerated completely in both tiers; the escape product (8 entry points x 9 branded values x 10 routes, where applicable) is enumerated completely in both tiers (a seeded sample only when GCVERIF_CASES is set)",
        "samples": samples,
        "exhaustive": re.probes == n_all,
        "structural_probes": rs.probes,
        "structural_rejected": rs.rejected,
        "escape_probes_run": re.probes,
        "escape_probes_in_product": n_all,
        "escape_rejected": re.rejected,
        "diagnostic_families": fams,
        "classes_covered": classes.len(),
        "known_findings_reproduced": known_hits,
        "build": tag,
    });
    let assumptions = ["rustc (the toolchain the repository builds with) is the accept/reject oracle", "the probe corpus samples 'no safe program': it settles variance and auto traits structurally and defeats each known escape route per entry point, nothing more"];
    crate::evidence::write_part(root, "C12", tier, seed, tag, cov, &assumptions, wall, violations);
    println!("C12 {tier}: {} structural + {} escape probe pairs, {} rejected as required, {:.1}s, exit {code}", rs.probes, re.probes, rs.rejected + re.rejected, wall);
    code
}

/// Signatures (`sig=<class prefix>`) of the `known:` entries of KNOWN_FINDINGS.txt for a property.
fn known_signatures(root: &str, prop: &str) -> Vec<String> {
    let text = std::fs::read_to_string(format!("{root}/KNOWN_FINDINGS.txt")).unwrap_or_default();
    let mut v = Vec::new();
    for line in text.lines() {
        if let Some(rest) = line.strip_prefix(&format!("known: property={prop} ")) {
            if let Some(sig) = rest.split_whitespace().find_map(|w| w.strip_prefix("sig=")) {
                v.push(sig.to_string());
            }
        }
    }
    v
}

fn hash(s: &str) -> u64 {
    use std::hash::{Hash, Hasher};
    let mut h = std::collections::hash_map::DefaultHasher::new();
    s.hash(&mut h);
    h.finish()
}

pub fn replay(v: &serde_json::Value, prop: &str, path: &str) -> i32 {
    let tc = match Toolchain::from_env("replay") {
        Ok(t) => t,
        Err(e) => {
            eprintln!("gcverif: {e}");
            return 2;
        }
    };
    let kind = v["kind"].as_str().unwrap_or("");
    let prog = v["program"].as_str().unwrap_or("");
    let code = match kind {
        "probe-must-not-compile" => {
            let c = tc.compile("replay_probe", prog, false);
            if c.ok {
                println!("rustc accepts the program:\n{prog}");
                println!("VIOLATION property={prop} replay={path}");
                1
            } else {
                println!("rustc rejects the program: {:?}", error_codes(&c.stderr));
                0
            }
        }
        "probe-must-run-clean" => {
            let c = tc.compile("replay_probe", prog, true);
            match c.bin {
                None => {
                    println!("rustc rejects the program: {:?}", error_codes(&c.stderr));
                    0
                }
                Some(bin) => {
                    let (rc, out) = tc.run(&bin, 20);
                    println!("program exit {rc:?}: {out}");
                    if rc == Some(0) {
                        0
                    } else {
                        println!("VIOLATION property={prop} replay={path}");
                        1
                    }
                }
            }
        }
        _ => 2,
    };
    tc.cleanup();
    code
}

fn c13(tc: &Toolchain, tier: &str, tag: &str, seed: u64, thorough: bool, root: &str, threads: usize, t0: Instant) -> i32 {
    use std::collections::{BTreeMap, BTreeSet};
    let want = std::env::var("GCVERIF_CASES").ok().and_then(|s| s.parse().ok()).unwrap_or(if thorough { 3000usize } else { 360 });
    // generated shapes, distinct by class
    let mut runner = rng_runner(seed, "C13");
    let strat = crate::c13::shape_strategy();
    let mut seen = BTreeSet::new();
    let mut progs: Vec<(String, String, bool)> = Vec::new(); // (class, program, must be accepted)
    let mut tries = 0;
    while progs.len() < want && tries < want * 30 {
        tries += 1;
        let sh = strat.new_tree(&mut runner).unwrap().current();
        if seen.insert(sh.class()) {
            progs.push((sh.class(), sh.render(), sh.must_be_accepted()));
        }
    }
    let n_generated = progs.len();
    for (name, p) in crate::c13::fixed_programs() {
        let must = name.starts_with("sanctioned") || name.starts_with("Lock::take") || name.ends_with("(control)");
        progs.push((format!("fixed|{name}"), p, must));
    }
    // 1. type-check everything
    let checked = par_map(&progs, threads, |i, (_, p, _)| tc.compile(&format!("c13_{i}"), p, false));
    // 2. link and run what rustc accepts
    let accepted: Vec<usize> = (0..progs.len()).filter(|i| checked[*i].ok).collect();
    let ran = par_map(&accepted, threads, |_, i| {
        let c = tc.compile(&format!("c13_run_{i}"), &progs[*i].1, true);
        match c.bin {
            Some(bin) => {
                let r = tc.run(&bin, 30);
                let _ = std::fs::remove_file(&bin);
                Some(r)
            }
            None => None,
        }
    });
    let wall = t0.elapsed().as_secs_f64();
    let mut code = 0;
    let mut violations = 0u32;
    let mut fams: BTreeMap<String, u64> = BTreeMap::new();
    let mut starts: BTreeMap<String, (u64, u64)> = BTreeMap::new(); // start -> (rejected, accepted-and-clean)
    let mut samples = Vec::new();
    let mut decided = 0usize;
    for (i, (class, prog, must)) in progs.iter().enumerate() {
        let start = class.split('|').next().unwrap().to_string();
        if !checked[i].ok {
            if *must {
                eprintln!("gcverif: a sanctioned adoption chain was rejected by rustc (cannot decide): {class}: {}", checked[i].stderr.lines().take(5).collect::<Vec<_>>().join(" | "));
                code = code.max(2);
                continue;
            }
            // the macro-misuse probes are expected to die in macro expansion ("no rules expected ...")
            let macro_probe = class.contains("field!") || class.contains("unlock!") || class.contains("dyn_collect!");
            if generator_fault(&checked[i].stderr) && !macro_probe {
                eprintln!("gcverif: probe generator fault (cannot decide): {class}: {}", checked[i].stderr.lines().take(5).collect::<Vec<_>>().join(" | "));
                code = code.max(2);
                continue;
            }
            decided += 1;
            starts.entry(start).or_insert((0, 0)).0 += 1;
            let mut f: Vec<String> = error_codes(&checked[i].stderr).into_iter().map(|c| c.split(':').next().unwrap().to_string()).collect();
            f.sort();
            f.dedup();
            for x in &f {
                *fams.entry(x.clone()).or_insert(0) += 1;
            }
            if samples.len() < 2 {
                samples.push(serde_json::json!({"class": class, "verdict": "rejected by rustc", "diagnostics": f}));
            }
        }
    }
    let known13 = known_signatures(root, "C13");
    let mut known_hits13: Vec<String> = Vec::new();
    for (k, i) in accepted.iter().enumerate() {
        let (class, prog, _) = &progs[*i];
        let start = class.split('|').next().unwrap().to_string();
        match &ran[k] {
            None => {
                eprintln!("gcverif: accepted probe could not be linked (cannot decide): {class}");
                code = code.max(2);
            }
            Some((rc, out)) => {
                if *rc == Some(0) && out.contains("OK") {
                    decided += 1;
                    starts.entry(start).or_insert((0, 0)).1 += 1;
                    if samples.len() < 4 {
                        samples.push(serde_json::json!({"class": class, "verdict": "accepted, ran clean", "program_tail": prog.split("fn main()").nth(1).unwrap_or("")}));
                    }
                } else if *rc == Some(4) {
                    eprintln!("gcverif: probe stored nothing (generator fault, cannot decide): {class}");
                    code = code.max(2);
                } else if *rc == Some(124) {
                    eprintln!("gcverif: probe timed out (cannot decide): {class}");
                    code = code.max(2);
                } else if known13.iter().any(|k| class.contains(k.as_str())) {
                    // listed as `known:` in KNOWN_FINDINGS.txt: reported by ./check as a KNOWN-FINDING line
                    decided += 1;
                    known_hits13.push(class.clone());
                } else {
                    violations += 1;
                    if violations == 1 {
                        let path = format!("{root}/failures/C13-{:016x}.json", hash(prog));
                        let body = serde_json::json!({"property": "C13", "kind": "probe-must-run-clean", "class": class, "exit": rc, "output": out, "program": prog});
                        let _ = std::fs::write(&path, serde_json::to_string_pretty(&body).unwrap());
                        println!("violated oracle: a program without unsafe code compiled and lost an adopted pointer (class {class}, exit {rc:?}): {}", out.lines().next().unwrap_or(""));
                        println!("VIOLATION property=C13 replay={path}");
                    } else {
                        println!("  also: {class} (exit {rc:?})");
                    }
                    code = 1;
                }
            }
        }
    }
    let starts_json: BTreeMap<String, serde_json::Value> = starts.iter().map(|(k, v)| (k.clone(), serde_json::json!({"rejected": v.0, "accepted_and_ran_clean": v.1}))).collect();
    let cov = serde_json::json!({
        "evaluations": progs.len(),
        "distinct_nontrivial": decided,
        "rule": "generated #![forbid(unsafe_code)] programs: storage (RefLock / Lock / OnceLock) behind 0-5 wrappers (Box, Rc, Arc, Vec, array, Option, Result, struct field, VecDeque, BTreeMap, HashMap) x the way a Write is obtained (Gc::write on the owner, Write::from_mut(&mut &*node).as_deref(), from_static, a fresh unrooted sibling sharing an Rc/Arc, from_mut on a local Rc/Arc clone, no Write at all, field! through a reference) x projection chain x store; plus fixed programs (counted below) for Cell / RefCell fields, the unsafe accessors, hand-written Unlock, field! through Gc or through an ambiguous unsizing coercion, dyn_collect! misuse including its internal arms, third-party index types, root replacement, &'static roots, and the known finding's two programs. Oracle: rejected by rustc, or - compiled, linked and run - the child stored into a fully traced object survives two full cycles. Non-trivial = decided either way without generator fault; programs are distinct by (start, wrappers, cell)",
        "samples": samples,
        "exhaustive": false,
        "generated_programs": n_generated,
        "fixed_programs": progs.len() - n_generated,
        "accepted_by_rustc_and_run": accepted.len(),
        "by_start": starts_json,
        "diagnostic_families": fams,
        "known_findings_reproduced": known_hits13,
        "build": tag,
    });
    let assumptions = ["rustc is the accept/reject oracle; a compiled probe contains no unsafe, so a destructed-while-stored child is a violation by the statement's own 'equivalently' clause", "grammar-bounded sample of program space (at most 5 wrappers)"];
    crate::evidence::write_part(root, "C13", tier, seed, tag, cov, &assumptions, wall, violations);
    println!("C13 {tier}: {} programs ({} accepted by rustc and run), {} decided, {:.1}s, exit {code}", progs.len(), accepted.len(), decided, wall);
    code
}

fn c15(tc: &Toolchain, tier: &str, tag: &str, seed: u64, thorough: bool, root: &str, threads: usize, t0: Instant) -> i32 {
    use std::collections::BTreeMap;
    let n_shapes = std::env::var("GCVERIF_CASES").ok().and_then(|s| s.parse().ok()).unwrap_or(if thorough { 5000usize } else { 480 });
    let n_reject = if thorough { 600 } else { 80 };
    let mut runner = rng_runner(seed, "C15");
    let strat = crate::c15::shape_strategy(3);
    let shapes: Vec<(usize, crate::c15::Shape)> = (0..n_shapes).map(|i| (i, strat.new_tree(&mut runner).unwrap().current())).collect();
    let batches: Vec<Vec<(usize, crate::c15::Shape)>> = shapes.chunks(24).map(|c| c.to_vec()).collect();
    // 1. compile, link and run the batches
    let results = par_map(&batches, threads, |bi, b| {
        let prog = crate::c15::batch_program(b);
        let c = tc.compile(&format!("c15_batch_{bi}"), &prog, true);
        match c.bin {
            Some(bin) => {
                let r = tc.run(&bin, 60);
                let _ = std::fs::remove_file(&bin);
                (true, r.0, r.1, String::new())
            }
            None => (false, None, String::new(), c.stderr),
        }
    });
    let mut code = 0;
    let mut violations = 0u32;
    let mut first_violation: Option<(String, String)> = None;
    let mut classes: BTreeMap<String, u64> = BTreeMap::new();
    let mut nontrivial = 0usize;
    let mut checked_shapes = 0usize;
    let mut samples: Vec<serde_json::Value> = Vec::new();
    for (bi, (compiled, rc, out, stderr)) in results.iter().enumerate() {
        if !compiled {
            // find the offending shape(s)
            let singles = par_map(&batches[bi], threads, |_, (i, sh)| {
                let prog = crate::c15::batch_program(&[(*i, sh.clone())]);
                let c = tc.compile(&format!("c15_single_{i}"), &prog, false);
                (c.ok, c.stderr)
            });
            let mut found = false;
            for ((i, sh), (ok, err)) in batches[bi].iter().zip(singles) {
                if !ok {
                    found = true;
                    eprintln!("gcverif: a generated valid shape does not compile (cannot decide): shape {i} {}: {}", sh.class(), err.lines().take(8).collect::<Vec<_>>().join(" | "));
                    eprintln!("{}", sh.decl(&format!("S{i}"), None, ""));
                }
            }
            if !found {
                eprintln!("gcverif: batch {bi} does not compile although every shape does (cannot decide): {}", stderr.lines().take(6).collect::<Vec<_>>().join(" | "));
            }
            code = code.max(2);
            continue;
        }
        checked_shapes += batches[bi].len();
        for (_, sh) in &batches[bi] {
            *classes.entry(sh.class()).or_insert(0) += 1;
            if sh.nontrivial() {
                nontrivial += 1;
            }
        }
        if *rc != Some(0) {
            let fails: Vec<&str> = out.lines().filter(|l| l.starts_with("FAIL")).collect();
            if fails.is_empty() {
                eprintln!("gcverif: batch {bi} ended with {rc:?} without a verdict (cannot decide): {}", out.lines().take(4).collect::<Vec<_>>().join(" | "));
                code = code.max(2);
                continue;
            }
            violations += fails.len() as u32;
            if first_violation.is_none() {
                // isolate the first failing shape into a replayable single-shape program
                let idx: usize = fails[0].split("shape ").nth(1).and_then(|s| s.split(' ').next()).and_then(|s| s.parse().ok()).unwrap_or(batches[bi][0].0);
                if let Some((i, sh)) = batches[bi].iter().find(|(i, _)| *i == idx) {
                    first_violation = Some((fails[0].to_string(), crate::c15::batch_program(&[(*i, sh.clone())])));
                }
            }
        }
        if samples.len() < 2 {
            let (i, sh) = &batches[bi][0];
            samples.push(serde_json::json!({"shape": sh.class(), "definition": sh.decl(&format!("S{i}"), None, "")}));
        }
    }
    // 2. rejection probes
    let rshapes: Vec<crate::c15::Shape> = (0..n_reject).map(|_| strat.new_tree(&mut runner).unwrap().current()).collect();
    let picks: Vec<usize> = (0..n_reject).map(|_| proptest::num::usize::ANY.new_tree(&mut runner).unwrap().current() % 97).collect();
    let probes = crate::c15::reject_probes(&rshapes, &picks);
    let rres = par_map(&probes, threads, |i, (_, bad, twin)| (tc.compile(&format!("c15_rej_{i}"), bad, false), tc.compile(&format!("c15_twin_{i}"), twin, false)));
    let mut rejected: BTreeMap<String, u64> = BTreeMap::new();
    let known15 = known_signatures(root, "C15");
    let mut known_hits15: Vec<String> = Vec::new();
    for ((class, bad, _), (b, t)) in probes.iter().zip(rres) {
        if !t.ok {
            eprintln!("gcverif: defect-free twin of a rejection probe does not compile (cannot decide): {class}: {}", t.stderr.lines().take(6).collect::<Vec<_>>().join(" | "));
            code = code.max(2);
            continue;
        }
        if !b.ok && (b.stderr.contains("conflicting generic parameters") || crate::probe::generator_fault(&b.stderr)) {
            eprintln!("gcverif: a rejection probe was rejected for an unrelated reason (cannot decide): {class}: {}", b.stderr.lines().take(4).collect::<Vec<_>>().join(" | "));
            code = code.max(2);
            continue;
        }
        if b.ok && known15.iter().any(|k| class.starts_with(k.as_str())) {
            // listed as `known:` in KNOWN_FINDINGS.txt: reported by ./check as a KNOWN-FINDING line
            known_hits15.push(class.clone());
            continue;
        }
        if b.ok {
            violations += 1;
            if first_violation.is_none() {
                first_violation = Some((format!("the derive accepted a type with the defect '{class}'"), bad.clone()));
            }
            println!("  accepted defect: {class}");
            continue;
        }
        *rejected.entry(class.clone()).or_insert(0) += 1;
    }
    let wall = t0.elapsed().as_secs_f64();
    if let Some((msg, prog)) = &first_violation {
        let accepted_defect = msg.starts_with("the derive accepted");
        let path = format!("{root}/failures/C15-{:016x}.json", hash(prog));
        let body = serde_json::json!({"property": "C15", "kind": if accepted_defect { "probe-must-not-compile" } else { "probe-must-run-clean" }, "message": msg, "program": prog});
        let _ = std::fs::write(&path, serde_json::to_string_pretty(&body).unwrap());
        println!("violated oracle: {msg} ({violations} failures in total)");
        println!("VIOLATION property=C15 replay={path}");
        code = 1;
    }
    if samples.len() < 3 {
        if let Some((class, bad, _)) = probes.first() {
            samples.push(serde_json::json!({"rejection_probe": class, "program_tail": bad.split("pub struct NoImpl").nth(1).unwrap_or("").chars().rev().take(400).collect::<String>().chars().rev().collect::<String>()}));
        }
    }
    let cov = serde_json::json!({
        "evaluations": checked_shapes + probes.len(),
        "distinct_nontrivial": nontrivial + rejected.values().sum::<u64>() as usize,
        "rule": "type shapes from a proptest strategy (unit / tuple / named structs, enums with 1-5 mixed variants, 0-2 type parameters with default / explicit / empty-plus-where bounds, a second lifetime with gc_lifetime, no_drop / unsafe_drop / require_static modes, field types from a grammar over Gc, GcWeak, Option, Vec, tuples, arrays, Box, Lock, RefLock, nested derived types, static scalars and an announcing static type, require_static at any field position) rendered into programs that build every variant with a distinct fresh pointer in every pointer position (three instantiations per generic shape), trace it with a recording Trace and compare multisets and NEEDS_TRACE with the generator's own computation; plus rejection probes (missing / duplicated mode, two attributes, no_drop + Drop, require_static on a non-'static field at a generated position or on a variant, non-Collect field at a generated position, two lifetimes without gc_lifetime, unknown option), each with a compiling defect-free twin. Non-trivial = shape with >= 2 pointer-bearing fields or >= 2 variants, or a rejection probe rejected while its twin compiled",
        "samples": samples,
        "exhaustive": false,
        "shapes_checked": checked_shapes,
        "shape_classes": classes.len(),
        "rejection_probes": probes.len(),
        "rejected_by_class": rejected,
        "known_findings_reproduced": known_hits15,
        "build": tag,
    });
    let assumptions = ["rustc compiles the generated programs as a user's compiler would; the generator's own NEEDS_TRACE computation follows the statement (disjunction over traced field types)", "grammar-bounded sample of shape space (<= 5 fields per variant, <= 5 variants, type nesting depth <= 3)"];
    crate::evidence::write_part(root, "C15", tier, seed, tag, cov, &assumptions, wall, violations);
    println!("C15 {tier}: {checked_shapes} shapes in {} batches, {} rejection probes, {:.1}s, exit {code}", batches.len(), probes.len(), wall);
    code
}
