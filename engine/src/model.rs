//! Shadow model: object graph as the harness built it, per-object status driven by observed
//! events, reachability.

use std::collections::HashMap;

use crate::lang::Kind;

#[derive(Clone, Copy, Debug, PartialEq, Eq)]
pub enum Status {
    Live,
    /// value destructed, block still allocated (shell)
    Destructed,
    Released,
}

#[derive(Clone, Debug)]
pub struct MObj {
    pub id: u32,
    pub arena: u8,
    pub kind: Kind,
    pub addr: usize,
    pub block: usize,
    pub strong: Vec<Option<u32>>,
    pub weak: Vec<Option<u32>>,
    pub status: Status,
    pub drops: u32,
    pub frees: u32,
    /// allocated while the arena was in this observable phase (0 S,1 Mk,2 Md,3 Sw)
    pub born_phase: u8,
    /// index of the top-level step during which it was allocated
    pub born_step: u32,
    /// its destructor was made to unwind (fault injection): the collector may never release its block
    pub fault_exempt: bool,
}

#[derive(Clone, Debug)]
pub struct MHandle {
    pub arena: u8,
    pub set: u32,
    pub target: u32,
    pub alive: bool,
}

#[derive(Clone, Debug)]
pub struct MArena {
    pub alive: bool,
    pub root_b: bool,
    pub root_s: Vec<Option<u32>>, // ROOT_STRONG entries (+1 "extra" when root_b)
    pub root_w: Vec<Option<u32>>,
    pub preset: u8,
    /// pacing changed since the collector last woke (C09 bookkeeping)
    pub allocs_total: u64,
}

#[derive(Default)]
pub struct Model {
    pub objs: Vec<MObj>,
    pub arenas: Vec<MArena>,
    pub handles: Vec<MHandle>,
    pub by_addr: HashMap<usize, u32>,
    pub by_block: HashMap<usize, u32>,
}

impl Model {
    pub fn obj(&self, id: u32) -> &MObj {
        &self.objs[id as usize]
    }
    pub fn obj_mut(&mut self, id: u32) -> &mut MObj {
        &mut self.objs[id as usize]
    }

    pub fn next_id(&self) -> u32 {
        self.objs.len() as u32
    }

    pub fn add(&mut self, o: MObj) {
        assert_eq!(o.id as usize, self.objs.len());
        self.by_addr.insert(o.addr, o.id);
        self.by_block.insert(o.block, o.id);
        self.objs.push(o);
    }

    /// Strong successors of an object (slot targets; for a root set the targets of its live handles).
    pub fn succ(&self, id: u32, out: &mut Vec<u32>) {
        let o = self.obj(id);
        for t in o.strong.iter().flatten() {
            out.push(*t);
        }
        if o.kind == Kind::Set {
            for h in &self.handles {
                if h.alive && h.set == id {
                    out.push(h.target);
                }
            }
        }
    }

    /// Strong closure from the root of `arena`, as a membership vector indexed by object id.
    pub fn closure(&self, arena: u8) -> Vec<bool> {
        let mut seen = vec![false; self.objs.len()];
        let mut stack: Vec<u32> = Vec::new();
        if let Some(a) = self.arenas.get(arena as usize) {
            if a.alive {
                for t in a.root_s.iter().flatten() {
                    stack.push(*t);
                }
            }
        }
        self.closure_from(&mut seen, stack);
        seen
    }

    pub fn closure_from(&self, seen: &mut Vec<bool>, mut stack: Vec<u32>) {
        let mut tmp = Vec::new();
        while let Some(x) = stack.pop() {
            if seen[x as usize] {
                continue;
            }
            seen[x as usize] = true;
            tmp.clear();
            self.succ(x, &mut tmp);
            for t in &tmp {
                if !seen[*t as usize] {
                    stack.push(*t);
                }
            }
        }
    }

    /// Objects not in `reach` to which the root or a member of `reach` holds a weak edge.
    pub fn weakly_held(&self, arena: u8, reach: &[bool]) -> Vec<bool> {
        let mut w = vec![false; self.objs.len()];
        let a = &self.arenas[arena as usize];
        for t in a.root_w.iter().flatten() {
            if !reach[*t as usize] {
                w[*t as usize] = true;
            }
        }
        for o in &self.objs {
            if o.arena == arena && reach[o.id as usize] {
                for t in o.weak.iter().flatten() {
                    if !reach[*t as usize] {
                        w[*t as usize] = true;
                    }
                }
            }
        }
        w
    }

    pub fn count_unreleased(&self, arena: u8) -> usize {
        self.objs.iter().filter(|o| o.arena == arena && o.status != Status::Released).count()
    }
}
