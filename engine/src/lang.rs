//! History language: what a generated case is made of.

use serde::{Deserialize, Serialize};

#[derive(Clone, Copy, Debug, PartialEq, Eq, Hash, Serialize, Deserialize)]
pub enum Api {
    CollectDebt,
    MarkDebt,
    FinishMarking,
    CycleDebt,
    FinishCycle,
}

impl Api {
    pub const ALL: [Api; 5] = [Api::CollectDebt, Api::MarkDebt, Api::FinishMarking, Api::CycleDebt, Api::FinishCycle];
    pub fn debt_driven(self) -> bool {
        matches!(self, Api::CollectDebt | Api::MarkDebt | Api::CycleDebt)
    }
    pub fn name(self) -> &'static str {
        match self {
            Api::CollectDebt => "collect_debt",
            Api::MarkDebt => "mark_debt",
            Api::FinishMarking => "finish_marking",
            Api::CycleDebt => "cycle_debt",
            Api::FinishCycle => "finish_cycle",
        }
    }
}

#[derive(Clone, Copy, Debug, PartialEq, Eq, Hash, Serialize, Deserialize)]
pub enum Kind {
    D,
    R,
    L,
    LS,
    LB,
    RB,
    OB,
    Sl,
    TSl,
    SH,
    TSH,
    Str,
    TStr,
    Dyn,
    Arr,
    P,
    DB,
    NT,
    HSl,
    Set,
}

impl Kind {
    pub const ALL: [Kind; 20] = [
        Kind::D,
        Kind::R,
        Kind::L,
        Kind::LS,
        Kind::LB,
        Kind::RB,
        Kind::OB,
        Kind::Sl,
        Kind::TSl,
        Kind::SH,
        Kind::TSH,
        Kind::Str,
        Kind::TStr,
        Kind::Dyn,
        Kind::Arr,
        Kind::P,
        Kind::DB,
        Kind::NT,
        Kind::HSl,
        Kind::Set,
    ];
    pub fn has_tok(self) -> bool {
        matches!(self, Kind::D | Kind::R | Kind::L | Kind::LS | Kind::RB | Kind::SH | Kind::TSH | Kind::Dyn | Kind::P | Kind::DB | Kind::NT | Kind::HSl)
    }
    pub fn needs_trace(self) -> bool {
        !matches!(self, Kind::L | Kind::LS | Kind::Str | Kind::TStr | Kind::NT)
    }
    /// number of strong slots that can be re-assigned after construction
    pub fn mutable_strong(self) -> usize {
        match self {
            Kind::D => crate::heap::D_STRONG,
            Kind::R => crate::heap::R_STRONG,
            Kind::LB => 1,
            Kind::RB => crate::heap::RB_STRONG,
            Kind::OB => 1,
            Kind::P => 2,
            _ => 0,
        }
    }
    pub fn mutable_weak(self) -> usize {
        match self {
            Kind::D => crate::heap::D_WEAK,
            Kind::R => crate::heap::R_WEAK,
            Kind::RB => crate::heap::RB_WEAK,
            Kind::P => 1,
            _ => 0,
        }
    }
    /// strong slots filled at construction
    pub fn ctor_strong(self) -> usize {
        match self {
            Kind::D | Kind::Dyn => crate::heap::D_STRONG,
            Kind::R => crate::heap::R_STRONG,
            Kind::LB | Kind::OB | Kind::DB => 1,
            Kind::RB => crate::heap::RB_STRONG,
            Kind::P => 2,
            Kind::Sl | Kind::TSl | Kind::SH | Kind::TSH | Kind::Arr => 3,
            _ => 0,
        }
    }
    pub fn ctor_weak(self) -> usize {
        match self {
            Kind::D | Kind::Dyn => crate::heap::D_WEAK,
            Kind::R => crate::heap::R_WEAK,
            Kind::RB => crate::heap::RB_WEAK,
            Kind::P | Kind::DB => 1,
            _ => 0,
        }
    }
    pub fn stashable(self) -> bool {
        matches!(self, Kind::D | Kind::R | Kind::RB | Kind::LB | Kind::L)
    }
}

/// Operand selector: a byte mapped monotonically onto the current operand list.
pub type Sel = u8;

#[derive(Clone, Debug, PartialEq, Serialize, Deserialize)]
pub enum MutOp {
    /// Allocate; `edges` select initial strong targets (0 = none), `wedge` an initial weak target.
    /// `len` is the slice length for slice kinds (0..=3).
    Alloc { kind: Kind, edges: [Sel; 3], wedge: Sel, len: u8 },
    /// Store `child` (None = clear) into strong slot `slot` of `parent` through the adoption path
    /// that belongs to (kind of parent, slot); `variant` picks the barrier form for raw nodes and
    /// the alternative spelling elsewhere.
    Link { parent: Sel, slot: u8, child: Option<Sel>, variant: u8 },
    LinkWeak { parent: Sel, slot: u8, child: Option<Sel>, variant: u8 },
    /// Root slot stores (effective under mutate_root / map_root / construction; otherwise skipped).
    RootSet { slot: u8, child: Option<Sel> },
    RootWeak { slot: u8, child: Option<Sel> },
    /// Query the weak pointer in `holder`'s weak slot; optionally store a successful upgrade.
    Upgrade { holder: Sel, wslot: u8, store: Option<(Sel, u8, u8)> },
    IsDropped { holder: Sel, wslot: u8 },
    /// finalize only
    IsDead { holder: Sel, wslot: u8 },
    /// finalize only: resurrect through the weak pointer (`strong` = upgrade first and use Gc::resurrect)
    Resurrect { holder: Sel, wslot: u8, strong: bool },
    /// finalize only: check is_dead of every reachable object and of the closure of dead objects
    /// that can be named through weak pointers
    FinalizeScan,
    Stash { set: Sel, target: Sel },
    Fetch { handle: u8, set: Sel },
    /// Barrier call with no store in the same op. variant: 0 backward(p,Some c) 1 backward(p,None)
    /// 2 forward(Some p,c) 3 forward(None,c) 4 backward_weak(p,c) 5 forward_weak(Some p,c)
    /// 6 forward_weak(None,c) 7 Gc::write(p) only
    BarrierOnly { variant: u8, parent: Sel, child: Sel },
    /// allocate n unlinked temporaries that are touched again at the end of the callback
    Temps { n: u8 },
    /// deref and verify everything the callback can reach
    ReadAll,
    AdjustDebt { x: f64 },
    SetPacing { preset: u8 },
    /// mutate a leaf (barrier on an object that needs no tracing)
    PokeLeaf { target: Sel },
    /// Grow a rooted chain (pacing workloads): allocate a node whose strong slot 1 points to the
    /// current content of root slot `slot`, then store the node into that root slot. `dual`: the node
    /// is a pair node that also holds a fresh leaf weakly (traced first) and strongly.
    Push { slot: u8, dual: bool, kind: Kind },
    /// pointer conversion chain on `target`, result stored like Link
    Convert { target: Sel, chain: u8, store: Option<(Sel, u8, u8)> },
}

#[derive(Clone, Copy, Debug, PartialEq, Eq, Serialize, Deserialize)]
pub enum Outcome {
    Ok,
    Err,
    Panic,
}

#[derive(Clone, Copy, Debug, PartialEq, Eq, Serialize, Deserialize)]
pub enum Then {
    Nothing,
    StartSweeping,
}

#[derive(Clone, Debug, PartialEq, Serialize, Deserialize)]
pub enum Step {
    Mutate { arena: u8, via_root: bool, ops: Vec<MutOp>, panic_at: Option<u8> },
    /// plain API call with whatever debt there is
    Collect { arena: u8, api: Api },
    /// `units` times: set the debt to a tiny positive amount, call the (debt-driven) API
    Work { arena: u8, api: Api, units: u8 },
    /// finish_marking()/mark_debt() and, if a MarkedArena comes back, finalize with these ops
    Finalize { arena: u8, forced: bool, ops: Vec<MutOp>, panic_at: Option<u8>, then: Then },
    AdjustDebt { arena: u8, x: f64 },
    SetPacing { arena: u8, preset: u8 },
    MapRoot { arena: u8, fallible: bool, outcome: Outcome, ops: Vec<MutOp> },
    CloneHandle { h: u8 },
    /// `dst.clone_from(&src)` on two live handles of the same payload type
    CloneFromHandle { dst: u8, src: u8 },
    DropHandle { h: u8 },
    /// the handle is dropped while the thread unwinds from an unrelated panic
    DropHandleUnwinding { h: u8 },
    ArmTracePanic { k: u8 },
    /// the k-th destructor run by the next arena drop panics (fault injection for C04 / C11)
    ArmDropPanic { k: u8 },
    /// the k-th destructor run by the next collection call panics (once)
    ArmSweepPanic { k: u8 },
    /// the arena is dropped while the thread unwinds from an unrelated panic
    DropArenaUnwinding { arena: u8 },
    NewArena { preset: u8, fallible: bool, outcome: Outcome, ops: Vec<MutOp> },
    DropArena { arena: u8 },
    /// finish_cycle(); finish_cycle(); then the exactness oracle
    Settle { arena: u8 },
    /// the phase protocol on a separate small arena whose root type holds no pointers (`()`, an
    /// integer, a `Static`, a derived struct without Gc fields) or, as a control, one that does
    PlainRootProtocol { root: u8, variant: u8 },
    /// `rootless_mutate` on its temporary arena: `n` allocations with observable destructors
    /// (optionally linked into a cycle), then the callback returns or panics; everything the
    /// callback allocated must be destructed by the time the call has returned or unwound
    Rootless { n: u8, cyclic: bool, panics: bool },
}

#[derive(Clone, Debug, PartialEq, Serialize, Deserialize)]
pub struct Case {
    pub steps: Vec<Step>,
}

impl Case {
    pub fn to_json(&self) -> String {
        serde_json::to_string(self).unwrap()
    }
    pub fn from_json(s: &str) -> Result<Case, String> {
        serde_json::from_str(s).map_err(|e| e.to_string())
    }
    pub fn hash64(&self) -> u64 {
        use std::hash::{Hash, Hasher};
        let mut h = std::collections::hash_map::DefaultHasher::new();
        self.to_json().hash(&mut h);
        h.finish()
    }
}

/// Pacing presets. Index taken modulo the table length.
pub fn pacing_preset(p: u8) -> gc_arena::metrics::Pacing {
    use gc_arena::metrics::Pacing;
    const T: [Pacing; 8] = [
        // 0: small heaps wake quickly
        Pacing { sleep_factor: 0.5, min_sleep: 4, mark_factor: 0.1, trace_factor: 0.4, keep_factor: 0.05, drop_factor: 0.2, free_factor: 0.3 },
        // 1: the crate default
        Pacing::DEFAULT,
        // 2: stop the world, short sleep
        Pacing { sleep_factor: 1.0, min_sleep: 2, mark_factor: 0.0, trace_factor: 0.0, keep_factor: 0.0, drop_factor: 0.0, free_factor: 0.0 },
        // 3: the crate's stop-the-world default
        Pacing::STOP_THE_WORLD,
        // 4: tiny factors, never sleeps
        Pacing { sleep_factor: 0.0, min_sleep: 0, mark_factor: 0.01, trace_factor: 0.01, keep_factor: 0.01, drop_factor: 0.01, free_factor: 0.01 },
        // 5: sums close to one
        Pacing { sleep_factor: 0.25, min_sleep: 1, mark_factor: 0.3, trace_factor: 0.35, keep_factor: 0.3, drop_factor: 0.35, free_factor: 0.6 },
        // 6: only sweeping is charged
        Pacing { sleep_factor: 0.0, min_sleep: 3, mark_factor: 0.0, trace_factor: 0.0, keep_factor: 0.2, drop_factor: 0.3, free_factor: 0.3 },
        // 7: long sleep
        Pacing { sleep_factor: 3.0, min_sleep: 16, mark_factor: 0.2, trace_factor: 0.2, keep_factor: 0.2, drop_factor: 0.2, free_factor: 0.2 },
    ];
    T[p as usize % T.len()]
}
