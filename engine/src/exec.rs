//! Interpreter state, violation records, coverage counters, event processing.

use std::collections::BTreeMap;

use gc_arena::arena::CollectionPhase;
use gc_arena::metrics::Metrics;

use crate::heap::{AnyArena, Handle};
use crate::model::*;
use crate::obs::{self, Ctx, Ev};

#[derive(Clone, Debug)]
pub struct Violation {
    pub prop: &'static str,
    pub tag: &'static str,
    pub msg: String,
    pub step: usize,
    /// case-level context at the time of the violation
    pub after_fault: bool,
    pub multi_arena: bool,
    pub has_upgrade_store: bool,
    pub has_stash: bool,
    pub active_adoptions: u32,
}

#[derive(Clone, Debug, Default)]
pub struct Cov {
    pub steps: u32,
    pub ops: u32,
    pub ops_skipped: u32,
    pub allocs: u32,
    pub adoptions: u32,
    /// adoptions / root replacements performed while the arena was Marking / Marked / Sweeping
    pub adopt_active: [u32; 4],
    pub cycles_completed: u32,
    pub cycle_completed_after_active_adopt: bool,
    pub pending_active_adopt: bool,
    pub collect_calls: u32,
    pub work_units: u32,
    pub phase_seen: [u32; 4],
    pub settles: u32,
    pub settle_nontrivial: u32,
    pub garbage_cycle_at_settle: u32,
    pub weak_queries: u32,
    pub weak_q_sweeping_weakonly: u32,
    pub upgrade_store_active: u32,
    pub upgrade_none_live: u32,
    pub callbacks_with_debt_active_temps: u32,
    pub arena_drop_phase: [u32; 4],
    pub arena_drop_with_shell: u32,
    pub arena_drop_faults: u32,
    pub handle_clone_froms: u32,
    pub plain_root_walks: u32,
    pub rootless_calls: u32,
    pub rootless_panics: u32,
    pub sweep_drop_faults: u32,
    pub arena_drops_unwinding: u32,
    pub faults_trace: u32,
    pub faults_callback: u32,
    pub faults_ctor: u32,
    pub used_after_fault: u32,
    pub finalize_calls: u32,
    pub finalize_after_mutation: u32,
    pub resurrect_dead_with_child: u32,
    pub resurrect_calls: u32,
    pub stash_active: u32,
    pub slot_reuse_live: u32,
    pub foreign_fetch: u32,
    pub other_arena_active: u32,
    pub barrier_black_nontracing: u32,
    pub barrier_black_tracing: u32,
    pub taint_skips: u32,
    /// (path, phase, parent colour, child colour) -> count; colours 0..3 from the hook, 4 = fresh
    pub cells: BTreeMap<(u8, u8, u8, u8), u32>,
    /// (phase before, api, debt class) -> count
    pub c08: BTreeMap<(u8, u8, u8), u32>,
    /// (weak query kind, phase, target state) -> count
    pub weak_cells: BTreeMap<(u8, u8, u8), u32>,
    /// (fault kind, phase) -> count
    pub fault_cells: BTreeMap<(u8, u8), u32>,
    pub c09_tracked_cycles: u32,
    pub c09_bound_checks: u32,
    pub c09_sleep_checks: u32,
    pub c09_multi_call_cycles: u32,
    pub c09_sleep_crossed: u32,
    pub c09_credit_checks: u32,
    pub convert_ops: u32,
}


impl Cov {
    pub fn merge(&mut self, o: &Cov) {
        macro_rules! add {
            ($($f:ident),*) => { $( self.$f += o.$f; )* };
        }
        add!(
            steps, ops, ops_skipped, allocs, adoptions, cycles_completed, collect_calls, work_units, settles, settle_nontrivial,
            garbage_cycle_at_settle, weak_queries, weak_q_sweeping_weakonly, upgrade_store_active, upgrade_none_live,
            callbacks_with_debt_active_temps, arena_drop_with_shell, arena_drop_faults, handle_clone_froms, plain_root_walks, rootless_calls, rootless_panics, sweep_drop_faults, arena_drops_unwinding, faults_trace, faults_callback, faults_ctor, used_after_fault,
            finalize_calls, finalize_after_mutation, resurrect_dead_with_child, resurrect_calls, stash_active, slot_reuse_live,
            foreign_fetch, other_arena_active, barrier_black_nontracing, barrier_black_tracing, taint_skips, c09_tracked_cycles,
            c09_bound_checks, c09_sleep_checks, c09_multi_call_cycles, c09_sleep_crossed, c09_credit_checks, convert_ops
        );
        for i in 0..4 {
            self.adopt_active[i] += o.adopt_active[i];
            self.phase_seen[i] += o.phase_seen[i];
            self.arena_drop_phase[i] += o.arena_drop_phase[i];
        }
        self.cycle_completed_after_active_adopt |= o.cycle_completed_after_active_adopt;
        for (k, v) in &o.cells {
            *self.cells.entry(*k).or_insert(0) += v;
        }
        for (k, v) in &o.c08 {
            *self.c08.entry(*k).or_insert(0) += v;
        }
        for (k, v) in &o.weak_cells {
            *self.weak_cells.entry(*k).or_insert(0) += v;
        }
        for (k, v) in &o.fault_cells {
            *self.fault_cells.entry(*k).or_insert(0) += v;
        }
    }

    pub fn to_json(&self) -> serde_json::Value {
        let cells: Vec<String> = self.cells.iter().map(|(k, v)| format!("path{}:phase{}:parent{}:child{}={}", k.0, k.1, k.2, k.3, v)).collect();
        let c08: Vec<String> = self.c08.iter().map(|(k, v)| format!("phase{}:api{}:debt{}={}", k.0, k.1, k.2, v)).collect();
        let weak: Vec<String> = self.weak_cells.iter().map(|(k, v)| format!("query{}:phase{}:target{}={}", k.0, k.1, k.2, v)).collect();
        let faults: Vec<String> = self.fault_cells.iter().map(|(k, v)| format!("fault{}:phase{}={}", k.0, k.1, v)).collect();
        serde_json::json!({
            "steps": self.steps, "ops": self.ops, "ops_skipped_or_degraded": self.ops_skipped, "allocations": self.allocs,
            "adoptions": self.adoptions, "adoptions_by_phase_S_Mk_Md_Sw": self.adopt_active, "cycles_completed": self.cycles_completed,
            "collection_calls": self.collect_calls, "single_unit_increments": self.work_units, "calls_by_phase_S_Mk_Md_Sw": self.phase_seen,
            "settles": self.settles, "settles_nontrivial": self.settle_nontrivial, "garbage_cycle_members_at_settle": self.garbage_cycle_at_settle,
            "weak_queries": self.weak_queries, "weak_queries_sweeping_weak_only": self.weak_q_sweeping_weakonly,
            "upgrade_and_store_while_active": self.upgrade_store_active, "upgrade_refused_live_weak_only_sweeping": self.upgrade_none_live,
            "callbacks_with_debt_active_phase_and_temps": self.callbacks_with_debt_active_temps,
            "arena_drops_by_phase_S_Mk_Md_Sw": self.arena_drop_phase, "arena_drops_with_shell": self.arena_drop_with_shell, "arena_drops_with_destructor_panic": self.arena_drop_faults, "handle_clone_from_calls": self.handle_clone_froms, "plain_root_protocol_walks": self.plain_root_walks, "rootless_mutate_calls": self.rootless_calls, "rootless_mutate_calls_with_panic": self.rootless_panics, "collection_calls_with_destructor_panic": self.sweep_drop_faults, "arena_drops_while_unwinding": self.arena_drops_unwinding,
            "faults_trace": self.faults_trace, "faults_callback": self.faults_callback, "faults_ctor_or_map_root": self.faults_ctor,
            "steps_after_a_fault": self.used_after_fault, "finalize_calls": self.finalize_calls, "finalize_after_mutation": self.finalize_after_mutation,
            "resurrect_calls": self.resurrect_calls, "resurrect_dead_with_child": self.resurrect_dead_with_child,
            "stash_while_active": self.stash_active, "slot_reuse_with_live_handle": self.slot_reuse_live, "foreign_fetches": self.foreign_fetch,
            "steps_with_other_arena_active": self.other_arena_active,
            "barrier_on_black_tracing": self.barrier_black_tracing, "barrier_on_black_nontracing": self.barrier_black_nontracing,
            "c09_tracked_cycles": self.c09_tracked_cycles, "c09_bound_checks": self.c09_bound_checks, "c09_sleep_checks": self.c09_sleep_checks,
            "c09_cycles_with_3plus_calls": self.c09_multi_call_cycles, "c09_sleep_allowance_crossed": self.c09_sleep_crossed, "c09_credit_checks": self.c09_credit_checks,
            "conversion_ops": self.convert_ops,
            "adoption_cells": cells, "c08_triples": c08, "weak_cells": weak, "fault_cells": faults,
        })
    }
}

pub fn phase_ix(p: CollectionPhase) -> u8 {
    match p {
        CollectionPhase::Sleeping => 0,
        CollectionPhase::Marking => 1,
        CollectionPhase::Marked => 2,
        CollectionPhase::Sweeping => 3,
    }
}

#[derive(Clone, Copy, Debug, Default)]
pub struct ExecOpts {
    /// profile `chk` (debug assertions) — informational
    pub chk: bool,
    /// enable pacing oracles (C09) — requires histories without artificial debt reduction
    pub c09: bool,
    /// use the hook snapshot for classification
    pub hook: bool,
    /// cap on live objects per case (0 = default 64)
    pub max_live: usize,
    /// really free released Gc blocks at once (addresses get reused within the case)
    pub reuse_addresses: bool,
}

/// Per-arena bookkeeping that is not part of the graph model.
#[derive(Clone, Debug, Default)]
pub struct ArenaBk {
    /// C07: objects protected by resurrection until the next cycle-start marker
    pub protected: Vec<u32>,
    /// C07: the objects that were resurrected in the running cycle (roots of the protected closure)
    pub resurrected: Vec<u32>,
    /// C07: mutation happened since the running cycle left Sleeping
    pub mutated_since_wake: bool,
    /// root barrier owed: a mutate_root / map_root happened while marking
    pub root_retrace_owed: bool,
    /// C09 bookkeeping
    pub c09: C09Bk,
    /// allocations made in callbacks since the arena was created
    pub allocs: u64,
    /// number of cycle-start markers seen
    pub cycles_started: u64,
    pub pacing_changed_in_cycle: bool,
}

#[derive(Clone, Debug, Default)]
pub struct C09Bk {
    pub tracked: bool,
    pub tainted: bool,
    pub h: f64,
    pub allocs_at_wake: u64,
    pub calls_in_cycle: u32,
    /// sleep bookkeeping: Some((allocs at cycle end, survivors)) when the last cycle finished with
    /// no debt carried over
    pub sleep: Option<(u64, f64, f64)>,
    pub allocs_while_sweeping: u64,
    pub negative_adjust: bool,
    /// credited work observed in the tracked cycle (lower bound: debt decreases across calls)
    pub credits: f64,
}

pub struct Exec {
    pub model: Model,
    pub arenas: Vec<Option<AnyArena>>,
    pub metrics: Vec<Option<Metrics>>,
    pub bk: Vec<ArenaBk>,
    pub handles: Vec<Option<Handle>>,
    pub violations: Vec<Violation>,
    pub cov: Cov,
    pub opts: ExecOpts,
    pub step_ix: usize,
    pub fault_injected: bool,
    pub has_upgrade_store: bool,
    pub has_stash: bool,
    pub arenas_created: u32,
    pub active_adoptions: u32,
    pub internal_errors: Vec<String>,
    pub cb: CbStats,
    /// a violation after which the heap under test may be corrupt: stop touching it
    pub fatal: bool,
    pub pending_drop_fuse: Option<u32>,
    pub pending_sweep_fuse: Option<u32>,
    pub leaked_by_fault: usize,
    pub drop_unwinding: bool,
}

impl Exec {
    pub fn new(opts: ExecOpts) -> Exec {
        Exec {
            model: Model::default(),
            arenas: Vec::new(),
            metrics: Vec::new(),
            bk: Vec::new(),
            handles: Vec::new(),
            violations: Vec::new(),
            cov: Cov::default(),
            opts,
            step_ix: 0,
            fault_injected: false,
            has_upgrade_store: false,
            has_stash: false,
            arenas_created: 0,
            active_adoptions: 0,
            internal_errors: Vec::new(),
            cb: CbStats::default(),
            fatal: false,
            pending_drop_fuse: None,
            pending_sweep_fuse: None,
            leaked_by_fault: 0,
            drop_unwinding: false,
        }
    }

    pub fn violate(&mut self, prop: &'static str, tag: &'static str, msg: String) {
        // memory-safety class: the real heap can no longer be trusted
        if matches!(prop, "C01" | "C03" | "C04" | "C05" | "C06" | "C11" | "C14" | "C17" | "C19") {
            self.fatal = true;
        }
        if self.violations.len() < 32 {
            let v = Violation {
                prop,
                tag,
                msg,
                step: self.step_ix,
                after_fault: self.fault_injected,
                multi_arena: self.arenas_created > 1,
                has_upgrade_store: self.has_upgrade_store,
                has_stash: self.has_stash,
                active_adoptions: self.active_adoptions,
            };
            obs::untracked(|| self.violations.push(v));
        }
    }

    pub fn live_objects(&self) -> usize {
        self.model.objs.iter().filter(|o| o.status != Status::Released).count()
    }

    pub fn internal(&mut self, msg: String) {
        self.fatal = true;
        obs::untracked(|| self.internal_errors.push(msg));
    }

    pub fn phase_of(&self, a: &AnyArena) -> CollectionPhase {
        match a {
            AnyArena::A(x) => x.collection_phase(),
            AnyArena::B(x) => x.collection_phase(),
        }
    }

    pub fn metrics_of(a: &AnyArena) -> &Metrics {
        match a {
            AnyArena::A(x) => x.metrics(),
            AnyArena::B(x) => x.metrics(),
        }
    }

    /// Apply observed events to the model. `arena`: the arena being operated on (None: outside any
    /// arena operation). `reach`: strong closure computed before the call, if the events may be
    /// legitimate reclamation.
    pub fn process_events_bounded(&mut self, from: usize, to: usize, arena: Option<u8>, reach: Option<&[bool]>, what: &str) -> EvSummary {
        let mut evs = obs::events_since(from);
        evs.truncate(to.saturating_sub(from));
        let mut sum = EvSummary::default();
        for ev in evs {
            match ev {
                Ev::Trace { arena: ea, id } => {
                    sum.traces += 1;
                    if id >= crate::heap::ROOT_ID_BASE {
                        sum.root_traces += 1;
                        sum.pattern.push(b'R');
                    } else {
                        sum.pattern.push(b't');
                    }
                    if Some(ea) != arena {
                        self.violate("C20", "foreign-trace", format!("{what}: trace of object {id} of arena {ea} while operating on {arena:?}"));
                    }
                }
                Ev::Drop { arena: ea, id, class, ctx } => {
                    if class != 0 {
                        sum.other_drops += 1;
                        continue;
                    }
                    sum.drops += 1;
                    sum.pattern.push(b'd');
                    if !matches!(ctx, Ctx::Collect | Ctx::ArenaDrop | Ctx::FailedCtor) {
                        self.violate("C03", "drop-outside-collection", format!("{what}: destructor of object {id} ran in context {ctx:?}"));
                    }
                    if Some(ea) != arena {
                        self.violate("C20", "foreign-drop", format!("{what}: object {id} of arena {ea} destructed while operating on {arena:?}"));
                    }
                    if (id as usize) >= self.model.objs.len() {
                        self.internal(format!("drop event for unknown id {id}"));
                        continue;
                    }
                    let protected = self.bk.get(ea as usize).map(|b| b.protected.contains(&id)).unwrap_or(false);
                    let o = self.model.obj_mut(id);
                    o.drops += 1;
                    let st = o.status;
                    if st != Status::Live {
                        self.violate("C04", "double-drop", format!("{what}: object {id} destructed again (status {st:?})"));
                    } else {
                        o.status = Status::Destructed;
                    }
                    if let Some(r) = reach {
                        if r.get(id as usize).copied().unwrap_or(false) {
                            self.violate("C01", "reachable-destructed", format!("{what}: object {id} destructed while strongly reachable"));
                        }
                    }
                    if protected {
                        self.violate("C07", "resurrected-destructed", format!("{what}: object {id} destructed in the cycle in which it was resurrected / reachable from a resurrected object"));
                    }
                    sum.dropped_ids.push(id);
                }
                Ev::Free { block, watched: _, ctx } => {
                    sum.frees += 1;
                    sum.pattern.push(b'f');
                    let Some(&id) = self.model.by_block.get(&block) else {
                        // a watched block that is not an object: builder block etc.
                        sum.other_frees += 1;
                        continue;
                    };
                    if !matches!(ctx, Ctx::Collect | Ctx::ArenaDrop | Ctx::FailedCtor) {
                        self.violate("C03", "free-outside-collection", format!("{what}: block of object {id} released in context {ctx:?}"));
                    }
                    let o = self.model.obj_mut(id);
                    o.frees += 1;
                    let (st, oa, has_tok) = (o.status, o.arena, o.kind.has_tok());
                    o.status = Status::Released;
                    if Some(oa) != arena {
                        self.violate("C20", "foreign-free", format!("{what}: object {id} of arena {oa} released while operating on {arena:?}"));
                    }
                    if st == Status::Released {
                        self.violate("C04", "double-free", format!("{what}: object {id} released twice"));
                    }
                    if st == Status::Live && has_tok {
                        self.violate("C04", "freed-undestructed", format!("{what}: object {id} released without its destructor having run"));
                    }
                    if let Some(r) = reach {
                        if r.get(id as usize).copied().unwrap_or(false) {
                            self.violate("C01", "reachable-released", format!("{what}: object {id} released while strongly reachable"));
                        }
                    }
                    sum.freed_ids.push(id);
                }
            }
        }
        for f in obs::take_faults() {
            match f {
                obs::AllocFault::LayoutMismatch { block, requested, released, watched } => {
                    let id = self.model.by_block.get(&block).copied();
                    let prop = if watched { "C04" } else { "C17" };
                    self.violate(prop, "layout-mismatch", format!("{what}: block {block:#x} (object {id:?}) requested with {requested:?} released with {released:?}"));
                }
                obs::AllocFault::DoubleFree { block } => {
                    let id = self.model.by_block.get(&block).copied();
                    self.violate("C04", "double-free", format!("{what}: block {block:#x} (object {id:?}) released twice"));
                }
                obs::AllocFault::RedZone { block, front, watched } => {
                    let id = self.model.by_block.get(&block).copied();
                    if watched {
                        self.violate("C17", "red-zone", format!("{what}: write outside block {block:#x} (object {id:?}), front={front}"));
                    } else {
                        self.internal(format!("red zone of unwatched block {block:#x} damaged (front={front})"));
                    }
                }
            }
        }
        sum
    }
}

#[derive(Clone, Debug, Default)]
pub struct CbStats {
    pub fwd_marks: u32,
    pub neg_adjust: f64,
    pub pos_adjust: f64,
    pub pacing_changed: bool,
    pub allocs: u32,
    pub mutated: bool,
    pub resurrected: Vec<u32>,
    pub resurrected_dead: bool,
    pub temps: u32,
    pub completed: bool,
}

#[derive(Default, Debug, Clone)]
pub struct EvSummary {
    pub traces: u32,
    pub root_traces: u32,
    pub drops: u32,
    pub frees: u32,
    pub other_drops: u32,
    pub other_frees: u32,
    /// 'R' root trace, 't' object trace, 'd' drop, 'f' free — in order
    pub pattern: Vec<u8>,
    pub dropped_ids: Vec<u32>,
    pub freed_ids: Vec<u32>,
    pub cycle_starts: u32,
}

pub fn debt_class(d: f64) -> u8 {
    if d <= 0.0 {
        0
    } else if d < 1e-3 {
        1
    } else if d < 1e8 {
        2
    } else {
        3
    }
}
