#![recursion_limit = "512"]
#![allow(clippy::too_many_arguments, clippy::type_complexity)]

pub mod builders;
pub mod c12;
pub mod c13;
pub mod c15;
pub mod c19p;
pub mod campaign;
pub mod convert;
pub mod crash;
pub mod decode;
pub mod driver;
pub mod enumerate;
pub mod env;
pub mod evidence;
pub mod exec;
pub mod fin;
pub mod r#gen;
pub mod heap;
pub mod impls;
pub mod inputs;
pub mod inputs_main;
pub mod layout;
pub mod lang;
pub mod model;
pub mod obs;
pub mod probe;
pub mod probes_main;
pub mod profiles;
pub mod run;
pub mod templates;
pub mod zst;


use std::time::Instant;

pub fn root_dir() -> String {
    std::env::var("GCVERIF_ROOT").unwrap_or_else(|_| "/verif".to_string())
}

pub fn seed() -> u64 {
    std::env::var("VERIF_SEED").ok().and_then(|s| s.trim().parse::<i64>().ok()).map(|v| v as u64).unwrap_or(1)
}

pub fn cli_main() {
    obs::install_panic_hook();
    let args: Vec<String> = std::env::args().collect();
    let code = match args.get(1).map(|s| s.as_str()) {
        Some("worker") => worker(&args[2], &args[3], args.get(4).map(|s| s.as_str()).unwrap_or("rel")),
        Some("replay") => replay(&args[2]),
        Some("sample") => {
            // sample <Cxx> <n> <out-file> : write n generated cases (plus the templates) as JSON lines
            let n: usize = args[3].parse().unwrap();
            use proptest::strategy::{Strategy, ValueTree};
            let rng = proptest::test_runner::TestRng::from_seed(proptest::test_runner::RngAlgorithm::ChaCha, &inputs::shard_seed(seed(), 7, &args[2]));
            let mut runner = proptest::test_runner::TestRunner::new_with_rng(Default::default(), rng);
            if &args[2] == "C17" || &args[2] == "C18" {
                let mut out = String::new();
                for _ in 0..n {
                    if &args[2] == "C17" {
                        let c = inputs_main::lcase_strategy(8).new_tree(&mut runner).unwrap().current();
                        out.push_str(&inputs_main::to_json_l(&c));
                    } else {
                        let c = inputs_main::bcase_strategy(6).new_tree(&mut runner).unwrap().current();
                        out.push_str(&inputs_main::to_json_b(&c));
                    }
                    out.push('\n');
                }
                std::fs::write(&args[4], out).unwrap();
                std::process::exit(0);
            }
            let plan = profiles::plan(&args[2]).expect("history property");
            let mut p = plan.profile.clone();
            p.max_steps = p.max_steps.min(24);
            p.max_ops = p.max_ops.min(5);
            let s = r#gen::case_strategy(&p);
            let mut out = String::new();
            for (_, c) in templates::cases(&args[2]).into_iter().take(n / 4) {
                out.push_str(&c.to_json());
                out.push('\n');
            }
            for _ in 0..n {
                out.push_str(&s.new_tree(&mut runner).unwrap().current().to_json());
                out.push('\n');
            }
            std::fs::write(&args[4], out).unwrap();
            0
        }
        Some("replay-many") => {
            // replay-many <Cxx> <file> [from] [to] : run JSON-lines cases (used under Miri)
            let text = std::fs::read_to_string(&args[3]).unwrap();
            let lines: Vec<&str> = text.lines().filter(|l| !l.trim().is_empty()).collect();
            let from: usize = args.get(4).and_then(|s| s.parse().ok()).unwrap_or(0);
            let to: usize = args.get(5).and_then(|s| s.parse().ok()).unwrap_or(lines.len()).min(lines.len());
            let mut bad = 0;
            for (i, l) in lines.iter().enumerate().take(to).skip(from) {
                if &args[2] == "C17" || &args[2] == "C18" {
                    eprintln!("MIRI-CASE {i}");
                    let o = if &args[2] == "C17" { inputs_main::layout_outcome(&serde_json::from_str(l).unwrap()) } else { inputs_main::builders_outcome(&serde_json::from_str(l).unwrap()) };
                    for e in &o.errors {
                        println!("case {i}: oracle {e}");
                        println!("CASE-JSON {l}");
                        bad += 1;
                    }
                    continue;
                }
                let case = lang::Case::from_json(l).unwrap();
                eprintln!("MIRI-CASE {i}");
                let r = driver::run_case(&case, exec::ExecOpts { hook: true, c09: &args[2] == "C09", ..Default::default() });
                for v in &r.violations {
                    if driver::relevant(&args[2], v) {
                        println!("case {i}: oracle {} {}: {}", v.prop, v.tag, v.msg);
                        println!("CASE-JSON {l}");
                        bad += 1;
                    }
                }
                for e in &r.internal {
                    println!("case {i}: internal {e}");
                }
            }
            println!("replayed {} cases, {bad} with violations", to.saturating_sub(from));
            if bad > 0 { 1 } else { 0 }
        }
        Some("shrink-crash") => {
            // shrink-crash <Cxx> <file> : reduce a case that kills the process (or violates an oracle)
            // by greedy step / op deletion, each candidate replayed in a child process
            shrink_crash(&args[2], &args[3])
        }
        Some("decode") => {
            // decode <history|layout|builders> <bytes-file> : print the case a fuzz input decodes to
            let data = std::fs::read(&args[3]).unwrap();
            match args[2].as_str() {
                "history" => println!("{}", decode::case(&data).to_json()),
                "layout" => println!("{}", inputs_main::to_json_l(&decode::lcase(&data))),
                _ => println!("{}", inputs_main::to_json_b(&decode::bcase(&data))),
            }
            0
        }
        Some("gen") => {
            // print a few generated cases of a profile (debugging aid)
            let plan = profiles::plan(&args[2]).expect("history property");
            let n: usize = args.get(3).and_then(|s| s.parse().ok()).unwrap_or(3);
            use proptest::strategy::{Strategy, ValueTree};
            let mut runner = proptest::test_runner::TestRunner::deterministic();
            let s = campaign::strategy(&plan, &templates::prefixes(&args[2]), plan.profile.max_steps);
            for _ in 0..n {
                println!("{}", s.new_tree(&mut runner).unwrap().current().to_json());
            }
            0
        }
        _ => {
            eprintln!("usage: gcverif worker <Cxx> <quick|thorough> [build-tag] | replay <file> | gen <Cxx> [n]");
            2
        }
    };
    std::process::exit(code);
}

fn threads() -> usize {
    std::env::var("GCVERIF_THREADS").ok().and_then(|s| s.parse().ok()).unwrap_or_else(|| std::thread::available_parallelism().map(|n| n.get()).unwrap_or(8).min(16))
}

fn worker(prop: &str, tier: &str, tag: &str) -> i32 {
    let t0 = Instant::now();
    let root = root_dir();
    let seed = seed();
    let thorough = tier == "thorough";
    let _ = std::fs::create_dir_all(format!("{root}/failures"));
    if !cfg!(miri) {
        crash::install(&format!("{root}/failures/{prop}-crash-{tag}.json"));
    }
    let _ = std::fs::remove_file(format!("{root}/failures/{prop}-crash-{tag}.json"));
    if matches!(prop, "C16" | "C17" | "C18") {
        return input_worker(prop, tier, tag, seed, thorough, &root);
    }
    if matches!(prop, "C12" | "C13" | "C15") {
        return probes_main::worker(prop, tier, tag, seed, thorough, &root, threads());
    }
    let Some(plan) = profiles::plan(prop) else {
        eprintln!("gcverif: {prop} is not decided by this engine");
        return 2;
    };

    let mut total = campaign::CampaignResult::default();
    // 1. directed templates and the regression corpus
    let mut fixed: Vec<(String, lang::Case)> = templates::cases(prop);
    let mut fixed_reuse: Vec<(String, lang::Case)> = Vec::new();
    for dir in [format!("{root}/corpus/regress/{prop}"), format!("{root}/corpus/seed")] {
        if let Ok(rd) = std::fs::read_dir(&dir) {
            let mut names: Vec<_> = rd.filter_map(|e| e.ok()).map(|e| e.path()).filter(|p| p.extension().map(|x| x == "json").unwrap_or(false)).collect();
            names.sort();
            for p in names {
                if let Ok(s) = std::fs::read_to_string(&p) {
                    match evidence::case_from_file_text(&s) {
                        Ok(c) => {
                            let reuse = serde_json::from_str::<serde_json::Value>(&s).ok().and_then(|v| v.get("reuse_addresses").and_then(|b| b.as_bool())).unwrap_or(false);
                            if reuse {
                                fixed_reuse.push((p.display().to_string(), c));
                            } else {
                                fixed.push((p.display().to_string(), c));
                            }
                        }
                        Err(e) => eprintln!("gcverif: cannot parse {}: {e}", p.display()),
                    }
                }
            }
        }
    }
    let n_fixed = fixed.len() + fixed_reuse.len();
    campaign::run_fixed(&plan, &fixed, &mut total);
    if !fixed_reuse.is_empty() {
        let mut p2 = profiles::plan(prop).unwrap();
        p2.opts.reuse_addresses = true;
        campaign::run_fixed(&p2, &fixed_reuse, &mut total);
    }

    // 2. random campaign
    if total.failure.is_none() && total.internal.is_empty() {
        let cases = std::env::var("GCVERIF_CASES").ok().and_then(|s| s.parse().ok()).unwrap_or(if thorough { plan.cases_thorough } else { plan.cases_quick });
        let prefixes = templates::prefixes(prop);
        let max_steps = if thorough { (plan.profile.max_steps * 5 / 2).min(150) } else { plan.profile.max_steps };
        if thorough {
            // half the budget on short histories (dense in small interleavings), half on long ones
            let r1 = campaign::run(&plan, cases / 2, seed, 1, &prefixes, plan.profile.max_steps, threads());
            merge(&mut total, r1);
            if total.failure.is_none() && total.internal.is_empty() {
                let mut p2 = profiles::plan(prop).unwrap();
                p2.opts.reuse_addresses = matches!(prop, "C14" | "C20");
                let r2 = campaign::run(&p2, cases / 2, seed, 2, &prefixes, max_steps, threads());
                merge(&mut total, r2);
            }
        } else if matches!(prop, "C14" | "C20") {
            // second half with address reuse: released Gc blocks are really freed at once, so that
            // identity checks by address can be confused by a new allocation at an old address
            let r = campaign::run(&plan, cases / 2, seed, 0, &prefixes, max_steps, threads());
            merge(&mut total, r);
            if total.failure.is_none() && total.internal.is_empty() {
                let mut p2 = profiles::plan(prop).unwrap();
                p2.opts.reuse_addresses = true;
                let r = campaign::run(&p2, cases / 2, seed, 3, &prefixes, max_steps, threads());
                merge(&mut total, r);
            }
        } else {
            let r = campaign::run(&plan, cases, seed, 0, &prefixes, max_steps, threads());
            merge(&mut total, r);
        }
    }
    // 2b. small-scope enumeration over a reduced alphabet
    let mut enum_info = serde_json::json!(null);
    if matches!(prop, "C01" | "C05" | "C06" | "C08") && total.failure.is_none() && total.internal.is_empty() {
        let k = enumerate::alphabet(prop).len();
        let depth = std::env::var("GCVERIF_ENUM_DEPTH").ok().and_then(|s| s.parse().ok()).unwrap_or(if thorough { if k <= 12 { 6 } else { 5 } } else if k <= 12 { 5 } else { 4 });
        let presets: &[u8] = if thorough { &[0, 2] } else { &[0] };
        let (mut r, n) = enumerate::run(&plan, depth, threads(), presets);
        if let Some(f) = r.failure.take() {
            let small = campaign::shrink(&plan, f.case);
            let rr = driver::run_case(&small, plan.opts);
            if let Some(v) = campaign::first_relevant(plan.prop, &rr) {
                r.failure = Some(campaign::Failure { case: small, violation: v, shard: usize::MAX, reuse_addresses: plan.opts.reuse_addresses });
            }
        }
        enum_info = serde_json::json!({"alphabet": k, "depth": depth, "presets": presets, "histories": n, "exhaustive_for": "all sequences of 1..=depth letters of the reduced alphabet (each followed by Settle and a full read-back), per preset"});
        merge(&mut total, r);
    }
    let mut zst_info = serde_json::json!(null);
    let mut zst_failure: Option<String> = None;
    if prop == "C19" {
        let (cells, cached, first) = inputs_main::zst_table_run();
        zst_info = serde_json::json!({"cells": cells, "cells_answered_with_the_shared_pointer": cached, "exhaustive_for": "cache alignments {1..4096, 65536, 1048576} x type alignments 1..4096 x size {0, >0} plus zero-sized types with destructors"});
        total.evaluations += cells as u64;
        zst_failure = first;
    }
    let mut conj_info = serde_json::json!(null);
    let mut conj_violation: Option<(String, String)> = None;
    let mut conj_trouble: Vec<String> = Vec::new();
    if prop == "C19" && total.failure.is_none() {
        match probe::Toolchain::from_env("C19") {
            Ok(tc) => {
                let repo_src = format!("{}/src", std::env::var("GCVERIF_REPO").unwrap_or_else(|_| "/repo".into()));
                let rep = c19p::run(&tc, threads(), &repo_src);
                tc.cleanup();
                conj_info = serde_json::json!({"probes": rep.probes, "rejected_by_rustc": rep.rejected, "compiled_and_yielded_no_pointer": rep.compiled_none, "public_safe_functions_returning_a_Gc": rep.scanned, "classified": c19p::CLASSIFIED.len()});
                total.evaluations += rep.probes as u64;
                conj_violation = rep.violation;
                conj_trouble = rep.trouble;
            }
            Err(e) => conj_trouble.push(e),
        }
    }
    let wall = t0.elapsed().as_secs_f64();

    // 3. report
    let mut code = 0;
    let mut violations = 0;
    for t in &conj_trouble {
        eprintln!("gcverif: conjuring probes cannot decide: {t}");
        code = 2;
    }
    if let Some((m, prog)) = &conj_violation {
        violations = 1;
        let path = format!("{root}/failures/{prop}-conjured.json");
        let _ = std::fs::write(&path, serde_json::to_string_pretty(&serde_json::json!({"property": prop, "kind": "probe-must-not-compile", "message": m, "program": prog})).unwrap());
        println!("violated oracle: C19 conjuring — {m}");
        println!("VIOLATION property={prop} replay={path}");
        code = 1;
    }
    if let Some(m) = &zst_failure {
        violations = 1;
        let path = format!("{root}/failures/{prop}-zstcache.json");
        let _ = std::fs::write(&path, serde_json::to_string_pretty(&serde_json::json!({"property": prop, "kind": "zst-table", "message": m})).unwrap());
        println!("violated oracle: C19 zst-cache — {m}");
        println!("VIOLATION property={prop} replay={path}");
        code = 1;
    }
    if !total.internal.is_empty() {
        eprintln!("gcverif: INTERNAL ERROR (cannot decide): {}", total.internal[0]);
        code = 2;
    }
    if let Some(f) = &total.failure {
        violations = 1;
        let path = evidence::write_failure(&root, prop, &f.case, &f.violation, f.reuse_addresses);
        println!("violated oracle: {} {} — {}", f.violation.prop, f.violation.tag, f.violation.msg);
        println!("minimal history ({} steps): {}", f.case.steps.len(), f.case.to_json());
        println!("VIOLATION property={prop} replay={path}");
        code = 1;
    }
    let nt = total.nontrivial.len() as u64;
    if code == 0 && nt < 2 {
        eprintln!("gcverif: only {nt} non-trivial cases were generated for {prop}: cannot decide");
        code = 2;
    }
    let samples: Vec<serde_json::Value> = total.samples.iter().filter_map(|s| serde_json::from_str(s).ok()).collect();
    let mut cov = serde_json::json!({
        "evaluations": total.evaluations,
        "distinct_nontrivial": nt,
        "rule": plan.rule,
        "samples": samples,
        "exhaustive": false,
        "fixed_cases_replayed_first": n_fixed,
        "build": tag,
        "threads": threads(),
        "classes": total.cov.to_json(),
        "violations_of_other_properties_seen_and_ignored_here": total.other_prop,
        "small_scope_enumeration": enum_info,
        "zst_cache_table": zst_info,
        "conjuring_probes": conj_info,
    });
    if samples.is_empty() {
        cov["samples"] = serde_json::json!([{"note": "no non-trivial case generated"}]);
    }
    evidence::write_part(&root, prop, tier, seed, tag, cov, plan.assumptions, wall, violations);
    println!("{prop} {tier} [{tag}]: {} histories, {} distinct non-trivial, {:.1}s, exit {code}", total.evaluations, nt, wall);
    code
}

fn merge(into: &mut campaign::CampaignResult, r: campaign::CampaignResult) {
    into.evaluations += r.evaluations;
    into.cov.merge(&r.cov);
    into.nontrivial.extend(r.nontrivial);
    for s in r.samples {
        if into.samples.len() < 3 {
            into.samples.push(s);
        }
    }
    for (k, v) in r.other_prop {
        *into.other_prop.entry(k).or_insert(0) += v;
    }
    into.internal.extend(r.internal);
    if into.failure.is_none() {
        into.failure = r.failure;
    }
}

fn replay(path: &str) -> i32 {
    let s = match std::fs::read_to_string(path) {
        Ok(s) => s,
        Err(e) => {
            eprintln!("cannot read {path}: {e}");
            return 2;
        }
    };
    let prop = evidence::prop_from_file_text(&s);
    if let Ok(v) = serde_json::from_str::<serde_json::Value>(&s) {
        if let Some(kind) = v.get("kind").and_then(|k| k.as_str()) {
            if kind.starts_with("probe") {
                return probes_main::replay(&v, prop.as_deref().unwrap_or("?"), path);
            }
            return replay_input(kind, &v, prop.as_deref().unwrap_or("?"), path);
        }
    }
    let case = match evidence::case_from_file_text(&s) {
        Ok(c) => c,
        Err(e) => {
            eprintln!("cannot parse {path}: {e}");
            return 2;
        }
    };
    let c09 = prop.as_deref() == Some("C09");
    let reuse = serde_json::from_str::<serde_json::Value>(&s).ok().and_then(|v| v.get("reuse_addresses").and_then(|b| b.as_bool())).unwrap_or(false);
    let r = driver::run_case(&case, exec::ExecOpts { hook: true, c09, reuse_addresses: reuse, max_live: if c09 { 3000 } else { 0 }, ..Default::default() });
    println!("history ({} steps): {}", case.steps.len(), case.to_json());
    for v in &r.violations {
        println!("oracle {} {} at step {}: {}", v.prop, v.tag, v.step, v.msg);
    }
    for i in &r.internal {
        println!("internal: {i}");
    }
    let hit = match &prop {
        Some(p) => r.violations.iter().any(|v| driver::relevant(p, v)),
        None => !r.violations.is_empty(),
    };
    if hit {
        println!("VIOLATION property={} replay={path}", prop.unwrap_or_else(|| r.violations[0].prop.to_string()));
        1
    } else {
        println!("no violation reproduced");
        0
    }
}

fn replay_input(kind: &str, v: &serde_json::Value, prop: &str, path: &str) -> i32 {
    let o = match kind {
        "layout" => match serde_json::from_value::<layout::LCase>(v["case"].clone()) {
            Ok(c) => inputs_main::layout_outcome(&c),
            Err(e) => {
                eprintln!("cannot parse case: {e}");
                return 2;
            }
        },
        "builders" => match serde_json::from_value::<builders::BCase>(v["case"].clone()) {
            Ok(c) => inputs_main::builders_outcome(&c),
            Err(e) => {
                eprintln!("cannot parse case: {e}");
                return 2;
            }
        },
        "impls" => match serde_json::from_value::<impls::ICase>(v["case"].clone()) {
            Ok(c) => inputs_main::impls_outcome(&c),
            Err(e) => {
                eprintln!("cannot parse case: {e}");
                return 2;
            }
        },
        "zst-table" => {
            let (_, _, first) = inputs_main::zst_table_run();
            inputs::Outcome { errors: first.into_iter().collect(), ..Default::default() }
        }
        "needs-trace-table" => {
            let mut o = inputs::Outcome::default();
            for (ty, got, want) in impls::nt_table() {
                if got != want {
                    o.errors.push(format!("<{ty} as Collect>::NEEDS_TRACE is {got}, expected {want}"));
                }
            }
            o
        }
        other => {
            eprintln!("unknown failure kind {other}");
            return 2;
        }
    };
    println!("case: {}", v["case"]);
    for e in &o.errors {
        println!("oracle: {e}");
    }
    if o.errors.is_empty() {
        println!("no violation reproduced");
        0
    } else {
        println!("VIOLATION property={prop} replay={path}");
        1
    }
}

fn input_worker(prop: &str, tier: &str, tag: &str, seed: u64, thorough: bool, root: &str) -> i32 {
    let Some(rep) = inputs_main::run(prop, thorough, seed, threads()) else { return 2 };
    let kind = match prop {
        "C17" => "layout",
        "C18" => "builders",
        _ => "impls",
    };
    let r = &rep.result;
    let mut code = 0;
    let mut violations = 0;
    if !r.internal.is_empty() {
        eprintln!("gcverif: INTERNAL ERROR (cannot decide): {}", r.internal[0]);
        code = 2;
    }
    if let Some(m) = &rep.fixed_failure {
        violations = 1;
        let path = format!("{root}/failures/{prop}-needs-trace.json");
        let _ = std::fs::write(&path, serde_json::to_string_pretty(&serde_json::json!({"property": prop, "kind": "needs-trace-table", "message": m, "case": null})).unwrap());
        println!("violated oracle: {m}");
        println!("VIOLATION property={prop} replay={path}");
        code = 1;
    } else if let Some((json, msg)) = &r.failure {
        violations = 1;
        use std::hash::{Hash, Hasher};
        let mut h = std::collections::hash_map::DefaultHasher::new();
        json.hash(&mut h);
        let path = format!("{root}/failures/{prop}-{:016x}.json", h.finish());
        let body = serde_json::json!({"property": prop, "kind": kind, "message": msg, "case": serde_json::from_str::<serde_json::Value>(json).unwrap()});
        let _ = std::fs::write(&path, serde_json::to_string_pretty(&body).unwrap());
        println!("violated oracle: {msg}");
        println!("minimal case: {json}");
        println!("VIOLATION property={prop} replay={path}");
        code = 1;
    }
    let distinct = r.classes.len() as u64;
    if code == 0 && distinct < 2 {
        eprintln!("gcverif: only {distinct} distinct non-trivial classes for {prop}: cannot decide");
        code = 2;
    }
    let samples: Vec<serde_json::Value> = r.samples.iter().filter_map(|s| serde_json::from_str(s).ok()).collect();
    let mut cov = serde_json::json!({
        "evaluations": r.evaluations,
        "distinct_nontrivial": distinct,
        "nontrivial_cases": r.nontrivial_cases,
        "distinct_nontrivial_case_hashes": r.distinct_hashes.len(),
        "rule": rep.rule,
        "samples": samples,
        "exhaustive": false,
        "build": tag,
        "classes": r.classes,
        "counters": r.counters,
        "extra": rep.extra,
    });
    if let Some(e) = rep.exhaustive_part {
        cov["exhaustive_part"] = serde_json::json!(e);
    }
    if samples.is_empty() {
        cov["samples"] = serde_json::json!([{"note": "no non-trivial case generated"}]);
    }
    let assumptions = [
        "the tracking global allocator reports requested and released layouts and red-zone damage faithfully",
        "the harness's own Collect / PtrMeta impls for its test types are correct",
        "bounds: sizes <= 4096 bytes, alignments <= 4096, lengths <= 300 (builders <= 40); destructor panics and allocation failure are not generated",
    ];
    evidence::write_part(root, prop, tier, seed, tag, cov, &assumptions, rep.wall, violations);
    println!("{prop} {tier} [{tag}]: {} cases, {} distinct non-trivial classes, {:.1}s, exit {code}", r.evaluations, distinct, rep.wall);
    code
}

/// A candidate "still fails" if the child dies on a signal / aborts, or reports a violation.
fn child_fails(exe: &std::path::Path, file: &str) -> bool {
    let out = std::process::Command::new("timeout").arg("60").arg(exe).arg("replay").arg(file).stdout(std::process::Stdio::null()).stderr(std::process::Stdio::null()).status();
    match out {
        Ok(st) => match st.code() {
            Some(0) | Some(2) | Some(124) => false,
            Some(_) => true, // 1 = violation, >= 100 = fatal signal via the handler
            None => true,    // killed by a signal
        },
        Err(_) => false,
    }
}

fn shrink_crash(prop: &str, path: &str) -> i32 {
    let Ok(text) = std::fs::read_to_string(path) else { return 2 };
    let Ok(mut case) = evidence::case_from_file_text(&text) else { return 2 };
    let exe = std::env::current_exe().unwrap();
    let tmp = format!("{path}.shrink.tmp");
    let write = |c: &lang::Case| {
        let body = serde_json::json!({"property": prop, "oracle": "process died while replaying", "case": serde_json::to_value(c).unwrap()});
        std::fs::write(&tmp, serde_json::to_string(&body).unwrap()).is_ok()
    };
    if !write(&case) || !child_fails(&exe, &tmp) {
        // not reproducible in isolation: keep the original
        let _ = std::fs::remove_file(&tmp);
        println!("shrink-crash: the case does not fail when replayed alone; keeping it as it is");
        return 0;
    }
    let mut budget = 600;
    let mut changed = true;
    while changed && budget > 0 {
        changed = false;
        // whole steps
        let mut i = 0;
        while i < case.steps.len() && budget > 0 {
            if case.steps.len() <= 1 {
                break;
            }
            let mut t = case.clone();
            t.steps.remove(i);
            budget -= 1;
            if write(&t) && child_fails(&exe, &tmp) {
                case = t;
                changed = true;
            } else {
                i += 1;
            }
        }
        // ops inside steps
        for si in 0..case.steps.len() {
            let n_ops = match &case.steps[si] {
                lang::Step::Mutate { ops, .. } | lang::Step::Finalize { ops, .. } | lang::Step::MapRoot { ops, .. } | lang::Step::NewArena { ops, .. } => ops.len(),
                _ => 0,
            };
            let mut oi = 0;
            let mut left = n_ops;
            while oi < left && budget > 0 {
                let mut t = case.clone();
                match &mut t.steps[si] {
                    lang::Step::Mutate { ops, .. } | lang::Step::Finalize { ops, .. } | lang::Step::MapRoot { ops, .. } | lang::Step::NewArena { ops, .. } => {
                        ops.remove(oi);
                    }
                    _ => {}
                }
                budget -= 1;
                if write(&t) && child_fails(&exe, &tmp) {
                    case = t;
                    left -= 1;
                    changed = true;
                } else {
                    oi += 1;
                }
            }
        }
    }
    let _ = std::fs::remove_file(&tmp);
    let body = serde_json::json!({"property": prop, "oracle": "memory fault / abort while executing this history against the safe API (shrunk by replaying candidates in child processes)", "case": serde_json::to_value(&case).unwrap()});
    let _ = std::fs::write(path, serde_json::to_string_pretty(&body).unwrap());
    println!("shrink-crash: reduced to {} steps", case.steps.len());
    0
}
