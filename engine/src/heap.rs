//! The object types that live in the arenas under test.

use std::cell::Cell;
use std::collections::BTreeMap;

use gc_arena::barrier::{Write, field, unlock};
use gc_arena::collect::Trace;
use gc_arena::lock::{Lock, OnceLock, RefLock};
use gc_arena::{
    Collect, DynamicRootSet, Gc, GcSlice, GcSliceWithHeader, GcStr, GcThinSlice, GcThinSliceWithHeader, GcThinStr,
    GcWeak, Mutation, Rootable, Static,
};

use crate::obs::{self, Ev};

pub const ROOT_ID_BASE: u32 = u32::MAX - 16;

/// Destructor witness. `class` 0: belongs to an arena value.
pub struct Tok {
    pub arena: u8,
    pub id: u32,
    pub class: u8,
}

impl Tok {
    pub fn new(arena: u8, id: u32) -> Tok {
        Tok { arena, id, class: 0 }
    }
}

impl Drop for Tok {
    fn drop(&mut self) {
        obs::push_event(Ev::Drop { arena: self.arena, id: self.id, class: self.class, ctx: obs::ctx() });
        obs::on_tok_drop(self.id);
    }
}

gc_arena::static_collect!(Tok);

/// Trace witness and fault point. The only hand-written `Collect` besides `RNode`.
pub struct Probe {
    pub arena: u8,
    pub id: u32,
}

unsafe impl<'gc> Collect<'gc> for Probe {
    const NEEDS_TRACE: bool = true;
    fn trace<T: Trace<'gc>>(&self, _cc: &mut T) {
        obs::on_probe_trace(self.arena, self.id);
    }
}

pub const D_STRONG: usize = 9;
pub const D_WEAK: usize = 2;
pub const R_STRONG: usize = 4;
pub const R_WEAK: usize = 2;
pub const RB_STRONG: usize = 2;
pub const RB_WEAK: usize = 1;
pub const ROOT_STRONG: usize = 4;
pub const ROOT_WEAK: usize = 2;

pub type Slot<'gc> = Option<Ref<'gc>>;
pub type WSlot<'gc> = Option<WeakRef<'gc>>;

/// Derived node: every strong slot is reached through a different safe projection path.
#[derive(Collect)]
#[collect(no_drop)]
pub struct DNode<'gc> {
    pub tok: Tok,
    pub a: RefLock<Slot<'gc>>,                  // slot 0: unlock!(.., a).borrow_mut()
    pub b: Lock<Slot<'gc>>,                     // slot 1: unlock!(.., b).set()
    pub once: OnceLock<Ref<'gc>>,               // slot 2: field!(.., once).unlock().set()
    pub probe: Probe,
    pub boxed: Box<RefLock<Slot<'gc>>>,         // slot 3: field!(.., boxed).as_deref().unlock()
    pub arr: [Lock<Slot<'gc>>; 2],              // slots 4,5: field!(.., arr)[i].unlock()
    pub opt: Option<Lock<Slot<'gc>>>,           // slot 6: field!(.., opt).as_write().unwrap().unlock()
    pub vecl: Vec<Lock<Slot<'gc>>>,             // slot 7: field!(.., vecl)[0] / .as_deref()[0]
    pub bmap: BTreeMap<u8, Lock<Slot<'gc>>>,    // slot 8: field!(.., bmap)[&0].unlock()
    pub wa: RefLock<WSlot<'gc>>,                // weak 0
    pub wb: Lock<WSlot<'gc>>,                   // weak 1
    pub pattern: u64,
}

impl<'gc> DNode<'gc> {
    pub fn new(arena: u8, id: u32, s: [Slot<'gc>; D_STRONG], w: [WSlot<'gc>; D_WEAK]) -> DNode<'gc> {
        // The value is not in an arena yet: plain initialisation, no barrier involved.
        let cell = std::cell::OnceCell::new();
        if let Some(r) = s[2] {
            let _ = cell.set(r);
        }
        let once = OnceLock::from(cell);
        let mut bmap = BTreeMap::new();
        bmap.insert(0u8, Lock::new(s[8]));
        DNode {
            tok: Tok::new(arena, id),
            a: RefLock::new(s[0]),
            b: Lock::new(s[1]),
            once,
            probe: Probe { arena, id },
            boxed: Box::new(RefLock::new(s[3])),
            arr: [Lock::new(s[4]), Lock::new(s[5])],
            opt: Some(Lock::new(s[6])),
            vecl: vec![Lock::new(s[7])],
            bmap,
            wa: RefLock::new(w[0]),
            wb: Lock::new(w[1]),
            pattern: pattern_for(id),
        }
    }

    pub fn strong(&self) -> Vec<Slot<'gc>> {
        vec![
            *self.a.borrow(),
            self.b.get(),
            self.once.get().copied(),
            *self.boxed.borrow(),
            self.arr[0].get(),
            self.arr[1].get(),
            self.opt.as_ref().and_then(|l| l.get()),
            self.vecl[0].get(),
            self.bmap[&0].get(),
        ]
    }

    pub fn weak(&self) -> Vec<WSlot<'gc>> {
        vec![*self.wa.borrow(), self.wb.get()]
    }
}

pub fn pattern_for(id: u32) -> u64 {
    (id as u64).wrapping_mul(0x9E37_79B9_7F4A_7C15) ^ 0x5bd1_e995_0000_ffff
}

/// Store into strong slot `slot` of a D node through the safe projection belonging to that slot.
/// `alt` selects between equivalent spellings where there are several. Returns false when the
/// store is impossible (a filled OnceLock).
pub fn d_store<'gc>(mc: &Mutation<'gc>, p: Gc<'gc, DNode<'gc>>, slot: usize, v: Slot<'gc>, alt: bool) -> bool {
    let w: &'gc Write<DNode<'gc>> = Gc::write(mc, p);
    match slot {
        0 => {
            if alt {
                *field!(w, DNode, a).unlock().borrow_mut() = v;
            } else {
                *unlock!(w, DNode, a).borrow_mut() = v;
            }
        }
        1 => unlock!(w, DNode, b).set(v),
        2 => {
            let Some(v) = v else { return false };
            return field!(w, DNode, once).unlock().set(v).is_ok();
        }
        3 => *field!(w, DNode, boxed).as_deref().unlock().borrow_mut() = v,
        4 => field!(w, DNode, arr)[0].unlock().set(v),
        5 => {
            if alt {
                field!(w, DNode, arr)[1..][0].unlock().set(v)
            } else {
                field!(w, DNode, arr)[1].unlock().set(v)
            }
        }
        6 => field!(w, DNode, opt).as_write().expect("opt is always Some").unlock().set(v),
        7 => {
            if alt {
                field!(w, DNode, vecl).as_deref()[0].unlock().set(v)
            } else {
                field!(w, DNode, vecl)[0].unlock().set(v)
            }
        }
        8 => field!(w, DNode, bmap)[&0u8].unlock().set(v),
        _ => unreachable!(),
    }
    true
}

pub fn d_store_weak<'gc>(mc: &Mutation<'gc>, p: Gc<'gc, DNode<'gc>>, slot: usize, v: WSlot<'gc>) {
    let w: &'gc Write<DNode<'gc>> = Gc::write(mc, p);
    match slot {
        0 => *unlock!(w, DNode, wa).borrow_mut() = v,
        1 => unlock!(w, DNode, wb).set(v),
        _ => unreachable!(),
    }
}

/// Raw node: plain cells, hand-written `Collect`, mutated only after an explicit barrier call.
pub struct RNode<'gc> {
    pub tok: Tok,
    pub s: [Cell<Slot<'gc>>; R_STRONG],
    pub probe: Probe,
    pub w: [Cell<WSlot<'gc>>; R_WEAK],
    pub pattern: u64,
}

unsafe impl<'gc> Collect<'gc> for RNode<'gc> {
    const NEEDS_TRACE: bool = true;
    fn trace<T: Trace<'gc>>(&self, cc: &mut T) {
        cc.trace(&self.s[0].get());
        cc.trace(&self.s[1].get());
        cc.trace(&self.probe);
        cc.trace(&self.s[2].get());
        cc.trace(&self.s[3].get());
        cc.trace(&self.w[0].get());
        cc.trace(&self.w[1].get());
    }
}

impl<'gc> RNode<'gc> {
    pub fn new(arena: u8, id: u32, s: [Slot<'gc>; R_STRONG], w: [WSlot<'gc>; R_WEAK]) -> RNode<'gc> {
        RNode {
            tok: Tok::new(arena, id),
            s: s.map(Cell::new),
            probe: Probe { arena, id },
            w: w.map(Cell::new),
            pattern: pattern_for(id),
        }
    }
}

/// Pair node: its weak slot is traced *before* its strong slots (derive traces fields in order).
#[derive(Collect)]
#[collect(no_drop)]
pub struct PNode<'gc> {
    pub tok: Tok,
    pub w: Lock<WSlot<'gc>>,
    pub probe: Probe,
    pub s: [Lock<Slot<'gc>>; 2],
    pub pattern: u64,
}

/// A value holding its pointers behind a boxed trait object that is traced through `dyn_collect!`
/// (`DynCollect::dyn_trace` and its `Trace` adapter).
pub trait Holder<'gc>: 'gc + gc_arena::collect::DynCollect<'gc> {
    fn s(&self) -> Slot<'gc>;
    fn w(&self) -> WSlot<'gc>;
}
gc_arena::collect::dyn_collect!(dyn Holder<'gc>);

#[derive(Collect)]
#[collect(no_drop)]
pub struct HolderImpl<'gc> {
    pub w: WSlot<'gc>,
    pub s: Slot<'gc>,
}
impl<'gc> Holder<'gc> for HolderImpl<'gc> {
    fn s(&self) -> Slot<'gc> {
        self.s
    }
    fn w(&self) -> WSlot<'gc> {
        self.w
    }
}

#[derive(Collect)]
#[collect(no_drop)]
pub struct DynBox<'gc> {
    pub tok: Tok,
    pub probe: Probe,
    pub inner: Box<dyn Holder<'gc> + 'gc>,
    pub pattern: u64,
}

/// A type that claims `NEEDS_TRACE = false` but whose `trace` is not a no-op: it announces itself
/// and can be made to panic. The collector only calls it for a resurrected object (which is queued
/// whatever its type).
pub struct NtNode {
    pub tok: Tok,
    pub probe: Probe,
    pub pattern: u64,
}

unsafe impl<'gc> Collect<'gc> for NtNode {
    const NEEDS_TRACE: bool = false;
    fn trace<T: Trace<'gc>>(&self, _cc: &mut T) {
        obs::on_probe_trace(self.probe.arena, self.probe.id);
    }
}

/// Body of a `Gc<RefLock<Body>>`.
#[derive(Collect)]
#[collect(no_drop)]
pub struct Body<'gc> {
    pub tok: Tok,
    pub s: [Slot<'gc>; RB_STRONG],
    pub probe: Probe,
    pub w: WSlot<'gc>,
    pub pattern: u64,
}

/// A type that needs no tracing (barriers on it exercise the non-tracing paths).
#[derive(Collect)]
#[collect(require_static)]
pub struct LeafBody {
    pub tok: Tok,
    pub val: u64,
}

#[derive(Collect)]
#[collect(no_drop)]
pub struct Hdr {
    pub tok: Tok,
    pub probe: Probe,
    pub pattern: u64,
}

pub trait NodeLike<'gc>: gc_arena::collect::DynCollect<'gc> {
    fn node(&self) -> &DNode<'gc>;
}
impl<'gc> NodeLike<'gc> for DNode<'gc> {
    fn node(&self) -> &DNode<'gc> {
        self
    }
}
gc_arena::collect::dyn_collect!(dyn NodeLike<'gc>);

#[derive(Copy, Clone, Collect)]
#[collect(no_drop)]
pub enum Ref<'gc> {
    D(Gc<'gc, DNode<'gc>>),
    R(Gc<'gc, RNode<'gc>>),
    L(Gc<'gc, RefLock<LeafBody>>),
    LS(Gc<'gc, Tok>),
    LB(Gc<'gc, Lock<Slot<'gc>>>),
    RB(Gc<'gc, RefLock<Body<'gc>>>),
    OB(Gc<'gc, OnceLock<Ref<'gc>>>),
    Sl(GcSlice<'gc, Slot<'gc>>),
    TSl(GcThinSlice<'gc, Slot<'gc>>),
    SH(GcSliceWithHeader<'gc, Hdr, Slot<'gc>>),
    TSH(GcThinSliceWithHeader<'gc, Hdr, Slot<'gc>>),
    Str(GcStr<'gc>),
    TStr(GcThinStr<'gc>),
    Dyn(Gc<'gc, dyn NodeLike<'gc>>),
    Arr(Gc<'gc, [Slot<'gc>]>),
    P(Gc<'gc, PNode<'gc>>),
    DB(Gc<'gc, DynBox<'gc>>),
    NT(Gc<'gc, NtNode>),
    /// one-element slice of `Hdr`: the destructor and the trace probe live in the *element*, the
    /// header is `()` (the thin form has no drop glue)
    HSl(gc_arena::GcSlice<'gc, Hdr>),
    Set(DynamicRootSet<'gc>, usize),
}

#[derive(Copy, Clone, Collect)]
#[collect(no_drop)]
pub enum WeakRef<'gc> {
    D(GcWeak<'gc, DNode<'gc>>),
    R(GcWeak<'gc, RNode<'gc>>),
    L(GcWeak<'gc, RefLock<LeafBody>>),
    LS(GcWeak<'gc, Tok>),
    LB(GcWeak<'gc, Lock<Slot<'gc>>>),
    RB(GcWeak<'gc, RefLock<Body<'gc>>>),
    OB(GcWeak<'gc, OnceLock<Ref<'gc>>>),
    Sl(GcWeak<'gc, [Slot<'gc>], gc_arena::gc::GcKind<gc_arena::gc::Fat, (), gc_arena::slice::SlicePtrMeta>>),
    SH(
        GcWeak<
            'gc,
            gc_arena::SliceWithHeader<Hdr, Slot<'gc>>,
            gc_arena::gc::GcKind<gc_arena::gc::Fat, (), gc_arena::slice::SliceWithHeaderPtrMeta>,
        >,
    ),
    Str(GcWeak<'gc, str, gc_arena::gc::GcKind<gc_arena::gc::Fat, (), gc_arena::slice::StrPtrMeta>>),
    Dyn(GcWeak<'gc, dyn NodeLike<'gc>>),
    Arr(GcWeak<'gc, [Slot<'gc>]>),
    P(GcWeak<'gc, PNode<'gc>>),
    DB(GcWeak<'gc, DynBox<'gc>>),
    NT(GcWeak<'gc, NtNode>),
    HSl(GcWeak<'gc, [Hdr], gc_arena::gc::GcKind<gc_arena::gc::Fat, (), gc_arena::slice::SlicePtrMeta>>),
}

macro_rules! each_gc {
    ($self:expr, $g:ident => $e:expr) => {
        match $self {
            Ref::D($g) => $e,
            Ref::R($g) => $e,
            Ref::L($g) => $e,
            Ref::LS($g) => $e,
            Ref::LB($g) => $e,
            Ref::RB($g) => $e,
            Ref::OB($g) => $e,
            Ref::Sl($g) => $e,
            Ref::TSl($g) => $e,
            Ref::SH($g) => $e,
            Ref::TSH($g) => $e,
            Ref::Str($g) => $e,
            Ref::TStr($g) => $e,
            Ref::Dyn($g) => $e,
            Ref::Arr($g) => $e,
            Ref::P($g) => $e,
            Ref::DB($g) => $e,
            Ref::NT($g) => $e,
            Ref::HSl($g) => $e,
            Ref::Set(_, _) => unreachable!("set handled separately"),
        }
    };
}

macro_rules! each_weak {
    ($self:expr, $g:ident => $e:expr) => {
        match $self {
            WeakRef::D($g) => $e,
            WeakRef::R($g) => $e,
            WeakRef::L($g) => $e,
            WeakRef::LS($g) => $e,
            WeakRef::LB($g) => $e,
            WeakRef::RB($g) => $e,
            WeakRef::OB($g) => $e,
            WeakRef::Sl($g) => $e,
            WeakRef::SH($g) => $e,
            WeakRef::Str($g) => $e,
            WeakRef::Dyn($g) => $e,
            WeakRef::Arr($g) => $e,
            WeakRef::P($g) => $e,
            WeakRef::DB($g) => $e,
            WeakRef::NT($g) => $e,
            WeakRef::HSl($g) => $e,
        }
    };
}

impl<'gc> Ref<'gc> {
    /// Address of the value. For a root set this is the harness-recorded address of its private
    /// object (the API does not expose it).
    pub fn addr(self) -> usize {
        match self {
            Ref::Set(_, a) => a,
            other => each_gc!(other, g => Gc::as_ptr(g) as *const () as usize),
        }
    }

    pub fn erase(self) -> Option<Gc<'gc, ()>> {
        match self {
            Ref::Set(_, _) => None,
            other => Some(each_gc!(other, g => Gc::erase(g))),
        }
    }

    pub fn downgrade(self) -> Option<WeakRef<'gc>> {
        Some(match self {
            Ref::D(g) => WeakRef::D(Gc::downgrade(g)),
            Ref::R(g) => WeakRef::R(Gc::downgrade(g)),
            Ref::L(g) => WeakRef::L(Gc::downgrade(g)),
            Ref::LS(g) => WeakRef::LS(Gc::downgrade(g)),
            Ref::LB(g) => WeakRef::LB(Gc::downgrade(g)),
            Ref::RB(g) => WeakRef::RB(Gc::downgrade(g)),
            Ref::OB(g) => WeakRef::OB(Gc::downgrade(g)),
            Ref::Sl(g) => WeakRef::Sl(Gc::downgrade(g)),
            Ref::TSl(g) => WeakRef::Sl(Gc::downgrade(Gc::as_fat(g))),
            Ref::SH(g) => WeakRef::SH(Gc::downgrade(g)),
            Ref::TSH(g) => WeakRef::SH(Gc::downgrade(Gc::as_fat(g))),
            Ref::Str(g) => WeakRef::Str(Gc::downgrade(g)),
            Ref::TStr(g) => WeakRef::Str(Gc::downgrade(Gc::as_fat(g))),
            Ref::Dyn(g) => WeakRef::Dyn(Gc::downgrade(g)),
            Ref::Arr(g) => WeakRef::Arr(Gc::downgrade(g)),
            Ref::P(g) => WeakRef::P(Gc::downgrade(g)),
            Ref::DB(g) => WeakRef::DB(Gc::downgrade(g)),
            Ref::NT(g) => WeakRef::NT(Gc::downgrade(g)),
            Ref::HSl(g) => WeakRef::HSl(Gc::downgrade(g)),
            Ref::Set(_, _) => return None,
        })
    }

    /// Strong out-edges as they are stored in the real object right now.
    pub fn strong(self) -> Vec<Slot<'gc>> {
        match self {
            Ref::D(g) => g.strong(),
            Ref::R(g) => g.s.iter().map(|c| c.get()).collect(),
            Ref::L(_) | Ref::LS(_) | Ref::Str(_) | Ref::TStr(_) | Ref::NT(_) | Ref::HSl(_) => vec![],
            Ref::LB(g) => vec![g.get()],
            Ref::RB(g) => g.borrow().s.to_vec(),
            Ref::OB(g) => vec![g.get().copied()],
            Ref::Sl(g) => g.to_vec(),
            Ref::TSl(g) => g.to_vec(),
            Ref::SH(g) => g.slice.to_vec(),
            Ref::TSH(g) => g.slice.to_vec(),
            Ref::Dyn(g) => g.node().strong(),
            Ref::Arr(g) => g.to_vec(),
            Ref::P(g) => vec![g.s[0].get(), g.s[1].get()],
            Ref::DB(g) => vec![g.inner.s()],
            Ref::Set(_, _) => vec![],
        }
    }

    pub fn weak(self) -> Vec<WSlot<'gc>> {
        match self {
            Ref::D(g) => g.weak(),
            Ref::R(g) => g.w.iter().map(|c| c.get()).collect(),
            Ref::RB(g) => vec![g.borrow().w],
            Ref::P(g) => vec![g.w.get()],
            Ref::DB(g) => vec![g.inner.w()],
            Ref::Dyn(g) => g.node().weak(),
            _ => vec![],
        }
    }

    /// (token id, payload pattern) read from the real object, where it has them.
    pub fn read_ident(self) -> Option<(u32, u64)> {
        match self {
            Ref::D(g) => Some((g.tok.id, g.pattern)),
            Ref::R(g) => Some((g.tok.id, g.pattern)),
            Ref::L(g) => {
                let b = g.borrow();
                Some((b.tok.id, b.val))
            }
            Ref::LS(g) => Some((g.id, pattern_for(g.id))),
            Ref::RB(g) => {
                let b = g.borrow();
                Some((b.tok.id, b.pattern))
            }
            Ref::SH(g) => Some((g.header.tok.id, g.header.pattern)),
            Ref::TSH(g) => Some((g.header.tok.id, g.header.pattern)),
            Ref::Str(g) => g.parse::<u32>().ok().map(|i| (i, pattern_for(i))),
            Ref::TStr(g) => g.parse::<u32>().ok().map(|i| (i, pattern_for(i))),
            Ref::Dyn(g) => Some((g.node().tok.id, g.node().pattern)),
            Ref::P(g) => Some((g.tok.id, g.pattern)),
            Ref::DB(g) => Some((g.tok.id, g.pattern)),
            Ref::NT(g) => Some((g.tok.id, g.pattern)),
            Ref::HSl(g) => g.first().map(|h| (h.tok.id, h.pattern)),
            Ref::LB(_) | Ref::OB(_) | Ref::Sl(_) | Ref::TSl(_) | Ref::Arr(_) | Ref::Set(_, _) => None,
        }
    }

    pub fn ptr_eq(self, other: Ref<'gc>) -> bool {
        match (self.erase(), other.erase()) {
            (Some(a), Some(b)) => Gc::ptr_eq(a, b),
            _ => self.addr() == other.addr(),
        }
    }
}

impl<'gc> WeakRef<'gc> {
    pub fn addr(self) -> usize {
        each_weak!(self, g => g.as_ptr() as *const () as usize)
    }

    pub fn erase(self) -> GcWeak<'gc, ()> {
        each_weak!(self, g => GcWeak::erase(g))
    }

    pub fn is_dropped(self) -> bool {
        each_weak!(self, g => g.is_dropped())
    }

    pub fn is_dead(self, fc: &gc_arena::Finalization<'gc>) -> bool {
        each_weak!(self, g => g.is_dead(fc))
    }

    pub fn upgrade(self, mc: &Mutation<'gc>) -> Option<Ref<'gc>> {
        Some(match self {
            WeakRef::D(g) => Ref::D(g.upgrade(mc)?),
            WeakRef::R(g) => Ref::R(g.upgrade(mc)?),
            WeakRef::L(g) => Ref::L(g.upgrade(mc)?),
            WeakRef::LS(g) => Ref::LS(g.upgrade(mc)?),
            WeakRef::LB(g) => Ref::LB(g.upgrade(mc)?),
            WeakRef::RB(g) => Ref::RB(g.upgrade(mc)?),
            WeakRef::OB(g) => Ref::OB(g.upgrade(mc)?),
            WeakRef::Sl(g) => Ref::Sl(g.upgrade(mc)?),
            WeakRef::SH(g) => Ref::SH(g.upgrade(mc)?),
            WeakRef::Str(g) => Ref::Str(g.upgrade(mc)?),
            WeakRef::Dyn(g) => Ref::Dyn(g.upgrade(mc)?),
            WeakRef::Arr(g) => Ref::Arr(g.upgrade(mc)?),
            WeakRef::P(g) => Ref::P(g.upgrade(mc)?),
            WeakRef::DB(g) => Ref::DB(g.upgrade(mc)?),
            WeakRef::NT(g) => Ref::NT(g.upgrade(mc)?),
            WeakRef::HSl(g) => Ref::HSl(g.upgrade(mc)?),
        })
    }

    pub fn resurrect(self, fc: &gc_arena::Finalization<'gc>) -> Option<Ref<'gc>> {
        Some(match self {
            WeakRef::D(g) => Ref::D(g.resurrect(fc)?),
            WeakRef::R(g) => Ref::R(g.resurrect(fc)?),
            WeakRef::L(g) => Ref::L(g.resurrect(fc)?),
            WeakRef::LS(g) => Ref::LS(g.resurrect(fc)?),
            WeakRef::LB(g) => Ref::LB(g.resurrect(fc)?),
            WeakRef::RB(g) => Ref::RB(g.resurrect(fc)?),
            WeakRef::OB(g) => Ref::OB(g.resurrect(fc)?),
            WeakRef::Sl(g) => Ref::Sl(g.resurrect(fc)?),
            WeakRef::SH(g) => Ref::SH(g.resurrect(fc)?),
            WeakRef::Str(g) => Ref::Str(g.resurrect(fc)?),
            WeakRef::Dyn(g) => Ref::Dyn(g.resurrect(fc)?),
            WeakRef::Arr(g) => Ref::Arr(g.resurrect(fc)?),
            WeakRef::P(g) => Ref::P(g.resurrect(fc)?),
            WeakRef::DB(g) => Ref::DB(g.resurrect(fc)?),
            WeakRef::NT(g) => Ref::NT(g.resurrect(fc)?),
            WeakRef::HSl(g) => Ref::HSl(g.resurrect(fc)?),
        })
    }
}

pub fn gc_is_dead<'gc>(fc: &gc_arena::Finalization<'gc>, r: Ref<'gc>) -> Option<bool> {
    r.erase().map(|g| Gc::is_dead(fc, g))
}

pub fn gc_resurrect<'gc>(fc: &gc_arena::Finalization<'gc>, r: Ref<'gc>) {
    if let Some(g) = r.erase() {
        Gc::resurrect(fc, g)
    }
}

// ---------------------------------------------------------------------------------------------
// roots

#[derive(Collect)]
#[collect(no_drop)]
pub struct RootA<'gc> {
    pub s: [Slot<'gc>; ROOT_STRONG],
    pub probe: Probe,
    pub w: [WSlot<'gc>; ROOT_WEAK],
}

#[derive(Collect)]
#[collect(no_drop)]
pub struct RootB<'gc> {
    pub extra: Slot<'gc>,
    pub inner: RootA<'gc>,
}

impl<'gc> RootA<'gc> {
    pub fn empty(arena: u8) -> RootA<'gc> {
        RootA { s: [None; ROOT_STRONG], probe: Probe { arena, id: ROOT_ID_BASE + arena as u32 }, w: [None; ROOT_WEAK] }
    }
}

pub type ArenaA = gc_arena::Arena<Rootable![RootA<'_>]>;
pub type ArenaB = gc_arena::Arena<Rootable![RootB<'_>]>;

pub enum AnyArena {
    A(ArenaA),
    B(ArenaB),
}

pub type HD = gc_arena::DynamicRoot<Rootable![DNode<'_>]>;
pub type HR = gc_arena::DynamicRoot<Rootable![RNode<'_>]>;
pub type HRB = gc_arena::DynamicRoot<Rootable![RefLock<Body<'_>>]>;
pub type HLB = gc_arena::DynamicRoot<Rootable![Lock<Slot<'_>>]>;
pub type HL = gc_arena::DynamicRoot<Rootable![RefLock<LeafBody>]>;

#[derive(Clone)]
pub enum Handle {
    D(HD),
    R(HR),
    RB(HRB),
    LB(HLB),
    L(HL),
}

pub fn stash<'gc>(mc: &Mutation<'gc>, set: DynamicRootSet<'gc>, r: Ref<'gc>) -> Option<Handle> {
    Some(match r {
        Ref::D(g) => Handle::D(set.stash::<Rootable![DNode<'_>]>(mc, g)),
        Ref::R(g) => Handle::R(set.stash::<Rootable![RNode<'_>]>(mc, g)),
        Ref::RB(g) => Handle::RB(set.stash::<Rootable![RefLock<Body<'_>>]>(mc, g)),
        Ref::LB(g) => Handle::LB(set.stash::<Rootable![Lock<Slot<'_>>]>(mc, g)),
        Ref::L(g) => Handle::L(set.stash::<Rootable![RefLock<LeafBody>]>(mc, g)),
        _ => return None,
    })
}

impl Handle {
    pub fn contains<'gc>(&self, set: DynamicRootSet<'gc>) -> bool {
        match self {
            Handle::D(h) => set.contains(h),
            Handle::R(h) => set.contains(h),
            Handle::RB(h) => set.contains(h),
            Handle::LB(h) => set.contains(h),
            Handle::L(h) => set.contains(h),
        }
    }

    pub fn try_fetch<'gc>(&self, set: DynamicRootSet<'gc>) -> Option<Ref<'gc>> {
        Some(match self {
            Handle::D(h) => Ref::D(set.try_fetch(h).ok()?),
            Handle::R(h) => Ref::R(set.try_fetch(h).ok()?),
            Handle::RB(h) => Ref::RB(set.try_fetch(h).ok()?),
            Handle::LB(h) => Ref::LB(set.try_fetch(h).ok()?),
            Handle::L(h) => Ref::L(set.try_fetch(h).ok()?),
        })
    }

    /// `fetch`, which panics with "mismatched root set" for a foreign handle.
    pub fn fetch<'gc>(&self, set: DynamicRootSet<'gc>) -> Ref<'gc> {
        match self {
            Handle::D(h) => Ref::D(set.fetch(h)),
            Handle::R(h) => Ref::R(set.fetch(h)),
            Handle::RB(h) => Ref::RB(set.fetch(h)),
            Handle::LB(h) => Ref::LB(set.fetch(h)),
            Handle::L(h) => Ref::L(set.fetch(h)),
        }
    }

    /// `Clone::clone_from` on the underlying `DynamicRoot` (same payload type only).
    pub fn clone_from_handle(&mut self, src: &Handle) -> bool {
        match (self, src) {
            (Handle::D(a), Handle::D(b)) => a.clone_from(b),
            (Handle::R(a), Handle::R(b)) => a.clone_from(b),
            (Handle::RB(a), Handle::RB(b)) => a.clone_from(b),
            (Handle::LB(a), Handle::LB(b)) => a.clone_from(b),
            (Handle::L(a), Handle::L(b)) => a.clone_from(b),
            _ => return false,
        }
        true
    }

    pub fn same_variant(&self, other: &Handle) -> bool {
        std::mem::discriminant(self) == std::mem::discriminant(other)
    }

    pub fn raw_addr(&self) -> usize {
        match self {
            Handle::D(h) => h.as_ptr() as *const () as usize,
            Handle::R(h) => h.as_ptr() as *const () as usize,
            Handle::RB(h) => h.as_ptr() as *const () as usize,
            Handle::LB(h) => h.as_ptr() as *const () as usize,
            Handle::L(h) => h.as_ptr() as *const () as usize,
        }
    }
}

pub fn new_static_tok<'gc>(mc: &Mutation<'gc>, arena: u8, id: u32) -> Gc<'gc, Tok> {
    Gc::new_static(mc, Tok::new(arena, id))
}

pub fn _unused_static() -> Static<u8> {
    Static(0)
}
