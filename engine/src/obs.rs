//! Observation layer: tracking global allocator, merged event log, context tags, fault fuses.
//!
//! Everything here is thread-local: a case runs on exactly one thread (gc-arena is `!Send`), and
//! several worker threads run different cases at the same time.

use std::alloc::{GlobalAlloc, Layout, System};
use std::cell::{Cell, RefCell};
use std::collections::HashMap;

pub const CANARY: u8 = 0xA5;
pub const POISON: u8 = 0xDD;

/// Padding placed in front of and behind every allocation in the process. It only depends on the
/// layout, so `dealloc` can recompute it without any bookkeeping.
#[inline]
/// Back red zone. Miri tracks provenance per allocation: no red zones there (Miri checks bounds itself).
fn pad_for(layout: Layout) -> usize {
    if cfg!(miri) { 0 } else { layout.align().max(32) }
}

/// Front red zone. The underlying block is aligned to twice the requested alignment and the user
/// pointer sits an odd multiple of the requested alignment into it, so every block is aligned exactly
/// as requested and no better: code that relies on the system allocator's habitual over-alignment
/// (16 on this platform) gets a visibly misaligned address.
fn front_for(layout: Layout) -> usize {
    if cfg!(miri) { 0 } else { (2 * layout.align()).max(32) + layout.align() }
}

fn raw_layout_for(layout: Layout) -> Option<Layout> {
    if cfg!(miri) {
        return Some(layout);
    }
    let total = layout.size().checked_add(front_for(layout))?.checked_add(pad_for(layout))?;
    Layout::from_size_align(total, layout.align().checked_mul(2)?).ok()
}

#[derive(Clone, Copy, Debug, PartialEq, Eq)]
pub enum Ctx {
    Outside,
    Callback,
    Collect,
    ArenaDrop,
    FailedCtor,
    Harness,
}

#[derive(Clone, Copy, Debug, PartialEq, Eq)]
pub enum Ev {
    /// `Collect::trace` reached the probe of object `id` (u32::MAX - arena = the root probe).
    Trace { arena: u8, id: u32 },
    /// Destructor of the token of object `id` ran. `class`: 0 = arena value, 1 = builder part /
    /// value that never became an arena value.
    Drop { arena: u8, id: u32, class: u8, ctx: Ctx },
    /// A tracked block was handed back to the allocator.
    Free { block: usize, watched: bool, ctx: Ctx },
}

#[derive(Clone, Debug)]
pub enum AllocFault {
    LayoutMismatch { block: usize, requested: (usize, usize), released: (usize, usize), watched: bool },
    DoubleFree { block: usize },
    RedZone { block: usize, front: bool, watched: bool },
}

#[derive(Clone, Copy, Debug)]
pub struct Block {
    pub size: usize,
    pub align: usize,
    pub watched: bool,
    pub released: bool,
    /// start of the value extent inside the block (only meaningful for watched blocks)
    pub value_off: usize,
    pub seq: u64,
}

#[derive(Default)]
pub struct AllocState {
    pub blocks: HashMap<usize, Block>,
    pub capture: Option<Vec<usize>>,
    pub capture_seq: bool,
    pub captured_seq: Vec<(usize, u64)>,
    pub quarantine: Vec<(usize, Layout)>,
    pub faults: Vec<AllocFault>,
    pub seq: u64,
    pub n_alloc: u64,
    pub n_free: u64,
}

thread_local! {
    static GUARD: Cell<bool> = const { Cell::new(false) };
    static PAUSE: Cell<bool> = const { Cell::new(false) };
    static QUARANTINE: Cell<bool> = const { Cell::new(true) };
    static ENABLED: Cell<bool> = const { Cell::new(false) };
    static CTX: Cell<Ctx> = const { Cell::new(Ctx::Outside) };
    static TRACE_FUSE: Cell<u32> = const { Cell::new(0) };
    static QUIET_PANICS: Cell<bool> = const { Cell::new(false) };
    static STATE: RefCell<AllocState> = RefCell::new(AllocState::default());
    static EVENTS: RefCell<Vec<Ev>> = const { RefCell::new(Vec::new()) };
}

#[cfg(feature = "asan-poison")]
unsafe extern "C" {
    fn __asan_poison_memory_region(addr: *const u8, size: usize);
    fn __asan_unpoison_memory_region(addr: *const u8, size: usize);
}

pub struct TrackAlloc;

struct GuardOn(bool);
impl GuardOn {
    #[inline]
    fn new() -> GuardOn {
        let prev = GUARD.with(|g| g.replace(true));
        GuardOn(prev)
    }
}
impl Drop for GuardOn {
    #[inline]
    fn drop(&mut self) {
        let p = self.0;
        GUARD.with(|g| g.set(p));
    }
}

/// Run `f` with allocator tracking suspended (allocations still get the uniform padding, but are
/// not recorded, captured or quarantined).
pub fn untracked<R>(f: impl FnOnce() -> R) -> R {
    struct P(bool);
    impl Drop for P {
        fn drop(&mut self) {
            let p = self.0;
            PAUSE.with(|g| g.set(p));
        }
    }
    let _p = P(PAUSE.with(|g| g.replace(true)));
    f()
}

/// Run `f` with the allocator hooks passing straight through (used while the hook state is borrowed).
fn guarded<R>(f: impl FnOnce() -> R) -> R {
    let _g = GuardOn::new();
    f()
}

#[inline]
fn tracking_active() -> bool {
    // `try_with` so that allocations during thread teardown pass straight through.
    ENABLED.try_with(|e| e.get()).unwrap_or(false) && !GUARD.try_with(|g| g.get()).unwrap_or(true)
}

unsafe impl GlobalAlloc for TrackAlloc {
    unsafe fn alloc(&self, layout: Layout) -> *mut u8 {
        let pad = pad_for(layout);
        let front = front_for(layout);
        let Some(raw_layout) = raw_layout_for(layout) else {
            return std::ptr::null_mut();
        };
        let raw = unsafe { System.alloc(raw_layout) };
        if raw.is_null() {
            return raw;
        }
        let user = unsafe { raw.add(front) };
        if tracking_active() && !PAUSE.try_with(|p| p.get()).unwrap_or(true) {
            let _g = GuardOn::new();
            unsafe {
                std::ptr::write_bytes(raw, CANARY, front);
                std::ptr::write_bytes(user.add(layout.size()), CANARY, pad);
            }
            let _ = STATE.try_with(|s| {
                let mut s = s.borrow_mut();
                s.seq += 1;
                s.n_alloc += 1;
                let seq = s.seq;
                s.blocks.insert(
                    user as usize,
                    Block {
                        size: layout.size(),
                        align: layout.align(),
                        watched: false,
                        released: false,
                        value_off: 0,
                        seq,
                    },
                );
                if let Some(c) = s.capture.as_mut() {
                    c.push(user as usize);
                }
                if s.capture_seq {
                    s.captured_seq.push((user as usize, seq));
                }
            });
        }
        user
    }

    unsafe fn dealloc(&self, ptr: *mut u8, layout: Layout) {
        if tracking_active() {
            let _g = GuardOn::new();
            let handled = STATE
                .try_with(|s| {
                    let mut s = s.borrow_mut();
                    let addr = ptr as usize;
                    let Some(b) = s.blocks.get(&addr).copied() else {
                        return false;
                    };
                    if b.released {
                        s.faults.push(AllocFault::DoubleFree { block: addr });
                        return true;
                    }
                    let true_layout = Layout::from_size_align(b.size, b.align).unwrap();
                    if b.size != layout.size() || b.align != layout.align() {
                        s.faults.push(AllocFault::LayoutMismatch {
                            block: addr,
                            requested: (b.size, b.align),
                            released: (layout.size(), layout.align()),
                            watched: b.watched,
                        });
                    }
                    let pad = pad_for(true_layout);
                    let front = front_for(true_layout);
                    let raw = unsafe { ptr.sub(front) };
                    // red zones
                    let (mut front_ok, mut back_ok) = (true, true);
                    unsafe {
                        for i in 0..front {
                            if *raw.add(i) != CANARY {
                                front_ok = false;
                            }
                        }
                        for i in 0..pad {
                            if *ptr.add(b.size + i) != CANARY {
                                back_ok = false;
                            }
                        }
                    }
                    if !front_ok {
                        s.faults.push(AllocFault::RedZone { block: addr, front: true, watched: b.watched });
                    }
                    if !back_ok {
                        s.faults.push(AllocFault::RedZone { block: addr, front: false, watched: b.watched });
                    }
                    s.n_free += 1;
                    let raw_layout = raw_layout_for(true_layout).unwrap();
                    if b.watched && (cfg!(miri) || !QUARANTINE.try_with(|q| q.get()).unwrap_or(true)) {
                        // under Miri the block is really freed, so that Miri itself reports any
                        // later access; the event is recorded all the same
                        // the address may be handed out again at once: forget the block
                        s.blocks.remove(&addr);
                        let ctx = CTX.with(|c| c.get());
                        let _ = EVENTS.try_with(|e| e.borrow_mut().push(Ev::Free { block: addr, watched: true, ctx }));
                        unsafe { System.dealloc(raw, raw_layout) };
                    } else if b.watched {
                        // quarantine: keep the memory mapped, poison only the value extent
                        s.blocks.get_mut(&addr).unwrap().released = true;
                        unsafe {
                            let off = b.value_off.min(b.size);
                            std::ptr::write_bytes(ptr.add(off), POISON, b.size - off);
                        }
                        s.quarantine.push((raw as usize, raw_layout));
                        #[cfg(feature = "asan-poison")]
                        unsafe {
                            __asan_poison_memory_region(ptr, b.size);
                        }
                        let ctx = CTX.with(|c| c.get());
                        let _ = EVENTS.try_with(|e| e.borrow_mut().push(Ev::Free { block: addr, watched: true, ctx }));
                    } else {
                        s.blocks.remove(&addr);
                        unsafe { System.dealloc(raw, raw_layout) };
                    }
                    true
                })
                .unwrap_or(false);
            if handled {
                return;
            }
        }
        let raw_layout = raw_layout_for(layout).unwrap();
        unsafe { System.dealloc(ptr.sub(front_for(layout)), raw_layout) };
    }
}

// ---------------------------------------------------------------------------------------------
// case lifecycle

/// Start observing on this thread. Must be paired with `end_case`.
pub fn begin_case() {
    guarded(|| {
        STATE.with(|s| {
            let mut s = s.borrow_mut();
            s.blocks.clear();
            s.capture = None;
            s.capture_seq = false;
            s.captured_seq.clear();
            s.faults.clear();
            s.seq = 0;
            s.n_alloc = 0;
            s.n_free = 0;
            assert!(s.quarantine.is_empty());
        });
        EVENTS.with(|e| e.borrow_mut().clear());
    });
    CTX.with(|c| c.set(Ctx::Outside));
    TRACE_FUSE.with(|f| f.set(0));
    QUARANTINE.with(|q| q.set(true));
    ENABLED.with(|e| e.set(true));
}

pub struct CaseEnd {
    pub faults: Vec<AllocFault>,
    /// watched blocks never released
    pub leaked_watched: Vec<usize>,
    /// red-zone damage found on blocks still outstanding at case end
    pub n_alloc: u64,
    pub n_free: u64,
}

/// Stop observing; really free the quarantine; forget every other tracked block (they keep their
/// uniform padding, so later frees from any thread are fine).
pub fn end_case() -> CaseEnd {
    ENABLED.with(|e| e.set(false));
    guarded(|| STATE.with(|s| {
        let mut s = s.borrow_mut();
        let mut leaked = Vec::new();
        let mut extra_faults = Vec::new();
        for (addr, b) in s.blocks.iter() {
            if b.watched && !b.released {
                leaked.push(*addr);
            }
            if !b.released && b.watched {
                // check red zones of outstanding blocks
                let lay = Layout::from_size_align(b.size, b.align).unwrap();
                let pad = pad_for(lay);
                let front = front_for(lay);
                let ptr = *addr as *const u8;
                unsafe {
                    let raw = ptr.sub(front);
                    let mut f_ok = true;
                    let mut b_ok = true;
                    for i in 0..front {
                        if *raw.add(i) != CANARY {
                            f_ok = false;
                        }
                    }
                    for i in 0..pad {
                        if *ptr.add(b.size + i) != CANARY {
                            b_ok = false;
                        }
                    }
                    if !f_ok {
                        extra_faults.push(AllocFault::RedZone { block: *addr, front: true, watched: b.watched });
                    }
                    if !b_ok {
                        extra_faults.push(AllocFault::RedZone { block: *addr, front: false, watched: b.watched });
                    }
                }
            }
        }
        leaked.sort();
        for (raw, layout) in s.quarantine.drain(..) {
            #[cfg(feature = "asan-poison")]
            unsafe {
                __asan_unpoison_memory_region(raw as *const u8, layout.size());
            }
            unsafe { System.dealloc(raw as *mut u8, layout) };
        }
        s.blocks.clear();
        let mut faults = std::mem::take(&mut s.faults);
        faults.extend(extra_faults);
        CaseEnd { faults, leaked_watched: leaked, n_alloc: s.n_alloc, n_free: s.n_free }
    }))
}

// ---------------------------------------------------------------------------------------------
// capture / watch

/// Quarantine released Gc blocks until the end of the case (default) or really free them at once,
/// so that addresses are reused within a case (needed to observe address-identity confusions).
pub fn set_quarantine(on: bool) {
    QUARANTINE.with(|q| q.set(on));
}

pub fn capture_on() {
    guarded(|| {
        STATE.with(|s| {
            let mut s = s.borrow_mut();
            s.capture = Some(Vec::new());
            s.capture_seq = true;
            s.captured_seq.clear();
        })
    });
}

/// Blocks allocated since `capture_on`, in allocation order (those already freed again removed).
pub fn capture_off() -> Vec<usize> {
    guarded(|| {
        STATE.with(|s| {
            let mut s = s.borrow_mut();
            let v = s.capture.take().unwrap_or_default();
            s.capture_seq = false;
            s.captured_seq.clear();
            v.into_iter().filter(|a| s.blocks.contains_key(a)).collect()
        })
    })
}

/// Blocks allocated since `capture_on` as (address, allocation sequence number), whether or not
/// they were freed again in the meantime.
pub fn capture_off_seq() -> Vec<(usize, u64)> {
    guarded(|| {
        STATE.with(|s| {
            let mut s = s.borrow_mut();
            s.capture_seq = false;
            std::mem::take(&mut s.captured_seq)
        })
    })
}

/// The block allocated at `addr` with sequence number `seq` is still allocated.
pub fn block_is(addr: usize, seq: u64) -> bool {
    guarded(|| STATE.with(|s| s.borrow().blocks.get(&addr).map(|b| b.seq == seq && !b.released).unwrap_or(false)))
}

pub fn block_info(block: usize) -> Option<Block> {
    guarded(|| STATE.with(|s| s.borrow().blocks.get(&block).copied()))
}

/// Mark a captured block as a Gc block; `value_addr` is where the value starts.
pub fn watch(block: usize, value_addr: usize) {
    guarded(|| {
        STATE.with(|s| {
            let mut s = s.borrow_mut();
            if let Some(b) = s.blocks.get_mut(&block) {
                b.watched = true;
                b.value_off = value_addr.saturating_sub(block);
            }
        })
    })
}

/// The allocator still owns this (watched) block: allocated and not yet released.
pub fn block_live(block: usize) -> bool {
    guarded(|| STATE.with(|s| s.borrow().blocks.get(&block).map(|b| !b.released).unwrap_or(false)))
}

/// Number of watched blocks not yet released.
pub fn watched_outstanding() -> usize {
    guarded(|| STATE.with(|s| s.borrow().blocks.values().filter(|b| b.watched && !b.released).count()))
}

pub fn take_faults() -> Vec<AllocFault> {
    guarded(|| STATE.with(|s| std::mem::take(&mut s.borrow_mut().faults)))
}

pub fn alloc_counters() -> (u64, u64) {
    guarded(|| STATE.with(|s| {
        let s = s.borrow();
        (s.n_alloc, s.n_free)
    }))
}

// ---------------------------------------------------------------------------------------------
// events, context, fuses

pub fn push_event(ev: Ev) {
    untracked(|| {
        let _ = EVENTS.try_with(|e| e.borrow_mut().push(ev));
    })
}

pub fn events_len() -> usize {
    EVENTS.with(|e| e.borrow().len())
}

pub fn events_since(from: usize) -> Vec<Ev> {
    untracked(|| EVENTS.with(|e| e.borrow()[from..].to_vec()))
}

pub fn ctx() -> Ctx {
    CTX.with(|c| c.get())
}

pub fn set_ctx(c: Ctx) -> Ctx {
    CTX.with(|x| x.replace(c))
}

pub struct CtxScope(Ctx);
impl CtxScope {
    pub fn enter(c: Ctx) -> CtxScope {
        CtxScope(set_ctx(c))
    }
}
impl Drop for CtxScope {
    fn drop(&mut self) {
        set_ctx(self.0);
    }
}

/// Arm the trace fuse: the k-th (1-based) probe trace from now on panics. 0 disarms.
pub fn arm_trace_fuse(k: u32) {
    TRACE_FUSE.with(|f| f.set(k));
}

pub fn trace_fuse() -> u32 {
    TRACE_FUSE.with(|f| f.get())
}

pub const TRACE_PANIC: &str = "gcverif: injected trace panic";
pub const CALLBACK_PANIC: &str = "gcverif: injected callback panic";
pub const CTOR_PANIC: &str = "gcverif: injected element constructor panic";
pub const DROP_PANIC: &str = "gcverif: injected destructor panic";

thread_local! {
    static DROP_FUSE: Cell<u32> = const { Cell::new(0) };
    static DROP_FUSE_HIT: Cell<Option<u32>> = const { Cell::new(None) };
}

/// The k-th token destructed from now on panics (once; never while the thread is already unwinding).
pub fn arm_drop_fuse(k: u32) {
    DROP_FUSE.with(|f| f.set(k));
    DROP_FUSE_HIT.with(|f| f.set(None));
}

/// Disarm; returns the id of the object whose destructor panicked, if the fuse fired.
pub fn disarm_drop_fuse() -> Option<u32> {
    DROP_FUSE.with(|f| f.set(0));
    DROP_FUSE_HIT.with(|f| f.take())
}

/// Called by `Tok::drop` after the destruction has been logged.
pub fn on_tok_drop(id: u32) {
    let fire = DROP_FUSE.try_with(|f| {
        let v = f.get();
        if v == 0 {
            false
        } else {
            f.set(v - 1);
            v == 1
        }
    });
    if fire == Ok(true) && !std::thread::panicking() {
        DROP_FUSE_HIT.with(|f| f.set(Some(id)));
        std::panic::panic_any(DROP_PANIC);
    }
}

/// Called by `Probe::trace`.
pub fn on_probe_trace(arena: u8, id: u32) {
    push_event(Ev::Trace { arena, id });
    let fire = TRACE_FUSE.with(|f| {
        let v = f.get();
        if v == 0 {
            false
        } else {
            f.set(v - 1);
            v == 1
        }
    });
    if fire {
        std::panic::panic_any(TRACE_PANIC);
    }
}

pub fn set_quiet_panics(q: bool) -> bool {
    QUIET_PANICS.with(|c| c.replace(q))
}

/// Install a process-wide panic hook that stays silent for expected (injected / probed) panics.
pub fn install_panic_hook() {
    let default = std::panic::take_hook();
    std::panic::set_hook(Box::new(move |info| {
        let quiet = QUIET_PANICS.try_with(|c| c.get()).unwrap_or(false);
        if !quiet {
            default(info);
        }
    }));
}

pub fn panic_message(p: &(dyn std::any::Any + Send)) -> String {
    if let Some(s) = p.downcast_ref::<&'static str>() {
        (*s).to_string()
    } else if let Some(s) = p.downcast_ref::<String>() {
        s.clone()
    } else {
        "<non-string panic>".to_string()
    }
}
