//! Small-scope enumeration: every history up to a fixed length over a reduced alphabet, executed on
//! the real code from scratch. Exhaustive for that bounded space only.

use std::sync::Mutex;
use std::sync::atomic::{AtomicUsize, Ordering};

use crate::campaign::{CampaignResult, Failure, first_relevant};
use crate::driver;
use crate::lang::*;
use crate::profiles::Plan;

fn m(ops: Vec<MutOp>, via_root: bool) -> Step {
    Step::Mutate { arena: 0, via_root, ops, panic_at: None }
}

fn alloc(kind: Kind, e0: Sel, wedge: Sel) -> MutOp {
    MutOp::Alloc { kind, edges: [e0, 0, 0], wedge, len: 1 }
}

/// The reduced alphabet. Operand selectors: 0 = oldest operand, 255 = newest (the local just made).
pub fn alphabet(prop: &str) -> Vec<Step> {
    let mut a = vec![
        // allocation + adoption through the root
        m(vec![alloc(Kind::D, 0, 0), MutOp::RootSet { slot: 0, child: Some(255) }], true),
        // fresh child adopted by the oldest object through a Write projection
        m(vec![alloc(Kind::D, 0, 0), MutOp::Link { parent: 0, slot: 0, child: Some(255), variant: 0 }], false),
        // fresh child adopted by the newest reachable object
        m(vec![alloc(Kind::R, 0, 0), MutOp::Link { parent: 254, slot: 1, child: Some(255), variant: 0 }], false),
        // move an existing edge: oldest object adopts the newest reachable one, root forgets slot 1
        m(vec![MutOp::Link { parent: 0, slot: 3, child: Some(250), variant: 1 }], false),
        m(vec![MutOp::RootSet { slot: 0, child: None }], true),
        m(vec![MutOp::Link { parent: 0, slot: 0, child: None, variant: 0 }], false),
        // single units of work and the forced calls
        Step::Work { arena: 0, api: Api::CollectDebt, units: 1 },
        Step::Work { arena: 0, api: Api::MarkDebt, units: 1 },
        Step::Work { arena: 0, api: Api::CycleDebt, units: 1 },
        Step::Collect { arena: 0, api: Api::FinishMarking },
        Step::Collect { arena: 0, api: Api::FinishCycle },
        Step::Finalize { arena: 0, forced: true, ops: vec![], panic_at: None, then: Then::StartSweeping },
    ];
    match prop {
        "C05" => {
            a.push(m(vec![alloc(Kind::D, 0, 0), MutOp::RootWeak { slot: 0, child: Some(255) }], true));
            a.push(m(vec![MutOp::LinkWeak { parent: 0, slot: 0, child: Some(250), variant: 0 }], false));
            a.push(m(vec![MutOp::Upgrade { holder: 255, wslot: 0, store: Some((0, 1, 0)) }], false));
            a.push(m(vec![MutOp::Upgrade { holder: 0, wslot: 0, store: None }, MutOp::IsDropped { holder: 255, wslot: 0 }], false));
        }
        "C06" => {
            // raw node with each explicit barrier form, and the setters
            a.push(m(vec![alloc(Kind::R, 0, 0), MutOp::RootSet { slot: 1, child: Some(255) }], true));
            for v in 0..4u8 {
                a.push(m(vec![alloc(Kind::D, 0, 0), MutOp::Link { parent: 128, slot: 0, child: Some(255), variant: v }], false));
            }
            a.push(m(vec![alloc(Kind::LB, 0, 0), MutOp::RootSet { slot: 2, child: Some(255) }], true));
            a.push(m(vec![alloc(Kind::OB, 0, 0), MutOp::Link { parent: 200, slot: 0, child: Some(255), variant: 0 }], false));
        }
        "C08" => {
            a.push(Step::Collect { arena: 0, api: Api::CollectDebt });
            a.push(Step::Collect { arena: 0, api: Api::MarkDebt });
            a.push(Step::Collect { arena: 0, api: Api::CycleDebt });
            a.push(Step::AdjustDebt { arena: 0, x: 1e12 });
            a.push(Step::AdjustDebt { arena: 0, x: -1e12 });
        }
        _ => {}
    }
    a
}

fn nth_case(alpha: &[Step], len: usize, mut n: u64, preset: u8) -> Case {
    let mut steps = vec![Step::NewArena { preset, fallible: false, outcome: Outcome::Ok, ops: vec![] }];
    let k = alpha.len() as u64;
    for _ in 0..len {
        steps.push(alpha[(n % k) as usize].clone());
        n /= k;
    }
    steps.push(Step::Settle { arena: 0 });
    steps.push(m(vec![MutOp::ReadAll], false));
    Case { steps }
}

/// Enumerate all sequences of exactly 1..=depth letters. Returns the number of cases run.
pub fn run(plan: &Plan, depth: usize, threads: usize, presets: &[u8]) -> (CampaignResult, u64) {
    let alpha = alphabet(plan.prop);
    let k = alpha.len() as u64;
    // work items: (length, preset, chunk)
    let mut items: Vec<(usize, u8, u64, u64)> = Vec::new();
    for len in 1..=depth {
        let total = k.pow(len as u32);
        let chunk = 20_000u64;
        for p in presets {
            let mut s = 0;
            while s < total {
                items.push((len, *p, s, (s + chunk).min(total)));
                s += chunk;
            }
        }
    }
    let next = AtomicUsize::new(0);
    let stop = AtomicUsize::new(0);
    let out: Mutex<(CampaignResult, u64)> = Mutex::new((CampaignResult::default(), 0));
    std::thread::scope(|s| {
        for _ in 0..threads {
            s.spawn(|| {
                loop {
                    let i = next.fetch_add(1, Ordering::SeqCst);
                    if i >= items.len() || stop.load(Ordering::SeqCst) != 0 {
                        break;
                    }
                    let (len, preset, from, to) = items[i];
                    let mut local = CampaignResult::default();
                    let mut n_run = 0u64;
                    for n in from..to {
                        let case = nth_case(&alpha, len, n, preset);
                        let json = case.to_json();
                        crate::crash::set_current(json.as_bytes());
                        let r = driver::run_case(&case, plan.opts);
                        crate::crash::clear_current();
                        n_run += 1;
                        local.evaluations += 1;
                        local.cov.merge(&r.cov);
                        if (plan.nontrivial)(&r.cov) {
                            local.nontrivial.insert(case.hash64());
                            if local.samples.is_empty() {
                                local.samples.push(json);
                            }
                        }
                        if !r.internal.is_empty() {
                            local.internal.push(format!("{:?} in {}", r.internal, case.to_json()));
                            stop.store(1, Ordering::SeqCst);
                            break;
                        }
                        if let Some(v) = first_relevant(plan.prop, &r) {
                            local.failure = Some(Failure { case, violation: v, shard: i, reuse_addresses: plan.opts.reuse_addresses });
                            stop.store(1, Ordering::SeqCst);
                            break;
                        }
                    }
                    let mut g = out.lock().unwrap();
                    g.1 += n_run;
                    g.0.evaluations += local.evaluations;
                    g.0.cov.merge(&local.cov);
                    g.0.nontrivial.extend(local.nontrivial);
                    for s in local.samples {
                        if g.0.samples.len() < 2 {
                            g.0.samples.push(s);
                        }
                    }
                    g.0.internal.extend(local.internal);
                    if g.0.failure.is_none() {
                        g.0.failure = local.failure;
                    }
                }
            });
        }
    });
    out.into_inner().unwrap()
}
