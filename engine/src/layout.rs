//! C17: allocation layout integrity for every value layout and DST metadata (input-space check).

use std::alloc::Layout;
use std::cell::Cell;

use gc_arena::gc::{Fat, GcKind};
use gc_arena::lock::RefLock;
use gc_arena::meta::{AllocMeta, PtrMeta, UnitTypeMeta};
use gc_arena::{Arena, Collect, Gc, GcBuilder, GcSlice, GcSliceBuilder, GcSliceWithHeaderBuilder, GcStr, Mutation, Rootable};
use serde::{Deserialize, Serialize};

use crate::obs;

macro_rules! aligned {
    ($($n:literal $name:ident),*) => {
        $( #[derive(Copy, Clone, Default, Debug)] #[repr(align($n))] pub struct $name; )*
    };
}
aligned!(1 A1, 2 A2, 4 A4, 8 A8, 16 A16, 32 A32, 64 A64, 128 A128, 256 A256, 512 A512, 1024 A1024, 2048 A2048, 4096 A4096);

/// Plain bytes with a chosen size and alignment (Copy: usable as slice element and header).
#[repr(C)]
#[derive(Copy, Clone)]
pub struct Blob<const S: usize, A: Copy> {
    a: [A; 0],
    b: [u8; S],
}

/// The same with interior mutability, so that the whole extent can be rewritten from safe code
/// after allocation. Traced (NEEDS_TRACE = true) so that it passes through the gray queue.
#[repr(C)]
pub struct CBlob<const S: usize, A: Copy> {
    a: [A; 0],
    b: [Cell<u8>; S],
}

unsafe impl<'gc, const S: usize, A: Copy + 'static> Collect<'gc> for Blob<S, A> {
    const NEEDS_TRACE: bool = false;
}
unsafe impl<'gc, const S: usize, A: Copy + 'static> Collect<'gc> for CBlob<S, A> {
    const NEEDS_TRACE: bool = true;
    fn trace<T: gc_arena::collect::Trace<'gc>>(&self, _cc: &mut T) {}
}

pub fn pat(seed: u64, i: usize) -> u8 {
    ((seed >> ((i % 8) * 8)) as u8) ^ (i as u8).wrapping_mul(31) ^ ((i >> 8) as u8)
}

fn blob<const S: usize, A: Copy>(seed: u64, base: usize) -> Blob<S, A> {
    let mut b = [0u8; S];
    for (j, x) in b.iter_mut().enumerate() {
        *x = pat(seed, base + j);
    }
    Blob { a: [], b }
}

/// What the harness remembers about one allocation (no typed pointer survives the callback).
#[derive(Clone, Debug)]
pub struct Alloced {
    pub name: String,
    pub addr: usize,
    pub block: usize,
    pub size: usize,
    pub align: usize,
    /// (offset from addr, length, pattern base index)
    pub regions: Vec<(usize, usize, usize)>,
    pub seed: u64,
    pub writable: bool,
    pub requested: (usize, usize),
}

pub type AllocFn = for<'gc> fn(&'gc Mutation<'gc>, usize, u64, &mut Vec<String>) -> Option<(Gc<'gc, ()>, Alloced)>;

pub struct Entry {
    pub name: &'static str,
    pub class: u8, // 0 sized, 1 slice, 2 str, 3 slice-with-header, 4 custom metadata
    pub f: AllocFn,
}

fn finish<'gc>(name: String, erased: Gc<'gc, ()>, size: usize, align: usize, regions: Vec<(usize, usize, usize)>, seed: u64, writable: bool, blocks: Vec<usize>, errs: &mut Vec<String>) -> Option<(Gc<'gc, ()>, Alloced)> {
    let addr = Gc::as_ptr(erased) as usize;
    if addr % align != 0 {
        errs.push(format!("{name}: value address {addr:#x} is not aligned to {align}"));
    }
    let mut block = None;
    for b in blocks.iter().rev() {
        if let Some(info) = obs::block_info(*b) {
            if addr >= *b && addr + size <= *b + info.size {
                block = Some((*b, info));
                break;
            }
        }
    }
    let Some((block, info)) = block else {
        errs.push(format!("{name}: value extent [{addr:#x}, +{size}) lies in none of the blocks the call allocated ({} blocks)", blocks.len()));
        return None;
    };
    if blocks.len() != 1 {
        errs.push(format!("{name}: the allocating call made {} allocations, expected exactly one", blocks.len()));
    }
    // the allocator only promises the requested alignment: the value is aligned for every conforming
    // allocator only if the request covers the value's alignment and the offset is a multiple of it
    if info.align < align || (addr - block) % align != 0 {
        errs.push(format!("{name}: block requested with alignment {} holds a value of alignment {align} at offset {}: not aligned under every conforming allocator", info.align, addr - block));
    }
    obs::watch(block, addr);
    // the bookkeeping in front of the value must fit between the block start and the value
    if addr - block < 16 {
        errs.push(format!("{name}: only {} bytes between the block start and the value, the collector header cannot fit", addr - block));
    }
    Some((erased, Alloced { name, addr, block, size, align, regions, seed, writable, requested: (info.size, info.align) }))
}

pub fn alloc_sized<'gc, const S: usize, A: Copy + Default + 'static>(mc: &'gc Mutation<'gc>, _len: usize, seed: u64, errs: &mut Vec<String>) -> Option<(Gc<'gc, ()>, Alloced)> {
    let name = format!("CBlob<{S},align {}>", std::mem::align_of::<A>());
    let v = CBlob::<S, A> { a: [], b: std::array::from_fn(|j| Cell::new(pat(seed, j))) };
    obs::capture_on();
    let g = Gc::new(mc, v);
    let blocks = obs::capture_off();
    let size = std::mem::size_of_val(&*g);
    if size != std::mem::size_of::<CBlob<S, A>>() {
        errs.push(format!("{name}: size_of_val {size}"));
    }
    // raw pointer round trip
    let back = unsafe { Gc::from_ptr(Gc::as_ptr(g)) };
    if !Gc::ptr_eq(g, back) {
        errs.push(format!("{name}: from_ptr(as_ptr) is a different pointer"));
    }
    let thin = Gc::as_thin(g);
    if Gc::as_ptr(Gc::as_fat(thin)) != Gc::as_ptr(g) {
        errs.push(format!("{name}: as_thin/as_fat moved a sized pointer"));
    }
    finish(name, Gc::erase(g), size, std::mem::align_of::<CBlob<S, A>>(), vec![(0, S, 0)], seed, true, blocks, errs)
}

pub fn alloc_sized_static<'gc, const S: usize, A: Copy + Default + 'static>(mc: &'gc Mutation<'gc>, _len: usize, seed: u64, errs: &mut Vec<String>) -> Option<(Gc<'gc, ()>, Alloced)> {
    let name = format!("static Blob<{S},align {}>", std::mem::align_of::<A>());
    let v: Blob<S, A> = blob(seed, 0);
    obs::capture_on();
    let g = Gc::new_static(mc, v);
    let blocks = obs::capture_off();
    let size = std::mem::size_of_val(&*g);
    finish(name, Gc::erase(g), size, std::mem::align_of::<Blob<S, A>>(), vec![(0, S, 0)], seed, false, blocks, errs)
}

pub fn alloc_slice<'gc, const S: usize, A: Copy + Default + 'static>(mc: &'gc Mutation<'gc>, len: usize, seed: u64, errs: &mut Vec<String>) -> Option<(Gc<'gc, ()>, Alloced)> {
    let name = format!("[Blob<{S},align {}>; {len}]", std::mem::align_of::<A>());
    let stride = std::mem::size_of::<Blob<S, A>>();
    let els: Vec<Blob<S, A>> = (0..len).map(|k| blob(seed, k * S)).collect();
    obs::capture_on();
    let g: GcSlice<'gc, Blob<S, A>> = match seed % 3 {
        0 => GcSlice::new_slice(mc, &els),
        1 => GcSlice::new_slice_static(mc, &els),
        _ => GcSliceBuilder::new(len).write_slice_with(mc, |i| els[i]),
    };
    let blocks = obs::capture_off();
    if g.len() != len {
        errs.push(format!("{name}: length reads {}", g.len()));
    }
    let size = std::mem::size_of_val(&*g);
    if size != stride * len {
        errs.push(format!("{name}: size_of_val {size} != {}", stride * len));
    }
    let thin = Gc::as_thin(g);
    let fat = Gc::as_fat(thin);
    if thin.len() != len || fat.len() != len || !Gc::ptr_eq(fat, g) || Gc::as_ptr(fat) as *const () != Gc::as_ptr(g) as *const () {
        errs.push(format!("{name}: thin/fat round trip gives length {} / {} or another address", thin.len(), fat.len()));
    }
    let back: GcSlice<'gc, Blob<S, A>> = unsafe { Gc::from_ptr_with_kind(Gc::as_ptr(g)) };
    if back.len() != len || !Gc::ptr_eq(back, g) {
        errs.push(format!("{name}: from_ptr(as_ptr) changed the slice"));
    }
    let rt = unsafe { Gc::as_fat(Gc::<[Blob<S, A>], _>::from_thin_ptr_with_kind(Gc::as_thin_ptr(thin))) };
    let rt: GcSlice<'gc, Blob<S, A>> = rt;
    if rt.len() != len || !Gc::ptr_eq(rt, g) || Gc::as_thin_ref(thin) as *const _ as *const () != Gc::as_ptr(g) as *const () {
        errs.push(format!("{name}: raw thin pointer round trip gives length {} or another address", rt.len()));
    }
    let regions = (0..len).map(|k| (k * stride, S, k * S)).collect();
    finish(name, Gc::erase(g), size, std::mem::align_of::<Blob<S, A>>(), regions, seed, false, blocks, errs)
}

pub fn alloc_str<'gc>(mc: &'gc Mutation<'gc>, len: usize, seed: u64, errs: &mut Vec<String>) -> Option<(Gc<'gc, ()>, Alloced)> {
    let name = format!("str[{len}]");
    let s: String = (0..len).map(|i| (b'a' + pat(seed, i) % 26) as char).collect();
    obs::capture_on();
    let g = GcStr::new_str(mc, &s);
    let blocks = obs::capture_off();
    if &*g != s.as_str() {
        errs.push(format!("{name}: contents differ right after allocation"));
    }
    let thin = Gc::as_thin(g);
    let fat = Gc::as_fat(thin);
    if &*thin != s.as_str() || fat.len() != len || !Gc::ptr_eq(fat, g) {
        errs.push(format!("{name}: thin/fat round trip changed the string"));
    }
    let rt: GcStr<'gc> = unsafe { Gc::as_fat(Gc::<str, _>::from_thin_ptr_with_kind(Gc::as_thin_ptr(thin))) };
    if &*rt != s.as_str() || !Gc::ptr_eq(rt, g) {
        errs.push(format!("{name}: raw thin pointer round trip changed the string"));
    }
    // pattern regions: one per byte would be wasteful; verify through a dedicated base
    let regions = vec![(0usize, len, usize::MAX)];
    finish(name, Gc::erase(g), len, 1, regions, seed, false, blocks, errs)
}

pub fn alloc_swh<'gc, const HS: usize, HA: Copy + Default + 'static, const ES: usize, EA: Copy + Default + 'static>(mc: &'gc Mutation<'gc>, len: usize, seed: u64, errs: &mut Vec<String>) -> Option<(Gc<'gc, ()>, Alloced)> {
    let name = format!("SliceWithHeader<Blob<{HS},align {}>, Blob<{ES},align {}>>[{len}]", std::mem::align_of::<HA>(), std::mem::align_of::<EA>());
    let stride = std::mem::size_of::<Blob<ES, EA>>();
    let h: Blob<HS, HA> = blob(seed, 0);
    let els: Vec<Blob<ES, EA>> = (0..len).map(|k| blob(seed, HS + k * ES)).collect();
    obs::capture_on();
    let b = GcSliceWithHeaderBuilder::<Blob<HS, HA>, Blob<ES, EA>>::new(len).write_header(h);
    let g = if seed % 2 == 0 { b.copy_slice(mc, &els) } else { b.write_slice_with(mc, |i| els[i]) };
    let blocks = obs::capture_off();
    if g.slice.len() != len {
        errs.push(format!("{name}: length reads {}", g.slice.len()));
    }
    let size = std::mem::size_of_val(&*g);
    let base = Gc::as_ptr(g) as *const () as usize;
    let slice_off = g.slice.as_ptr() as usize - base;
    let hdr_off = &g.header as *const _ as usize - base;
    let align = std::mem::align_of::<Blob<HS, HA>>().max(std::mem::align_of::<Blob<ES, EA>>());
    let want = Layout::new::<Blob<HS, HA>>().extend(Layout::array::<Blob<ES, EA>>(len).unwrap()).unwrap().0.pad_to_align();
    if size != want.size() || hdr_off != 0 {
        errs.push(format!("{name}: size_of_val {size} (expected {}), header offset {hdr_off}", want.size()));
    }
    let thin = Gc::as_thin(g);
    let fat = Gc::as_fat(thin);
    if thin.slice.len() != len || fat.slice.len() != len || !Gc::ptr_eq(fat, g) || Gc::as_thin_ptr(thin) as usize != base {
        errs.push(format!("{name}: thin/fat round trip gives length {} / {} or another address", thin.slice.len(), fat.slice.len()));
    }
    let rt = unsafe { Gc::as_fat(Gc::<gc_arena::SliceWithHeader<Blob<HS, HA>, Blob<ES, EA>>, _>::from_thin_ptr_with_kind(Gc::as_thin_ptr(thin))) };
    if rt.slice.len() != len || !Gc::ptr_eq(rt, g) || Gc::as_thin_ref(thin) as *const _ as *const () as usize != base {
        errs.push(format!("{name}: raw thin pointer round trip gives length {} or another address", rt.slice.len()));
    }
    let mut regions = vec![(0usize, HS, 0usize)];
    regions.extend((0..len).map(|k| (slice_off + k * stride, ES, HS + k * ES)));
    finish(name, Gc::erase(g), size, align, regions, seed, false, blocks, errs)
}

/// Custom per-value metadata in front of the header: a byte slice whose length travels together
/// with padding `X` of a chosen size and alignment.
/// `R` > 0: the allocation layout is rounded up to a multiple of `R` and aligned to `R`, i.e. *more*
/// than the bare value needs (`AllocMeta::layout` only has to be sufficient); release must hand back
/// exactly that layout, not the value's.
pub struct PadMeta<X, const R: usize = 0>(std::marker::PhantomData<X>);

#[derive(Copy, Clone)]
#[repr(C)]
pub struct LenAnd<X: Copy> {
    pub x: X,
    pub len: usize,
    pub check: u32,
}

unsafe impl<X: Copy + Send + 'static, M, const R: usize> PtrMeta<[u8], M> for PadMeta<X, R> {
    type PtrMetadata = LenAnd<X>;
    type Thin = ();
    fn to_thin(_tm: &'static M, fat: *const [u8]) -> *const () {
        fat as *const ()
    }
    fn from_thin(_tm: &'static M, thin: *const (), m: LenAnd<X>) -> *const [u8] {
        // a corrupted metadata word is reported by the checks in `alloc_custom` / by the allocator
        // (wrong layout on release), not by a panic inside the collector
        let len = if m.check == 0xC0FF_EE00 ^ m.len as u32 { m.len } else { m.len.min(4096) ^ 0x8000_0000_0000 >> 40 };
        std::ptr::slice_from_raw_parts(thin as *const u8, len)
    }
}
impl<X: Copy + Send + 'static, M, const R: usize> AllocMeta<[u8], M> for PadMeta<X, R> {
    fn layout(_tm: &'static M, m: LenAnd<X>) -> Option<Layout> {
        if R == 0 { Layout::array::<u8>(m.len).ok() } else { Layout::from_size_align(m.len.checked_next_multiple_of(R)?.max(R), R).ok() }
    }
}

pub fn alloc_custom<'gc, X: Copy + Send + Default + 'static, const R: usize>(mc: &'gc Mutation<'gc>, len: usize, seed: u64, errs: &mut Vec<String>) -> Option<(Gc<'gc, ()>, Alloced)> {
    let name = format!("[u8; {len}] with {}-byte metadata aligned {}, block rounded to {R}", std::mem::size_of::<LenAnd<X>>(), std::mem::align_of::<LenAnd<X>>());
    let meta = LenAnd { x: X::default(), len, check: 0xC0FF_EE00 ^ len as u32 };
    obs::capture_on();
    let g: Gc<'gc, [u8], GcKind<Fat, (), PadMeta<X, R>>> = unsafe {
        let b = GcBuilder::<[u8], (), PadMeta<X, R>>::new_with_type_and_ptr_meta::<UnitTypeMeta>(meta);
        // the builder survives a trip through its raw pointer
        let raw = b.into_raw();
        if raw.len() != len {
            errs.push(format!("{name}: GcBuilder::into_raw gives length {}", raw.len()));
        }
        let mut b = GcBuilder::<[u8], (), PadMeta<X, R>>::from_raw(raw);
        let p = b.as_ptr() as *mut u8;
        if p != raw as *mut u8 {
            errs.push(format!("{name}: GcBuilder::from_raw(into_raw) moved the allocation"));
        }
        for i in 0..len {
            p.add(i).write(pat(seed, i));
        }
        b.assume_init(mc)
    };
    let blocks = obs::capture_off();
    if g.len() != len {
        errs.push(format!("{name}: length reads {}", g.len()));
    }
    let thin = Gc::as_thin(g);
    let fat = Gc::as_fat(thin);
    if thin.len() != len || fat.len() != len || !Gc::ptr_eq(fat, g) {
        errs.push(format!("{name}: thin/fat round trip gives length {} / {}", thin.len(), fat.len()));
    }
    let rt = unsafe { Gc::as_fat(Gc::<[u8], GcKind<gc_arena::gc::Thin, (), PadMeta<X, R>>>::from_thin_ptr_with_kind(Gc::as_thin_ptr(thin))) };
    if rt.len() != len || !Gc::ptr_eq(rt, g) {
        errs.push(format!("{name}: raw thin pointer round trip gives length {}", rt.len()));
    }
    finish(name, Gc::erase(g), len, 1, vec![(0, len, 0)], seed, false, blocks, errs)
}

// ---------------------------------------------------------------------------------------------

include!("layout_table.rs");

#[derive(Clone, Debug, PartialEq, Serialize, Deserialize)]
pub enum LStep {
    Alloc { entry: u16, len: u16, seed: u64, rooted: bool },
    Collect { api: u8 },
    Work { n: u8 },
    Unroot { i: u8 },
    Overwrite { i: u8, seed: u64 },
    Verify,
}

#[derive(Clone, Debug, PartialEq, Serialize, Deserialize)]
pub struct LCase {
    pub steps: Vec<LStep>,
}

#[derive(Collect)]
#[collect(no_drop)]
pub struct LRoot<'gc> {
    items: RefLock<Vec<Option<Gc<'gc, ()>>>>,
}

#[derive(Default, Clone, Debug)]
pub struct LCov {
    pub allocs: u64,
    pub classes: std::collections::BTreeMap<String, u64>,
    pub collections_while_live: u64,
    pub overwrites: u64,
    pub verified_bytes: u64,
}

pub struct LResult {
    pub errors: Vec<String>,
    pub internal: Vec<String>,
    pub cov: LCov,
}

fn len_class(len: usize) -> &'static str {
    match len {
        0 => "0",
        1 => "1",
        2..=8 => "2-8",
        9..=64 => "9-64",
        _ => "65+",
    }
}

fn verify_bytes(a: &Alloced, errs: &mut Vec<String>, cov: &mut LCov, when: &str) {
    if !obs::block_live(a.block) {
        errs.push(format!("{when}: {} at {:#x} is rooted but its block was released", a.name, a.addr));
        return;
    }
    for (off, len, base) in &a.regions {
        for j in 0..*len {
            let got = unsafe { *((a.addr + off + j) as *const u8) };
            let want = if *base == usize::MAX { b'a' + pat(a.seed, j) % 26 } else { pat(a.seed, base + j) };
            if got != want {
                errs.push(format!("{when}: {} at {:#x}: byte {} of the value reads {got:#x}, expected {want:#x}", a.name, a.addr, off + j));
                return;
            }
        }
        cov.verified_bytes += *len as u64;
    }
}

pub fn run_case(case: &LCase) -> LResult {
    let table = table();
    obs::begin_case();
    let mut errs: Vec<String> = Vec::new();
    let mut internal: Vec<String> = Vec::new();
    let mut cov = LCov::default();
    {
        let mut arena: Arena<Rootable![LRoot<'_>]> = Arena::new(|_mc| LRoot { items: RefLock::new(Vec::new()) });
        arena.metrics().set_pacing(crate::lang::pacing_preset(0));
        // harness-side records; index == index in the root vector (None once unrooted)
        let mut recs: Vec<Option<Alloced>> = Vec::new();
        let mut unrooted: Vec<Alloced> = Vec::new();
        for st in &case.steps {
            if errs.len() > 4 {
                break;
            }
            match st {
                LStep::Alloc { entry, len, seed, rooted } => {
                    if recs.iter().flatten().count() >= 24 {
                        continue;
                    }
                    let e = &table[*entry as usize % table.len()];
                    let len = *len as usize % 301;
                    let r = arena.mutate_root(|mc, root| {
                        let out = (e.f)(mc, len, *seed, &mut errs);
                        match out {
                            Some((g, a)) => {
                                if *rooted {
                                    root.items.get_mut().push(Some(g));
                                }
                                Some(a)
                            }
                            None => None,
                        }
                    });
                    if let Some(a) = r {
                        cov.allocs += 1;
                        *cov.classes.entry(format!("class{}:size{}:align{}:len{}", e.class, a.size.min(4096).next_power_of_two(), a.align, len_class(len))).or_insert(0) += 1;
                        if *rooted {
                            recs.push(Some(a));
                        } else {
                            unrooted.push(a);
                        }
                    }
                }
                LStep::Collect { api } => {
                    if recs.iter().flatten().count() > 0 {
                        cov.collections_while_live += 1;
                    }
                    match api % 5 {
                        0 => arena.collect_debt(),
                        1 => {
                            arena.mark_debt();
                        }
                        2 => {
                            arena.finish_marking();
                        }
                        3 => arena.cycle_debt(),
                        _ => arena.finish_cycle(),
                    }
                }
                LStep::Work { n } => {
                    for _ in 0..(*n % 6 + 1) {
                        let m = arena.metrics().clone();
                        if m.total_gc_count() == 0 {
                            break;
                        }
                        m.adjust_debt(1e9);
                        let d = m.allocation_debt();
                        m.adjust_debt(1e-6 - d);
                        arena.collect_debt();
                    }
                    if recs.iter().flatten().count() > 0 {
                        cov.collections_while_live += 1;
                    }
                }
                LStep::Unroot { i } => {
                    let live: Vec<usize> = (0..recs.len()).filter(|k| recs[*k].is_some()).collect();
                    if live.is_empty() {
                        continue;
                    }
                    let k = live[*i as usize % live.len()];
                    arena.mutate_root(|_mc, root| root.items.get_mut()[k] = None);
                    unrooted.push(recs[k].take().unwrap());
                }
                LStep::Overwrite { i, seed } => {
                    let live: Vec<usize> = (0..recs.len()).filter(|k| recs[*k].as_ref().map(|a| a.writable).unwrap_or(false)).collect();
                    if live.is_empty() {
                        continue;
                    }
                    let k = live[*i as usize % live.len()];
                    let a = recs[k].as_mut().unwrap();
                    if !obs::block_live(a.block) {
                        errs.push(format!("overwrite: {} at {:#x} is rooted but its block was released", a.name, a.addr));
                        continue;
                    }
                    // the value consists of Cell<u8>: writing its whole extent is what safe code may do
                    a.seed = *seed;
                    for (off, len, base) in a.regions.clone() {
                        for j in 0..len {
                            unsafe { *((a.addr + off + j) as *mut u8) = pat(*seed, base + j) };
                        }
                    }
                    cov.overwrites += 1;
                }
                LStep::Verify => {
                    arena.mutate(|_mc, root| {
                        let items = root.items.borrow();
                        for (k, r) in recs.iter().enumerate() {
                            if let (Some(a), Some(Some(g))) = (r, items.get(k)) {
                                if Gc::as_ptr(*g) as usize != a.addr {
                                    errs.push(format!("{}: address changed from {:#x} to {:#x}", a.name, a.addr, Gc::as_ptr(*g) as usize));
                                }
                            }
                        }
                    });
                    for a in recs.iter().flatten() {
                        verify_bytes(a, &mut errs, &mut cov, "verify");
                    }
                }
            }
            for f in obs::take_faults() {
                errs.push(format!("allocator: {f:?}"));
            }
        }
        // settle: rooted values intact and alive, unrooted ones gone
        arena.finish_cycle();
        arena.finish_cycle();
        for a in recs.iter().flatten() {
            verify_bytes(a, &mut errs, &mut cov, "after settle");
        }
        for a in &unrooted {
            if obs::block_live(a.block) {
                errs.push(format!("after settle: unrooted {} at {:#x} was not released (its bookkeeping may have been overwritten)", a.name, a.addr));
            }
        }
        let want = recs.iter().flatten().count();
        if arena.metrics().total_gc_count() != want {
            errs.push(format!("after settle: total_gc_count() = {}, rooted values = {want}", arena.metrics().total_gc_count()));
        }
        drop(arena);
        for a in recs.iter().flatten() {
            if obs::block_live(a.block) {
                errs.push(format!("after arena drop: {} at {:#x} was not released", a.name, a.addr));
            }
        }
    }
    let end = obs::end_case();
    for f in end.faults {
        match f {
            obs::AllocFault::RedZone { watched: false, .. } => internal.push(format!("{f:?}")),
            f => errs.push(format!("allocator: {f:?}")),
        }
    }
    if !end.leaked_watched.is_empty() {
        errs.push(format!("{} Gc blocks never returned", end.leaked_watched.len()));
    }
    LResult { errors: errs, internal, cov }
}
