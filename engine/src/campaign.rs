//! Sharded, seeded random campaigns over histories (proptest runners on worker threads).

use std::cell::{Cell, RefCell};
use std::collections::HashSet;
use std::sync::Mutex;
use std::sync::atomic::{AtomicUsize, Ordering};

use proptest::prelude::*;
use proptest::test_runner::{Config, RngAlgorithm, TestCaseError, TestError, TestRng, TestRunner};

use crate::driver::{self, CaseResult};
use crate::exec::{Cov, Violation};
use crate::r#gen;
use crate::lang::*;
use crate::profiles::Plan;

pub const SHARDS: usize = 64;

pub struct Failure {
    pub case: Case,
    pub violation: Violation,
    pub shard: usize,
    pub reuse_addresses: bool,
}

#[derive(Default)]
pub struct CampaignResult {
    pub evaluations: u64,
    pub nontrivial: HashSet<u64>,
    pub samples: Vec<String>,
    pub cov: Cov,
    pub failure: Option<Failure>,
    pub internal: Vec<String>,
    pub other_prop: std::collections::BTreeMap<String, u64>,
}

fn shard_seed(seed: u64, shard: usize, prop: &str, salt: u64) -> [u8; 32] {
    let mut b = [0u8; 32];
    b[..8].copy_from_slice(&seed.to_le_bytes());
    b[8..16].copy_from_slice(&(shard as u64).to_le_bytes());
    let pb = prop.as_bytes();
    b[16..16 + pb.len().min(8)].copy_from_slice(&pb[..pb.len().min(8)]);
    b[24..32].copy_from_slice(&salt.to_le_bytes());
    b
}

pub fn first_relevant(prop: &str, r: &CaseResult) -> Option<Violation> {
    r.violations.iter().find(|v| driver::relevant(prop, v)).cloned()
}

/// Strategy: an optional directed prefix followed by random steps.
pub fn strategy(plan: &Plan, prefixes: &[Vec<Step>], max_steps: usize) -> BoxedStrategy<Case> {
    let mut p = plan.profile.clone();
    p.max_steps = max_steps;
    let base = r#gen::case_strategy(&p);
    if prefixes.is_empty() {
        return base;
    }
    let pf: Vec<Vec<Step>> = prefixes.to_vec();
    let n = pf.len();
    let tail = proptest::collection::vec(r#gen::step_strategy(&p), 0..=max_steps / 2);
    let with_prefix = (0..n, tail).prop_map(move |(i, mut t)| {
        let mut steps = pf[i].clone();
        steps.append(&mut t);
        Case { steps }
    });
    prop_oneof![3 => base, 1 => with_prefix].boxed()
}

pub fn run(plan: &Plan, total_cases: u64, seed: u64, salt: u64, prefixes: &[Vec<Step>], max_steps: usize, threads: usize) -> CampaignResult {
    let per_shard = (total_cases / SHARDS as u64).max(1) as u32;
    let next = AtomicUsize::new(0);
    let abort_above = AtomicUsize::new(usize::MAX);
    let results: Mutex<Vec<(usize, CampaignResult)>> = Mutex::new(Vec::new());
    std::thread::scope(|s| {
        for _ in 0..threads {
            s.spawn(|| {
                loop {
                    let shard = next.fetch_add(1, Ordering::SeqCst);
                    if shard >= SHARDS || shard > abort_above.load(Ordering::SeqCst) {
                        break;
                    }
                    let r = run_shard(plan, shard, per_shard, seed, salt, prefixes, max_steps, &abort_above);
                    if r.failure.is_some() || !r.internal.is_empty() {
                        abort_above.fetch_min(shard, Ordering::SeqCst);
                    }
                    results.lock().unwrap().push((shard, r));
                }
            });
        }
    });
    let mut all = results.into_inner().unwrap();
    all.sort_by_key(|(i, _)| *i);
    let mut out = CampaignResult::default();
    for (_, r) in all {
        out.evaluations += r.evaluations;
        out.cov.merge(&r.cov);
        for h in r.nontrivial {
            out.nontrivial.insert(h);
        }
        for s in r.samples {
            if out.samples.len() < 3 {
                out.samples.push(s);
            }
        }
        for (k, v) in r.other_prop {
            *out.other_prop.entry(k).or_insert(0) += v;
        }
        out.internal.extend(r.internal);
        if out.failure.is_none() {
            out.failure = r.failure;
        }
    }
    out
}

#[allow(clippy::too_many_arguments)]
fn run_shard(plan: &Plan, shard: usize, cases: u32, seed: u64, salt: u64, prefixes: &[Vec<Step>], max_steps: usize, abort_above: &AtomicUsize) -> CampaignResult {
    let strat = strategy(plan, prefixes, max_steps);
    let rng = TestRng::from_seed(RngAlgorithm::ChaCha, &shard_seed(seed, shard, plan.prop, salt));
    let mut runner = TestRunner::new_with_rng(
        Config { cases, failure_persistence: None, max_shrink_iters: 4000, max_local_rejects: 1, max_global_rejects: 1, ..Config::default() },
        rng,
    );
    let out = RefCell::new(CampaignResult::default());
    let failed = Cell::new(false);
    let last_violation: RefCell<Option<Violation>> = RefCell::new(None);
    let res = runner.run(&strat, |case| {
        if shard > abort_above.load(Ordering::Relaxed) {
            return Ok(());
        }
        let json = case.to_json();
        crate::crash::set_current(json.as_bytes());
        let r = driver::run_case(&case, plan.opts);
        crate::crash::clear_current();
        let rel = first_relevant(plan.prop, &r);
        if !failed.get() {
            let mut o = out.borrow_mut();
            o.evaluations += 1;
            o.cov.merge(&r.cov);
            if (plan.nontrivial)(&r.cov) {
                let h = case.hash64();
                if o.nontrivial.insert(h) && o.samples.len() < 2 {
                    o.samples.push(json.clone());
                }
            }
            for v in &r.violations {
                if !driver::relevant(plan.prop, v) {
                    *o.other_prop.entry(format!("{}:{}", v.prop, v.tag)).or_insert(0) += 1;
                }
            }
            if !r.internal.is_empty() {
                o.internal.push(format!("{:?} in case {}", r.internal, json));
                failed.set(true);
                return Err(TestCaseError::fail("internal"));
            }
        }
        match rel {
            Some(v) => {
                failed.set(true);
                *last_violation.borrow_mut() = Some(v.clone());
                Err(TestCaseError::fail(format!("{}:{}", v.prop, v.tag)))
            }
            None => {
                if failed.get() && !r.internal.is_empty() {
                    // do not shrink into harness trouble
                    return Ok(());
                }
                Ok(())
            }
        }
    });
    let mut o = out.into_inner();
    if let Err(TestError::Fail(_, case)) = res {
        if o.internal.is_empty() {
            // re-run the minimal case to get its violation text
            let r = driver::run_case(&case, plan.opts);
            let v = first_relevant(plan.prop, &r).or_else(|| last_violation.borrow().clone());
            if let Some(v) = v {
                o.failure = Some(Failure { case, violation: v, shard, reuse_addresses: plan.opts.reuse_addresses });
            }
        }
    }
    o
}

/// Run fixed cases (templates, regression corpus). Returns the first failure.
pub fn run_fixed(plan: &Plan, cases: &[(String, Case)], into: &mut CampaignResult) {
    for (name, case) in cases {
        let json = case.to_json();
        crate::crash::set_current(json.as_bytes());
        let r = driver::run_case(case, plan.opts);
        crate::crash::clear_current();
        into.evaluations += 1;
        into.cov.merge(&r.cov);
        if (plan.nontrivial)(&r.cov) && into.nontrivial.insert(case.hash64()) && into.samples.len() < 3 {
            into.samples.push(json.clone());
        }
        if !r.internal.is_empty() {
            into.internal.push(format!("{name}: {:?}", r.internal));
        }
        if into.failure.is_none() {
            if let Some(v) = first_relevant(plan.prop, &r) {
                into.failure = Some(Failure { case: case.clone(), violation: v, shard: usize::MAX, reuse_addresses: plan.opts.reuse_addresses });
            }
        }
    }
}

/// Greedy step deletion (used where proptest's own shrinking is not available).
pub fn shrink(plan: &Plan, case: Case) -> Case {
    let mut cur = case;
    let mut changed = true;
    let mut budget = 400;
    while changed && budget > 0 {
        changed = false;
        for i in 0..cur.steps.len() {
            if cur.steps.len() <= 1 {
                break;
            }
            let mut t = cur.clone();
            t.steps.remove(i);
            budget -= 1;
            let r = driver::run_case(&t, plan.opts);
            if r.internal.is_empty() && first_relevant(plan.prop, &r).is_some() {
                cur = t;
                changed = true;
                break;
            }
            if budget == 0 {
                break;
            }
        }
    }
    cur
}
