//! Program probes: rustc as accept/reject oracle, run against the library built from /repo.

use std::path::PathBuf;
use std::process::Command;
use std::sync::Mutex;
use std::sync::atomic::{AtomicUsize, Ordering};

#[derive(Clone, Debug)]
pub struct Toolchain {
    pub rlib: String,
    pub deps: String,
    pub work: PathBuf,
}

#[derive(Clone, Debug)]
pub struct Compiled {
    pub ok: bool,
    pub stderr: String,
    pub bin: Option<PathBuf>,
}

impl Toolchain {
    pub fn from_env(tag: &str) -> Result<Toolchain, String> {
        let rlib = std::env::var("GCV_RLIB").map_err(|_| "GCV_RLIB not set (run through ./check)".to_string())?;
        let deps = std::env::var("GCV_DEPS").map_err(|_| "GCV_DEPS not set".to_string())?;
        let work = PathBuf::from(format!("{}/scratch/probes-{tag}-{}", crate::root_dir(), std::process::id()));
        std::fs::create_dir_all(&work).map_err(|e| e.to_string())?;
        Ok(Toolchain { rlib, deps, work })
    }

    pub fn cleanup(&self) {
        let _ = std::fs::remove_dir_all(&self.work);
    }

    /// `link`: produce an executable; otherwise only type-check / borrow-check (metadata).
    pub fn compile(&self, name: &str, src: &str, link: bool) -> Compiled {
        let path = self.work.join(format!("{name}.rs"));
        if std::fs::write(&path, src).is_err() {
            return Compiled { ok: false, stderr: "cannot write probe".into(), bin: None };
        }
        let out = self.work.join(if link { name.to_string() } else { format!("{name}.rmeta") });
        let mut c = Command::new("rustc");
        c.arg("--edition").arg("2024").arg("--crate-type").arg("bin").arg("--crate-name").arg(name.replace('-', "_"));
        c.arg("-L").arg(format!("dependency={}", self.deps)).arg("--extern").arg(format!("gc_arena={}", self.rlib));
        if let Ok(ex) = std::env::var("GCV_EXTERNS") {
            for e in ex.split_whitespace() {
                c.arg("--extern").arg(e);
            }
        }
        c.arg("--cap-lints").arg("allow").arg("-A").arg("warnings");
        if link {
            c.arg("-C").arg("opt-level=1").arg("-C").arg("debuginfo=0").arg("-C").arg("panic=unwind");
        } else {
            c.arg("--emit=metadata");
        }
        c.arg("-o").arg(&out).arg(&path);
        c.env_remove("RUSTFLAGS");
        match c.output() {
            Ok(o) => {
                let stderr = String::from_utf8_lossy(&o.stderr).to_string();
                let ok = o.status.success();
                Compiled { ok, stderr, bin: if ok && link { Some(out) } else { None } }
            }
            Err(e) => Compiled { ok: false, stderr: format!("cannot run rustc: {e}"), bin: None },
        }
    }

    pub fn run(&self, bin: &PathBuf, timeout_s: u64) -> (Option<i32>, String) {
        let out = Command::new("timeout").arg(format!("{timeout_s}")).arg(bin).output();
        match out {
            Ok(o) => {
                let mut s = String::from_utf8_lossy(&o.stdout).to_string();
                s.push_str(&String::from_utf8_lossy(&o.stderr));
                (o.status.code(), s)
            }
            Err(e) => (None, format!("cannot run probe: {e}")),
        }
    }
}

/// Error codes and message families of a rustc stderr.
pub fn error_codes(stderr: &str) -> Vec<String> {
    let mut v = Vec::new();
    for line in stderr.lines() {
        if let Some(rest) = line.strip_prefix("error[") {
            if let Some(end) = rest.find(']') {
                v.push(rest[..end].to_string());
            }
        } else if line.starts_with("error: ") {
            let m = &line[7..];
            if m.starts_with("aborting") || m.starts_with("could not compile") {
                continue;
            }
            let fam = if m.contains("lifetime may not live long enough") {
                "lifetime-may-not-live-long-enough"
            } else if m.contains("not general enough") {
                "not-general-enough"
            } else if m.contains("borrowed data escapes") {
                "borrowed-data-escapes"
            } else if m.contains("unsafe") {
                "unsafe-forbidden"
            } else {
                "other"
            };
            v.push(format!("{fam}: {}", m.chars().take(90).collect::<String>()));
        }
    }
    v
}

/// Errors that mean the generator produced a broken program rather than a rejected escape.
pub fn generator_fault(stderr: &str) -> bool {
    const BAD: [&str; 12] = ["E0425", "E0433", "E0412", "E0432", "E0061", "E0423", "E0428", "E0407", "E0046", "E0404", "E0405", "E0583"];
    for c in error_codes(stderr) {
        if BAD.contains(&c.as_str()) {
            return true;
        }
        if c.starts_with("other:") && (c.contains("expected") || c.contains("unexpected") || c.contains("mismatched closing") || c.contains("unknown start of token")) {
            return true;
        }
    }
    false
}

/// Run `f` over all items on `threads` threads, keeping the order of the results.
pub fn par_map<T: Sync, R: Send>(items: &[T], threads: usize, f: impl Fn(usize, &T) -> R + Sync) -> Vec<R> {
    let next = AtomicUsize::new(0);
    let out: Mutex<Vec<(usize, R)>> = Mutex::new(Vec::new());
    std::thread::scope(|s| {
        for _ in 0..threads.max(1) {
            s.spawn(|| {
                loop {
                    let i = next.fetch_add(1, Ordering::SeqCst);
                    if i >= items.len() {
                        break;
                    }
                    let r = f(i, &items[i]);
                    out.lock().unwrap().push((i, r));
                }
            });
        }
    });
    let mut v = out.into_inner().unwrap();
    v.sort_by_key(|(i, _)| *i);
    v.into_iter().map(|(_, r)| r).collect()
}
