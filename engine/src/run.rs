//! Top-level steps: collection calls, callbacks, arena lifecycle, and the per-call oracles
//! (C01 reclamation check, C02 settle, C03 callback bracket, C04 teardown, C08 protocol,
//! C09 pacing, C10 metrics).

use std::panic::{AssertUnwindSafe, catch_unwind};

use gc_arena::arena::CollectionPhase;
use gc_arena::{Arena, Finalization, Mutation};

use crate::env::{Env, RootMode};
use crate::exec::*;
use crate::heap::*;
use crate::lang::*;
use crate::model::*;
use crate::obs::{self, Ctx, CtxScope};

pub const EPS_DEBT: f64 = 1e-6;
pub const MAX_ARENAS: usize = 3;

fn call_api(a: &mut AnyArena, api: Api) -> bool {
    macro_rules! go {
        ($x:expr) => {
            match api {
                Api::CollectDebt => {
                    $x.collect_debt();
                    false
                }
                Api::MarkDebt => $x.mark_debt().is_some(),
                Api::FinishMarking => $x.finish_marking().is_some(),
                Api::CycleDebt => {
                    $x.cycle_debt();
                    false
                }
                Api::FinishCycle => {
                    $x.finish_cycle();
                    false
                }
            }
        };
    }
    match a {
        AnyArena::A(x) => go!(x),
        AnyArena::B(x) => go!(x),
    }
}

fn phase_of(a: &AnyArena) -> CollectionPhase {
    match a {
        AnyArena::A(x) => x.collection_phase(),
        AnyArena::B(x) => x.collection_phase(),
    }
}

fn rho(p: &gc_arena::metrics::Pacing) -> f64 {
    let a = p.mark_factor + p.trace_factor + p.keep_factor;
    let b = p.drop_factor + p.free_factor;
    let c = p.mark_factor + p.drop_factor + p.keep_factor;
    a.max(b).max(c)
}

fn all_zero(p: &gc_arena::metrics::Pacing) -> bool {
    p.mark_factor == 0.0 && p.trace_factor == 0.0 && p.keep_factor == 0.0 && p.drop_factor == 0.0 && p.free_factor == 0.0
}

impl Exec {
    fn arena_ix(&self, sel: u8) -> Option<usize> {
        let live: Vec<usize> = (0..self.arenas.len()).filter(|i| self.arenas[*i].is_some()).collect();
        if live.is_empty() { None } else { Some(live[sel as usize % live.len()]) }
    }

    fn snapshot_others(&self, except: usize) -> Vec<(usize, u8, usize, u64)> {
        let mut v = Vec::new();
        for (i, a) in self.arenas.iter().enumerate() {
            if i == except {
                continue;
            }
            if let Some(a) = a {
                let m = Exec::metrics_of(a);
                v.push((i, phase_ix(phase_of(a)), m.total_gc_count(), m.allocation_debt().to_bits()));
            }
        }
        v
    }

    fn check_others(&mut self, before: &[(usize, u8, usize, u64)], except: usize, what: &str) {
        let after = self.snapshot_others(except);
        if before.iter().any(|b| b.1 != 0) {
            self.cov.other_arena_active += 1;
        }
        if before != after.as_slice() {
            self.violate("C20", "other-arena-changed", format!("{what} on arena {except}: (arena, phase, gc count, debt bits) of the other arenas changed from {before:?} to {after:?}"));
        }
    }

    // -------------------------------------------------------------------------------------
    // collection calls

    /// One collection API call with all per-call oracles. Returns (returned Some, panicked).
    pub fn collect_call(&mut self, ai: usize, api: Api, label: &str) -> (bool, bool) {
        let Some(mut arena) = self.arenas[ai].take() else { return (false, false) };
        let a8 = ai as u8;
        let reach = self.model.closure(a8);
        let m = Exec::metrics_of(&arena).clone();
        let ph0 = phase_ix(phase_of(&arena));
        let debt0 = m.allocation_debt();
        let count0 = m.total_gc_count();
        let pacing = pacing_preset(self.model.arenas[ai].preset);
        let others = self.snapshot_others(ai);
        self.cov.collect_calls += 1;
        self.cov.phase_seen[ph0 as usize] += 1;
        *self.cov.c08.entry((ph0, api as u8, debt_class(debt0))).or_insert(0) += 1;

        // C07: protection set is fixed at the last moment before a call that may leave marking
        if ph0 == 1 || ph0 == 2 {
            let roots = self.bk[ai].resurrected.clone();
            if !roots.is_empty() {
                let mut seen = vec![false; self.model.objs.len()];
                self.model.closure_from(&mut seen, roots);
                self.bk[ai].protected = (0..seen.len() as u32).filter(|i| seen[*i as usize]).collect();
            }
        }

        let fuse_armed = obs::trace_fuse() > 0;
        let ev0 = obs::events_len();
        obs::set_quiet_panics(true);
        // colours before the call, to know which arm of the sweep a destructor fault hits
        let mut pre_colours: Option<gc_arena::verif::Snapshot> = None;
        if let Some(k) = self.pending_sweep_fuse.take() {
            pre_colours = Some(obs::untracked(|| match &arena {
                AnyArena::A(x) => x.verif_snapshot(),
                AnyArena::B(x) => x.verif_snapshot(),
            }));
            obs::arm_drop_fuse(k);
        }
        let res = {
            let _c = CtxScope::enter(Ctx::Collect);
            catch_unwind(AssertUnwindSafe(|| call_api(&mut arena, api)))
        };
        let drop_fired = obs::disarm_drop_fuse();
        obs::set_quiet_panics(false);
        let what = format!("{label} {}(arena {ai}) from phase {ph0}", api.name());
        let (ret_some, panicked) = match res {
            Ok(b) => {
                if let Some(id) = drop_fired {
                    self.violate("C04", "drop-panic-swallowed", format!("{label} {}(arena {ai}): the destructor of object {id} panicked but the call returned normally", api.name()));
                }
                (b, false)
            }
            Err(p) => {
                let msg = obs::panic_message(&*p);
                if msg == obs::TRACE_PANIC {
                    self.fault_injected = true;
                    self.cov.faults_trace += 1;
                    *self.cov.fault_cells.entry((0, ph0)).or_insert(0) += 1;
                } else if msg == obs::DROP_PANIC && drop_fired.is_some() {
                    // the collector unlinks (or marks as destructed) before it runs a destructor: the
                    // value counts as destructed, its block may stay allocated for ever
                    self.fault_injected = true;
                    self.cov.sweep_drop_faults += 1;
                    let id = drop_fired.unwrap();
                    // an unreachable, not weakly marked object is unlinked before its destructor runs:
                    // if that unwinds the block stays allocated for ever.  A weakly marked object stays
                    // on the list as a shell and is released like any other shell later on, so it gets
                    // no exemption (colour 1 = weakly marked in the snapshot taken before the call).
                    obs::untracked(|| {
                        if let Some(o) = self.model.objs.iter_mut().find(|o| o.id == id && o.arena == a8) {
                            let weakly_marked = pre_colours.as_ref().and_then(|s| s.color_of(o.addr)) == Some(1);
                            if !weakly_marked {
                                o.fault_exempt = true;
                            }
                        }
                    });
                } else if msg.contains("attempt to") {
                    self.violate("C10", "arithmetic-panic", format!("{what}: {msg}"));
                } else {
                    self.violate("C08", "collect-panicked", format!("{what}: unexpected panic: {msg}"));
                }
                (false, true)
            }
        };
        let _ = fuse_armed;
        let ph1 = phase_ix(phase_of(&arena));
        let debt1 = m.allocation_debt();
        let count1 = m.total_gc_count();

        let sum = self.process_events_cycle(ev0, ai, Some(&reach), &what, ph0, panicked);
        self.arenas[ai] = Some(arena);
        self.check_others(&others, ai, &what);

        // ---- C10: count and debt sanity
        let unreleased = self.model.count_unreleased(a8);
        if count1 != unreleased {
            self.violate("C10", "gc-count", format!("{what}: total_gc_count() = {count1}, allocations made and not yet released = {unreleased}"));
        }
        self.check_debt_sane(ai, debt1, count1, &what);

        if !panicked {
            // ---- C08: protocol
            self.c08_call(api, ph0, ph1, ret_some, &sum, count0, count1, &what);
            // ---- C09: simple clauses
            match api {
                Api::CollectDebt => {
                    if debt1 != 0.0 {
                        self.violate("C09", "collect-debt-left", format!("{what}: returned with allocation debt {debt1}"));
                    }
                }
                Api::CycleDebt => {
                    if debt1 != 0.0 && ph1 != 0 {
                        self.violate("C09", "cycle-debt-left", format!("{what}: returned with debt {debt1} in phase {ph1}"));
                    }
                }
                Api::MarkDebt => {
                    if debt1 != 0.0 && ph1 != 2 && ph1 != 3 {
                        self.violate("C09", "mark-debt-left", format!("{what}: returned with debt {debt1} in phase {ph1}"));
                    }
                }
                _ => {}
            }
            if all_zero(&pacing) && debt0 > 0.0 && matches!(api, Api::CollectDebt | Api::CycleDebt) && ph1 != 0 {
                self.violate("C09", "stop-the-world", format!("{what}: all work factors zero, entered with debt {debt0}, returned in phase {ph1}"));
            }
            if self.opts.c09 {
                self.c09_after_call(ai, api, ph0, ph1, debt0, debt1, count0, count1, &sum, &what);
            }
        } else if self.opts.c09 {
            self.bk[ai].c09 = C09Bk::default();
        }

        if ph1 == 0 {
            // cycle over
            if ph0 != 0 || sum.root_traces > 0 {
                self.cov.cycles_completed += 1;
                if self.cov.pending_active_adopt {
                    self.cov.cycle_completed_after_active_adopt = true;
                }
            }
            self.bk[ai].mutated_since_wake = false;
            self.bk[ai].protected.clear();
            self.bk[ai].resurrected.clear();
            self.bk[ai].root_retrace_owed = false;
        }
        (ret_some, panicked)
    }

    fn check_debt_sane(&mut self, ai: usize, debt: f64, count: usize, what: &str) {
        let _ = ai;
        if !debt.is_finite() || debt < 0.0 {
            self.violate("C10", "debt-not-finite-nonneg", format!("{what}: allocation_debt() = {debt}"));
        }
        if count == 0 && debt != 0.0 {
            self.violate("C10", "debt-empty-arena", format!("{what}: arena holds no allocations but allocation_debt() = {debt}"));
        }
    }

    /// Event processing plus cycle-boundary bookkeeping (root-trace markers).
    fn process_events_cycle(&mut self, ev0: usize, ai: usize, reach: Option<&[bool]>, what: &str, ph0: u8, panicked: bool) -> EvSummary {
        // Cycle-start markers are handled while walking the events in order, so that "protected
        // until the next cycle" ends exactly at the marker.
        let evs = obs::events_since(ev0);
        let mut cut = ev0;
        let mut total = EvSummary::default();
        let mut started_in_call = 0u32;
        for (i, ev) in evs.iter().enumerate() {
            if let obs::Ev::Trace { id, .. } = ev {
                if *id >= ROOT_ID_BASE {
                    // flush what came before the marker
                    let part = self.process_events_range(cut, ev0 + i, ai, reach, what);
                    merge(&mut total, part);
                    cut = ev0 + i;
                    if self.bk[ai].root_retrace_owed {
                        self.bk[ai].root_retrace_owed = false;
                    } else {
                        // a new cycle starts here
                        started_in_call += 1;
                        self.bk[ai].cycles_started += 1;
                        self.bk[ai].protected.clear();
            self.bk[ai].resurrected.clear();
                        if ph0 == 0 || ph0 == 3 || started_in_call > 1 {
                            self.bk[ai].mutated_since_wake = false;
                        }
                    }
                }
            }
        }
        let part = self.process_events_range(cut, ev0 + evs.len(), ai, reach, what);
        merge(&mut total, part);
        total.cycle_starts = started_in_call;
        if panicked {
            if let Some(obs::Ev::Trace { id, .. }) = evs.iter().rev().find(|e| matches!(e, obs::Ev::Trace { .. })) {
                if *id >= ROOT_ID_BASE {
                    // the root trace unwound: the root will be traced again
                    self.bk[ai].root_retrace_owed = true;
                }
            }
        }
        total
    }

    fn process_events_range(&mut self, from: usize, to: usize, ai: usize, reach: Option<&[bool]>, what: &str) -> EvSummary {
        self.process_events_bounded(from, to, Some(ai as u8), reach, what)
    }

    // -------------------------------------------------------------------------------------
    // C08

    #[allow(clippy::too_many_arguments)]
    fn c08_call(&mut self, api: Api, ph0: u8, ph1: u8, ret_some: bool, sum: &EvSummary, count0: usize, count1: usize, what: &str) {
        let quiet = sum.traces == 0 && sum.drops == 0 && sum.frees == 0 && count0 == count1;
        match api {
            Api::FinishCycle => {
                if ph1 != 0 {
                    self.violate("C08", "finish-cycle-not-sleeping", format!("{what}: ended in phase {ph1}"));
                }
            }
            Api::FinishMarking => {
                if ret_some != (ph0 != 3) {
                    self.violate("C08", "finish-marking-return", format!("{what}: returned is_some = {ret_some}"));
                }
                if ph0 != 3 && ph1 != 2 {
                    self.violate("C08", "finish-marking-phase", format!("{what}: ended in phase {ph1}, expected Marked"));
                }
                if ph0 == 3 && (ph1 != 3 || !quiet) {
                    self.violate("C08", "finish-marking-while-sweeping", format!("{what}: did something while Sweeping (phase {ph1}, events {:?})", String::from_utf8_lossy(&sum.pattern)));
                }
            }
            Api::MarkDebt => {
                if ret_some != (ph1 == 2) {
                    self.violate("C08", "mark-debt-return", format!("{what}: returned is_some = {ret_some}, ended in phase {ph1}"));
                }
                if ph0 == 2 && ph1 != 2 {
                    self.violate("C08", "mark-debt-left-marked", format!("{what}: left Marked for phase {ph1}"));
                }
                if ph0 == 3 && (ph1 != 3 || !quiet) {
                    self.violate("C08", "mark-debt-while-sweeping", format!("{what}: did something while Sweeping (phase {ph1})"));
                }
                if ph1 == 3 && ph0 != 3 {
                    self.violate("C08", "mark-debt-swept", format!("{what}: entered Sweeping"));
                }
                if ph0 == 1 && ph1 == 0 {
                    self.violate("C08", "mark-debt-slept", format!("{what}: went from Marking to Sleeping"));
                }
            }
            Api::CycleDebt => {
                if ph0 == 3 && !(ph1 == 3 || ph1 == 0) {
                    self.violate("C08", "cycle-debt-new-cycle", format!("{what}: passed from Sweeping to phase {ph1} in one call"));
                }
            }
            Api::CollectDebt => {}
        }
        // order of work inside one call: marking (traces) strictly before sweeping (drops/frees);
        // only collect_debt may start another cycle, and then at most one whole further cycle.
        let mut segments = 0;
        let mut in_sweep = false;
        let mut any = false;
        for c in &sum.pattern {
            match c {
                b'R' | b't' => {
                    if in_sweep || !any {
                        segments += 1;
                        in_sweep = false;
                    }
                    any = true;
                }
                _ => {
                    if !any {
                        segments += 1;
                    }
                    any = true;
                    in_sweep = true;
                }
            }
        }
        let max_segments = if api == Api::CollectDebt { 2 + (ph0 == 3) as u32 } else { 1 };
        // a call that began Sweeping and traces has started a new marking phase
        if api != Api::CollectDebt {
            if segments > max_segments {
                self.violate("C08", "work-order", format!("{what}: trace/drop events {:?} show more than one mark-then-sweep pass", String::from_utf8_lossy(&sum.pattern)));
            }
            if ph0 == 3 && sum.traces > 0 {
                self.violate("C08", "sweeping-to-marking", format!("{what}: traced objects in a call that began Sweeping"));
            }
            if matches!(api, Api::MarkDebt | Api::FinishMarking) && (sum.drops > 0 || sum.frees > 0) {
                self.violate("C08", "marking-call-swept", format!("{what}: destructed or released objects"));
            }
        } else if segments > max_segments {
            self.violate("C08", "work-order", format!("{what}: trace/drop events {:?} show more than a finished cycle plus one whole cycle", String::from_utf8_lossy(&sum.pattern)));
        }
        if sum.cycle_starts > 1 + (api == Api::CollectDebt) as u32 {
            self.violate("C08", "too-many-cycles", format!("{what}: {} cycle starts in one call", sum.cycle_starts));
        }
    }

    // -------------------------------------------------------------------------------------
    // C09 (pacing profile only)

    /// Credited work of the running cycle, read from the raw counters (hook), against the number of
    /// objects that existed in it (`total + released in this cycle`, also from the counters): every
    /// object is marked, traced (net of barrier re-queues), kept, destructed and released at most once
    /// per cycle, so no counter exceeds that number and the credits never exceed rho x it.  This is
    /// the premise the completion bound is derived from: a path that credits an object twice admits a
    /// workload (every object on that path) for which the bound fails.
    fn c09_credit_check(&mut self, ai: usize, what: &str) {
        let Some(m) = self.metrics[ai].as_ref() else { return };
        let pacing = pacing_preset(self.model.arenas[ai].preset);
        let k = m.verif_counters();
        let debt_now = m.allocation_debt();
        let n = (k.total_gcs + k.freed_gcs) as f64;
        self.cov.c09_credit_checks += 1;
        for (name, v) in [("marked", k.marked_gcs), ("traced", k.traced_gcs), ("kept", k.remembered_gcs), ("destructed", k.dropped_gcs), ("released", k.freed_gcs), ("kept or released", k.remembered_gcs + k.freed_gcs)] {
            if v as f64 > n {
                self.violate("C09", "over-credited", format!("{what}: the running cycle has credited {v} objects as {name}, but only {n} objects have existed in it ({} now, {} released)", k.total_gcs, k.freed_gcs));
                return;
            }
        }
        if self.bk[ai].pacing_changed_in_cycle {
            return;
        }
        let credits = k.marked_gcs as f64 * pacing.mark_factor
            + k.traced_gcs as f64 * pacing.trace_factor
            + k.remembered_gcs as f64 * pacing.keep_factor
            + k.dropped_gcs as f64 * pacing.drop_factor
            + k.freed_gcs as f64 * pacing.free_factor;
        self.bk[ai].c09.credits = credits;
        // the debt itself is the documented formula over these counters: allocations past the wake-up
        // amount plus carried / artificial debt, minus one documented factor per unit of each kind of
        // work (the completion bound is derived from exactly these per-path sums)
        let debits = k.allocated_gcs as f64 - k.wakeup_amount + k.artificial_debt;
        let expect = if k.total_gcs == 0 || debits <= 0.0 { 0.0 } else { (debits - credits).max(0.0) };
        if (debt_now - expect).abs() > 1e-9 * (1.0 + debits.abs() + credits.abs()) {
            self.violate(
                "C09",
                "debt-formula",
                format!("{what}: allocation_debt() = {debt_now}, but {} allocations past a wake-up amount of {} with {} carried debt, less the documented credits (marked {} x {}, traced {} x {}, kept {} x {}, destructed {} x {}, released {} x {}) give {expect}", k.allocated_gcs, k.wakeup_amount, k.artificial_debt, k.marked_gcs, pacing.mark_factor, k.traced_gcs, pacing.trace_factor, k.remembered_gcs, pacing.keep_factor, k.dropped_gcs, pacing.drop_factor, k.freed_gcs, pacing.free_factor),
            );
            return;
        }
        let r = rho(&pacing);
        if r < 1.0 && credits > r * n + 1e-6 * (1.0 + n) {
            self.violate(
                "C09",
                "over-credited",
                format!("{what}: the running cycle has been credited {credits} units of work (marked {}, traced {}, kept {}, destructed {}, released {}) for {n} objects; with every per-object path summing to at most rho = {r} it can be at most {}", k.marked_gcs, k.traced_gcs, k.remembered_gcs, k.dropped_gcs, k.freed_gcs, r * n),
            );
        }
    }

    #[allow(clippy::too_many_arguments)]
    fn c09_after_call(&mut self, ai: usize, api: Api, ph0: u8, ph1: u8, debt0: f64, debt1: f64, count0: usize, count1: usize, sum: &EvSummary, what: &str) {
        let pacing = pacing_preset(self.model.arenas[ai].preset);
        let allocs = self.bk[ai].allocs;
        // --- sleep clause: check the call against the claim before updating anything
        if let Some((at_end, w, _surv)) = self.bk[ai].c09.sleep {
            if ph0 == 0 {
                let since = (allocs - at_end) as f64;
                if api.debt_driven() {
                    self.cov.c09_sleep_checks += 1;
                    if since <= w {
                        if debt0 != 0.0 {
                            self.violate("C09", "sleep-debt-early", format!("{what}: {since} allocations since the cycle ended <= wake-up amount {w}, but debt reads {debt0}"));
                        }
                        if ph1 != 0 || sum.traces + sum.drops + sum.frees > 0 {
                            self.violate("C09", "sleep-not-honoured", format!("{what}: {since} allocations since the cycle ended <= wake-up amount {w}, but the collector made progress (phase {ph1})"));
                        }
                    } else {
                        self.cov.c09_sleep_crossed += 1;
                        if debt0 <= 0.0 {
                            self.violate("C09", "sleep-debt-late", format!("{what}: {since} allocations since the cycle ended > wake-up amount {w}, but debt reads {debt0}"));
                        }
                    }
                }
            }
        }
        // --- cycle tracking
        let woke_here = ph0 == 0 && sum.cycle_starts >= 1;
        if woke_here {
            self.bk[ai].c09.sleep = None;
        }
        if ph0 == 0 && sum.cycle_starts == 0 && ph1 == 0 {
            // nothing happened; sleep claim (if any) stays
            return;
        }
        if woke_here {
            self.bk[ai].pacing_changed_in_cycle = false;
        }
        let c = &mut self.bk[ai].c09;
        if woke_here {
            c.tracked = api.debt_driven() && debt0 > 0.0 && sum.cycle_starts == 1;
            c.tainted = false;
            c.h = count0 as f64;
            c.allocs_at_wake = allocs;
            c.calls_in_cycle = 0;
            c.allocs_while_sweeping = 0;
            c.credits = 0.0;
            if c.tracked {
                self.cov.c09_tracked_cycles += 1;
            }
        } else if api == Api::CollectDebt && (sum.traces + sum.drops + sum.frees > 0) {
            c.tainted = true;
        }
        let c = &mut self.bk[ai].c09;
        c.calls_in_cycle += 1;
        if sum.cycle_starts > 1 || (sum.cycle_starts == 1 && !woke_here) {
            // crossed a cycle boundary inside the call
            c.tracked = false;
            c.tainted = true;
        }
        let tracked = c.tracked && !c.tainted && !self.bk[ai].pacing_changed_in_cycle;
        if ph1 != 0 {
            self.c09_credit_check(ai, what);
        }
        if ph1 != 0 {
            if api == Api::CycleDebt && tracked {
                let r = rho(&pacing);
                let a = (allocs - self.bk[ai].c09.allocs_at_wake) as f64;
                let h = self.bk[ai].c09.h;
                self.cov.c09_bound_checks += 1;
                if r < 1.0 {
                    let bound = r * h / (1.0 - r) + 1e-6;
                    if !(a < bound) {
                        self.violate("C09", "completion-bound", format!("{what}: cycle woke with H = {h}, rho = {r}; still unfinished after cycle_debt although {a} >= rho*H/(1-rho) = {bound} allocations were made since"));
                    }
                }
            }
        } else {
            // the cycle finished in this call
            let c = self.bk[ai].c09.clone();
            if c.calls_in_cycle >= 3 && c.tracked && !c.tainted {
                self.cov.c09_multi_call_cycles += 1;
            }
            let atomic = ph0 == 0 && sum.cycle_starts == 1;
            let no_carry = atomic || (debt0 == 0.0 && !c.tainted && sum.cycle_starts == 0);
            if no_carry && !self.bk[ai].c09.negative_adjust {
                let sweeping_allocs = if atomic { 0 } else { c.allocs_while_sweeping };
                let survivors = (count1 as u64).saturating_sub(sweeping_allocs) as f64;
                let w = (survivors * pacing.sleep_factor).max(pacing.min_sleep as f64);
                self.bk[ai].c09.sleep = Some((allocs, w, survivors));
                if debt1 != 0.0 {
                    self.violate("C09", "debt-after-clean-cycle", format!("{what}: cycle finished with no debt carried over but debt reads {debt1}"));
                }
            } else {
                self.bk[ai].c09.sleep = None;
            }
            let c = &mut self.bk[ai].c09;
            c.tracked = false;
            c.tainted = false;
            c.allocs_while_sweeping = 0;
        }
    }

    // -------------------------------------------------------------------------------------
    // callbacks

    fn callback_pre(&mut self, ai: usize, arena: &AnyArena) -> (u8, f64, usize, usize, Vec<(usize, u8, usize, u64)>) {
        let m = Exec::metrics_of(arena);
        let ph0 = phase_ix(phase_of(arena));
        let ev0 = obs::events_len();
        (ph0, m.allocation_debt(), m.total_gc_count(), ev0, self.snapshot_others(ai))
    }

    #[allow(clippy::too_many_arguments)]
    fn callback_post(&mut self, ai: usize, arena: &AnyArena, pre: (u8, f64, usize, usize, Vec<(usize, u8, usize, u64)>), what: &str, panicked: Option<String>, root_mutating: bool, finalize: bool) {
        let (ph0, debt0, count0, ev0, others) = pre;
        let st = std::mem::take(&mut self.cb);
        let m = Exec::metrics_of(arena).clone();
        let ph1 = phase_ix(phase_of(arena));
        let debt1 = m.allocation_debt();
        let count1 = m.total_gc_count();
        let pacing = pacing_preset(self.model.arenas[ai].preset);
        if let Some(msg) = &panicked {
            if msg != obs::CALLBACK_PANIC {
                if msg.contains("attempt to") {
                    // (also a C06 matter: "none of these calls panics")
                    self.violate("C10", "arithmetic-panic-in-callback", format!("{what}: {msg}"));
                } else {
                    self.violate("C06", "callback-op-panicked", format!("{what}: an operation inside the callback panicked: {msg}"));
                }
            } else {
                *self.cov.fault_cells.entry((1, ph0)).or_insert(0) += 1;
            }
        }
        // ---- C03: nothing is reclaimed while a callback runs
        let evs = obs::events_since(ev0);
        for ev in &evs {
            match ev {
                obs::Ev::Drop { id, class: 0, .. } => self.violate("C03", "drop-in-callback", format!("{what}: object {id} destructed while the callback was running")),
                obs::Ev::Free { block, .. } => {
                    if let Some(id) = self.model.by_block.get(block).copied() {
                        self.violate("C03", "free-in-callback", format!("{what}: object {id} released while the callback was running"));
                    }
                }
                _ => {}
            }
        }
        if ph0 != 0 && debt0 > 0.0 && st.temps > 0 {
            self.cov.callbacks_with_debt_active_temps += 1;
        }
        // apply the events to the model all the same (keeps later checks meaningful)
        let _ = self.process_events_bounded(ev0, ev0 + evs.len(), Some(ai as u8), None, what);
        self.check_others(&others, ai, what);
        // ---- C08: callbacks do not change the phase, except Marked -> Marking
        if !(ph1 == ph0 || (ph0 == 2 && ph1 == 1)) {
            self.violate("C08", "callback-changed-phase", format!("{what}: phase went from {ph0} to {ph1}"));
        }
        if finalize && st.resurrected_dead && ph1 != 1 {
            self.violate("C07", "resurrect-not-marking", format!("{what}: a dead object was resurrected but the arena reports phase {ph1}"));
        }
        // ---- C10
        let unreleased = self.model.count_unreleased(ai as u8);
        if count1 != unreleased {
            self.violate("C10", "gc-count", format!("{what}: total_gc_count() = {count1}, allocations made and not yet released = {unreleased}"));
        }
        if count1 != count0 + st.allocs as usize {
            self.violate("C10", "gc-count-callback", format!("{what}: count went from {count0} to {count1} with {} allocations", st.allocs));
        }
        self.check_debt_sane(ai, debt1, count1, what);
        if !st.pacing_changed {
            let tol = 1e-9 * debt0.abs().max(debt1.abs()).max(st.neg_adjust.abs()).max(st.pos_adjust.abs()).max(1.0);
            // a forward barrier (or resurrect) marks its target, which is collection work that is
            // credited - but only while the collector is marking; in every other phase the calls
            // do nothing and no barrier may lower the debt
            let fwd_credit = if ph0 == 1 || ph0 == 2 { st.fwd_marks } else { 0 };
            let floor = debt0 + st.neg_adjust - pacing.mark_factor * fwd_credit as f64 - tol;
            if debt1 < floor && count0 > 0 {
                self.violate("C10", "debt-decreased-in-callback", format!("{what}: debt went from {debt0} to {debt1} (explicit negative adjustment {}, {} forward-barrier/resurrect calls at mark_factor {})", st.neg_adjust, st.fwd_marks, pacing.mark_factor));
            }
        }
        // ---- bookkeeping
        self.bk[ai].allocs += st.allocs as u64;
        if ph0 == 3 {
            self.bk[ai].c09.allocs_while_sweeping += st.allocs as u64;
        }
        if st.pacing_changed {
            self.bk[ai].pacing_changed_in_cycle = true;
        }
        if st.neg_adjust < 0.0 {
            self.bk[ai].c09.negative_adjust = true;
            self.bk[ai].c09.tainted = true;
            self.bk[ai].c09.sleep = None;
        }
        if st.pos_adjust > 0.0 {
            self.bk[ai].c09.sleep = None;
        }
        if ph0 != 0 && (st.mutated || !st.resurrected.is_empty() || root_mutating) {
            self.bk[ai].mutated_since_wake = true;
        }
        if (ph0 == 1 || ph0 == 2) && root_mutating {
            self.bk[ai].root_retrace_owed = true;
        }
        if finalize {
            for r in st.resurrected {
                if !self.bk[ai].resurrected.contains(&r) {
                    self.bk[ai].resurrected.push(r);
                }
            }
        }
        // C09 credit accounting: forward barriers / resurrect mark on the spot and are credited,
        // backward barriers on traced objects take their trace credit back
        if self.opts.c09 && ph0 != 0 && ph1 != 0 {
            self.c09_credit_check(ai, what);
        }
        // C09 sleep clause: debt must turn positive exactly when the allowance is exceeded
        if self.opts.c09 && ph1 == 0 {
            if let Some((at_end, w, _)) = self.bk[ai].c09.sleep {
                let since = (self.bk[ai].allocs - at_end) as f64;
                self.cov.c09_sleep_checks += 1;
                if since <= w && debt1 != 0.0 {
                    self.violate("C09", "sleep-debt-early", format!("{what}: {since} allocations since the cycle ended <= wake-up amount {w}, but debt reads {debt1}"));
                }
                if since > w && debt1 <= 0.0 {
                    self.violate("C09", "sleep-debt-late", format!("{what}: {since} allocations since the cycle ended > wake-up amount {w}, but debt reads {debt1}"));
                }
            }
        }
    }

    pub fn mutate_step(&mut self, ai: usize, via_root: bool, ops: &[MutOp], panic_at: Option<u8>) {
        let Some(mut arena) = self.arenas[ai].take() else { return };
        let pre = self.callback_pre(ai, &arena);
        let a8 = ai as u8;
        let what = format!("{}(arena {ai})", if via_root { "mutate_root" } else { "mutate" });
        obs::set_quiet_panics(true);
        let res = {
            let _c = CtxScope::enter(Ctx::Callback);
            let ex = &mut *self;
            catch_unwind(AssertUnwindSafe(|| match (&mut arena, via_root) {
                (AnyArena::A(x), false) => x.mutate(|mc, root| body(ex, mc, None, a8, RootMode::Ro(root, None), ops, panic_at)),
                (AnyArena::B(x), false) => x.mutate(|mc, root| body(ex, mc, None, a8, RootMode::Ro(&root.inner, Some(&root.extra)), ops, panic_at)),
                (AnyArena::A(x), true) => x.mutate_root(|mc, root| body(ex, mc, None, a8, RootMode::Rw(root, None), ops, panic_at)),
                (AnyArena::B(x), true) => x.mutate_root(|mc, root| {
                    let RootB { extra, inner } = root;
                    body(ex, mc, None, a8, RootMode::Rw(inner, Some(extra)), ops, panic_at)
                }),
            }))
        };
        obs::set_quiet_panics(false);
        let panicked = res.err().map(|p| obs::panic_message(&*p));
        self.callback_post(ai, &arena, pre, &what, panicked, via_root, false);
        self.arenas[ai] = Some(arena);
    }

    pub fn finalize_step(&mut self, ai: usize, forced: bool, ops: &[MutOp], panic_at: Option<u8>, then: Then) {
        // the marking call itself is an ordinary collection call
        let api = if forced { Api::FinishMarking } else { Api::MarkDebt };
        let (some, panicked) = self.collect_call(ai, api, "finalize:");
        if !some || panicked || self.fatal {
            return;
        }
        let Some(mut arena) = self.arenas[ai].take() else { return };
        let a8 = ai as u8;
        if !ops.is_empty() || then == Then::Nothing {
            self.cov.finalize_calls += 1;
            if self.bk[ai].mutated_since_wake {
                self.cov.finalize_after_mutation += 1;
            }
            let pre = self.callback_pre(ai, &arena);
            let what = format!("finalize(arena {ai})");
            obs::set_quiet_panics(true);
            let res = {
                let _c = CtxScope::enter(Ctx::Callback);
                let ex = &mut *self;
                catch_unwind(AssertUnwindSafe(|| match &mut arena {
                    AnyArena::A(x) => {
                        // nothing happened since the call above: the same call must hand out a
                        // MarkedArena again
                        match if forced { x.finish_marking() } else { x.mark_debt() } {
                            Some(m) => {
                                m.finalize(|fc, root| body(ex, fc, Some(fc), a8, RootMode::Ro(root, None), ops, panic_at));
                                true
                            }
                            None => false,
                        }
                    }
                    AnyArena::B(x) => match if forced { x.finish_marking() } else { x.mark_debt() } {
                        Some(m) => {
                            m.finalize(|fc, root| body(ex, fc, Some(fc), a8, RootMode::Ro(&root.inner, Some(&root.extra)), ops, panic_at));
                            true
                        }
                        None => false,
                    },
                }))
            };
            obs::set_quiet_panics(false);
            let (got, panicked) = match res {
                Ok(g) => (g, None),
                Err(p) => (true, Some(obs::panic_message(&*p))),
            };
            if !got {
                self.violate("C08", "marked-arena-missing", format!("{what}: the marking call returned a MarkedArena, the identical call repeated at once did not"));
            }
            self.callback_post(ai, &arena, pre, &what, panicked, false, true);
        }
        self.arenas[ai] = Some(arena);
        if self.fatal {
            return;
        }
        if then == Then::StartSweeping {
            // re-mark whatever finalize revived, then start the sweep
            let (some, panicked) = self.collect_call(ai, Api::FinishMarking, "before start_sweeping:");
            if some && !panicked {
                self.start_sweeping(ai);
            }
        }
    }

    fn start_sweeping(&mut self, ai: usize) {
        let Some(mut arena) = self.arenas[ai].take() else { return };
        let a8 = ai as u8;
        let reach = self.model.closure(a8);
        let m = Exec::metrics_of(&arena).clone();
        let count0 = m.total_gc_count();
        let ph0 = phase_ix(phase_of(&arena));
        if ph0 == 1 || ph0 == 2 {
            let roots = self.bk[ai].resurrected.clone();
            if !roots.is_empty() {
                let mut seen = vec![false; self.model.objs.len()];
                self.model.closure_from(&mut seen, roots);
                self.bk[ai].protected = (0..seen.len() as u32).filter(|i| seen[*i as usize]).collect();
            }
        }
        let others = self.snapshot_others(ai);
        let ev0 = obs::events_len();
        obs::set_quiet_panics(true);
        let res = {
            let _c = CtxScope::enter(Ctx::Collect);
            catch_unwind(AssertUnwindSafe(|| match &mut arena {
                AnyArena::A(x) => x.finish_marking().map(|m| m.start_sweeping()).is_some(),
                AnyArena::B(x) => x.finish_marking().map(|m| m.start_sweeping()).is_some(),
            }))
        };
        obs::set_quiet_panics(false);
        let what = format!("start_sweeping(arena {ai})");
        let ph1 = phase_ix(phase_of(&arena));
        let sum = self.process_events_cycle(ev0, ai, Some(&reach), &what, ph0, res.is_err());
        self.arenas[ai] = Some(arena);
        self.check_others(&others, ai, &what);
        match res {
            Ok(true) => {
                if ph1 != 3 {
                    self.violate("C08", "start-sweeping-phase", format!("{what}: ended in phase {ph1}"));
                }
                if sum.drops + sum.frees > 0 || m.total_gc_count() != count0 {
                    self.violate("C08", "start-sweeping-swept", format!("{what}: reclaimed objects although it should stop at the very beginning of the sweep"));
                }
            }
            Ok(false) => {}
            Err(p) => {
                let msg = obs::panic_message(&*p);
                if msg == obs::TRACE_PANIC {
                    self.fault_injected = true;
                    self.cov.faults_trace += 1;
                } else {
                    self.violate("C08", "start-sweeping-panicked", format!("{what}: {msg}"));
                }
            }
        }
    }

    pub fn work_step(&mut self, ai: usize, api: Api, units: u8) {
        let api = match api {
            Api::FinishMarking => Api::MarkDebt,
            Api::FinishCycle => Api::CycleDebt,
            a => a,
        };
        for _ in 0..(units % 8).max(1) {
            let Some(arena) = self.arenas[ai].as_ref() else { return };
            let m = Exec::metrics_of(arena).clone();
            if m.total_gc_count() == 0 {
                self.cov.ops_skipped += 1;
                return;
            }
            m.adjust_debt(1e9);
            let d = m.allocation_debt();
            m.adjust_debt(EPS_DEBT - d);
            self.bk[ai].c09.negative_adjust = true;
            self.bk[ai].c09.tainted = true;
            self.bk[ai].c09.sleep = None;
            self.cov.work_units += 1;
            let (_, panicked) = self.collect_call(ai, api, "work:");
            if panicked || self.fatal {
                return;
            }
        }
    }

    pub fn adjust_debt_step(&mut self, ai: usize, x: f64) {
        let Some(arena) = self.arenas[ai].as_ref() else { return };
        if self.opts.c09 && x < 0.0 {
            self.cov.ops_skipped += 1;
            return;
        }
        let m = Exec::metrics_of(arena).clone();
        let d0 = m.allocation_debt();
        m.adjust_debt(x);
        let d1 = m.allocation_debt();
        let count = m.total_gc_count();
        let what = format!("adjust_debt({x}) on arena {ai}");
        self.check_debt_sane(ai, d1, count, &what);
        if d0 > 0.0 && d1 > 0.0 {
            let tol = 1e-9 * d0.abs().max(d1.abs()).max(x.abs()).max(1.0);
            if ((d1 - d0) - x).abs() > tol {
                self.violate("C10", "adjust-debt-inexact", format!("{what}: debt went from {d0} to {d1}"));
            }
        }
        if x < 0.0 {
            self.bk[ai].c09.negative_adjust = true;
            self.bk[ai].c09.tainted = true;
        }
        self.bk[ai].c09.sleep = None;
    }

    pub fn set_pacing_step(&mut self, ai: usize, preset: u8) {
        let Some(arena) = self.arenas[ai].as_ref() else { return };
        Exec::metrics_of(arena).set_pacing(pacing_preset(preset));
        self.model.arenas[ai].preset = preset;
        self.bk[ai].pacing_changed_in_cycle = true;
    }

    // -------------------------------------------------------------------------------------
    // arena lifecycle

    pub fn new_arena_step(&mut self, preset: u8, fallible: bool, outcome: Outcome, ops: &[MutOp]) {
        if self.arenas.iter().filter(|a| a.is_some()).count() >= MAX_ARENAS || self.arenas.len() >= 6 {
            self.cov.ops_skipped += 1;
            return;
        }
        let ai = self.arenas.len();
        let a8 = ai as u8;
        obs::untracked(|| {
            self.arenas.push(None);
            self.metrics.push(None);
            self.bk.push(ArenaBk::default());
            self.model.arenas.push(MArena {
                alive: true,
                root_b: false,
                root_s: vec![None; ROOT_STRONG],
                root_w: vec![None; ROOT_WEAK],
                preset,
                allocs_total: 0,
            });
        });
        self.arenas_created += 1;
        let others = self.snapshot_others(ai);
        let ev0 = obs::events_len();
        let outcome = if !fallible && outcome == Outcome::Err { Outcome::Ok } else { outcome };
        obs::set_quiet_panics(true);
        let res = {
            let _c = CtxScope::enter(Ctx::Callback);
            let ex = &mut *self;
            catch_unwind(AssertUnwindSafe(|| {
                if fallible {
                    ArenaA::try_new(|mc| {
                        mc.metrics().set_pacing(pacing_preset(preset));
                        let mut root = RootA::empty(a8);
                        body(ex, mc, None, a8, RootMode::Rw(&mut root, None), ops, if outcome == Outcome::Panic { Some(u8::MAX) } else { None });
                        if outcome == Outcome::Err {
                            obs::set_ctx(Ctx::FailedCtor);
                            Err(())
                        } else {
                            Ok(root)
                        }
                    })
                } else {
                    Ok(ArenaA::new(|mc| {
                        mc.metrics().set_pacing(pacing_preset(preset));
                        let mut root = RootA::empty(a8);
                        body(ex, mc, None, a8, RootMode::Rw(&mut root, None), ops, if outcome == Outcome::Panic { Some(u8::MAX) } else { None });
                        root
                    }))
                }
            }))
        };
        obs::set_quiet_panics(false);
        obs::set_ctx(Ctx::Outside);
        let st = std::mem::take(&mut self.cb);
        self.bk[ai].allocs += st.allocs as u64;
        let what = format!("Arena::{}(arena {ai}) outcome {outcome:?}", if fallible { "try_new" } else { "new" });
        match res {
            Ok(Ok(arena)) => {
                let evs = obs::events_since(ev0);
                for ev in &evs {
                    if matches!(ev, obs::Ev::Drop { class: 0, .. } | obs::Ev::Free { watched: true, .. }) {
                        self.violate("C03", "reclaim-in-constructor", format!("{what}: {ev:?} while the constructor callback was running"));
                    }
                }
                let m = arena.metrics().clone();
                self.metrics[ai] = Some(m.clone());
                let c = m.total_gc_count();
                if c != self.model.count_unreleased(a8) {
                    self.violate("C10", "gc-count", format!("{what}: total_gc_count() = {c}, allocations = {}", self.model.count_unreleased(a8)));
                }
                self.arenas[ai] = Some(AnyArena::A(arena));
            }
            other => {
                // failed constructor: everything allocated must have been released again
                if let Err(p) = &other {
                    let msg = obs::panic_message(&**p);
                    if msg != obs::CALLBACK_PANIC {
                        self.violate("C11", "constructor-panicked", format!("{what}: unexpected panic {msg}"));
                    }
                }
                self.fault_injected = true;
                self.cov.faults_ctor += 1;
                *self.cov.fault_cells.entry((2, 0)).or_insert(0) += 1;
                // the unwinding / error path dropped the context: treat as arena drop
                self.retag_failed_ctor_events(ev0);
                self.bk[ai].protected.clear();
            self.bk[ai].resurrected.clear();
                let _ = self.process_events_bounded(ev0, obs::events_len(), Some(a8), None, &what);
                self.model.arenas[ai].alive = false;
                self.after_arena_gone(ai, &what, "C11");
            }
        }
        self.check_others(&others, ai, &what);
    }

    /// Events produced while a failed constructor unwinds carry the Callback tag (the harness
    /// cannot switch the tag in the middle of an unwind); they are legitimate teardown.
    fn retag_failed_ctor_events(&mut self, _ev0: usize) {}

    /// Values whose destructor was made to unwind (`fault_exempt`) may keep their block and stay
    /// counted; everything else must be gone.
    fn after_arena_gone(&mut self, ai: usize, what: &str, prop: &'static str) {
        let a8 = ai as u8;
        let objs: Vec<MObj> = self.model.objs.iter().filter(|o| o.arena == a8).cloned().collect();
        let mut leaked = 0usize;
        for o in objs {
            if o.status != Status::Released {
                if o.fault_exempt && o.status == Status::Destructed {
                    leaked += 1;
                } else {
                    self.violate(prop_or(prop, "C04"), "not-released-at-drop", format!("{what}: object {} ({:?}) was not released (status {:?})", o.id, o.kind, o.status));
                }
            }
            if o.kind.has_tok() && o.drops != 1 {
                self.violate(prop_or(prop, "C04"), "drop-count", format!("{what}: object {} ({:?}) destructed {} times", o.id, o.kind, o.drops));
            }
            if o.frees > 1 {
                self.violate(prop_or(prop, "C04"), "double-free", format!("{what}: object {} released {} times", o.id, o.frees));
            }
        }
        self.leaked_by_fault += leaked;
        if let Some(m) = self.metrics[ai].as_ref() {
            let c = m.total_gc_count();
            if c != leaked {
                self.violate("C04", "count-after-drop", format!("{what}: total_gc_count() reads {c} after the arena is gone"));
            }
        }
        self.bk[ai] = ArenaBk::default();
    }

    pub fn drop_arena_step(&mut self, ai: usize) {
        let Some(arena) = self.arenas[ai].take() else { return };
        let ph0 = phase_ix(phase_of(&arena));
        self.cov.arena_drop_phase[ph0 as usize] += 1;
        if self.model.objs.iter().any(|o| o.arena == ai as u8 && o.status == Status::Destructed) {
            self.cov.arena_drop_with_shell += 1;
        }
        let others = self.snapshot_others(ai);
        let ev0 = obs::events_len();
        let unwinding = self.drop_unwinding;
        let fuse = if unwinding { None } else { self.pending_drop_fuse.take() };
        let what = match (fuse, unwinding) {
            (Some(k), _) => format!("drop(arena {ai}) in phase {ph0} with destructor panic #{k}"),
            (None, true) => format!("drop(arena {ai}) in phase {ph0} while unwinding from an unrelated panic"),
            (None, false) => format!("drop(arena {ai}) in phase {ph0}"),
        };
        obs::set_quiet_panics(true);
        if let Some(k) = fuse {
            obs::arm_drop_fuse(k);
        }
        let res = {
            let _c = CtxScope::enter(Ctx::ArenaDrop);
            if unwinding {
                self.cov.arena_drops_unwinding += 1;
                let r = catch_unwind(AssertUnwindSafe(move || {
                    let _owned = arena;
                    std::panic::panic_any(obs::CALLBACK_PANIC);
                }));
                match r {
                    Err(p) if obs::panic_message(&*p) == obs::CALLBACK_PANIC => Ok(()),
                    Err(p) => Err(p),
                    Ok(()) => Ok(()),
                }
            } else {
                catch_unwind(AssertUnwindSafe(move || drop(arena)))
            }
        };
        let fired = obs::disarm_drop_fuse();
        obs::set_quiet_panics(false);
        match (&res, fired) {
            (Err(p), Some(_)) if obs::panic_message(&**p) == obs::DROP_PANIC => self.cov.arena_drop_faults += 1,
            (Ok(()), Some(id)) => self.violate("C04", "drop-panic-swallowed", format!("{what}: the destructor of object {id} panicked but dropping the arena returned normally")),
            (Err(p), _) => self.violate("C04", "arena-drop-panicked", format!("{what}: {}", obs::panic_message(&**p))),
            (Ok(()), None) => {}
        }
        self.bk[ai].protected.clear();
        self.bk[ai].resurrected.clear();
        let _ = self.process_events_bounded(ev0, obs::events_len(), Some(ai as u8), None, &what);
        self.model.arenas[ai].alive = false;
        // the one value whose destructor unwound keeps its block (the teardown resumes behind it); every
        // other value is still destructed exactly once and released
        if let Some(id) = fired {
            obs::untracked(|| {
                if let Some(o) = self.model.objs.iter_mut().find(|o| o.id == id && o.arena == ai as u8) {
                    o.fault_exempt = true;
                }
            });
        }
        self.after_arena_gone(ai, &what, "C04");
        self.check_others(&others, ai, &what);
    }

    pub fn map_root_step(&mut self, ai: usize, fallible: bool, outcome: Outcome, ops: &[MutOp]) {
        let Some(arena) = self.arenas[ai].take() else { return };
        let a8 = ai as u8;
        let outcome = if !fallible && outcome == Outcome::Err { Outcome::Ok } else { outcome };
        let m = Exec::metrics_of(&arena).clone();
        let ph0 = phase_ix(phase_of(&arena));
        let debt0 = m.allocation_debt();
        let count0 = m.total_gc_count();
        let others = self.snapshot_others(ai);
        let ev0 = obs::events_len();
        let to_b = matches!(arena, AnyArena::A(_));
        let what = format!("{}(arena {ai}) to {} outcome {outcome:?}", if fallible { "try_map_root" } else { "map_root" }, if to_b { "RootB" } else { "RootA" });
        let panic_at = if outcome == Outcome::Panic { Some(u8::MAX) } else { None };
        // model: the root changes shape at callback entry
        obs::untracked(|| {
            let ma = &mut self.model.arenas[ai];
            if to_b {
                ma.root_s.push(None);
                ma.root_b = true;
            }
        });
        obs::set_quiet_panics(true);
        let res: Result<Result<AnyArena, ()>, _> = {
            let _c = CtxScope::enter(Ctx::Callback);
            let ex = &mut *self;
            catch_unwind(AssertUnwindSafe(|| match arena {
                AnyArena::A(x) => {
                    if fallible {
                        x.try_map_root::<gc_arena::Rootable![RootB<'_>], ()>(|mc, root| {
                            let mut nb = RootB { extra: None, inner: root };
                            {
                                let RootB { extra, inner } = &mut nb;
                                body(ex, mc, None, a8, RootMode::Rw(inner, Some(extra)), ops, panic_at);
                            }
                            if outcome == Outcome::Err {
                                obs::set_ctx(Ctx::FailedCtor);
                                Err(())
                            } else {
                                Ok(nb)
                            }
                        })
                        .map(AnyArena::B)
                    } else {
                        Ok(AnyArena::B(x.map_root::<gc_arena::Rootable![RootB<'_>]>(|mc, root| {
                            let mut nb = RootB { extra: None, inner: root };
                            {
                                let RootB { extra, inner } = &mut nb;
                                body(ex, mc, None, a8, RootMode::Rw(inner, Some(extra)), ops, panic_at);
                            }
                            nb
                        })))
                    }
                }
                AnyArena::B(x) => {
                    if fallible {
                        x.try_map_root::<gc_arena::Rootable![RootA<'_>], ()>(|mc, root| {
                            let mut nb = root;
                            {
                                let RootB { extra, inner } = &mut nb;
                                body(ex, mc, None, a8, RootMode::Rw(inner, Some(extra)), ops, panic_at);
                            }
                            if outcome == Outcome::Err {
                                obs::set_ctx(Ctx::FailedCtor);
                                Err(())
                            } else {
                                Ok(nb.inner)
                            }
                        })
                        .map(AnyArena::A)
                    } else {
                        Ok(AnyArena::A(x.map_root::<gc_arena::Rootable![RootA<'_>]>(|mc, root| {
                            let mut nb = root;
                            {
                                let RootB { extra, inner } = &mut nb;
                                body(ex, mc, None, a8, RootMode::Rw(inner, Some(extra)), ops, panic_at);
                            }
                            nb.inner
                        })))
                    }
                }
            }))
        };
        obs::set_quiet_panics(false);
        obs::set_ctx(Ctx::Outside);
        let st = std::mem::take(&mut self.cb);
        self.bk[ai].allocs += st.allocs as u64;
        match res {
            Ok(Ok(newa)) => {
                obs::untracked(|| {
                    let ma = &mut self.model.arenas[ai];
                    if !to_b {
                        // B -> A: the extra slot is gone
                        ma.root_s.truncate(ROOT_STRONG);
                        ma.root_b = false;
                    }
                });
                // treat like a root-mutating callback for the per-callback oracles
                let evs = obs::events_since(ev0);
                for ev in &evs {
                    if matches!(ev, obs::Ev::Drop { class: 0, .. } | obs::Ev::Free { watched: true, .. }) {
                        self.violate("C03", "reclaim-in-map-root", format!("{what}: {ev:?} while the callback was running"));
                    }
                }
                let _ = self.process_events_bounded(ev0, ev0 + evs.len(), Some(a8), None, &what);
                let ph1 = phase_ix(phase_of(&newa));
                if !(ph1 == ph0 || (ph0 == 2 && ph1 == 1)) {
                    self.violate("C08", "callback-changed-phase", format!("{what}: phase went from {ph0} to {ph1}"));
                }
                let m2 = Exec::metrics_of(&newa).clone();
                let count1 = m2.total_gc_count();
                if count1 != count0 + st.allocs as usize || count1 != self.model.count_unreleased(a8) {
                    self.violate("C10", "gc-count-callback", format!("{what}: count went from {count0} to {count1} with {} allocations", st.allocs));
                }
                let debt1 = m2.allocation_debt();
                self.check_debt_sane(ai, debt1, count1, &what);
                if !st.pacing_changed {
                    let pacing = pacing_preset(self.model.arenas[ai].preset);
                    let tol = 1e-9 * debt0.abs().max(debt1.abs()).max(st.neg_adjust.abs()).max(1.0);
                    let fwd_credit = if ph0 == 1 || ph0 == 2 { st.fwd_marks } else { 0 };
                    if debt1 < debt0 + st.neg_adjust - pacing.mark_factor * fwd_credit as f64 - tol && count0 > 0 {
                        self.violate("C10", "debt-decreased-in-callback", format!("{what}: debt went from {debt0} to {debt1}"));
                    }
                }
                if ph0 == 3 {
                    self.bk[ai].c09.allocs_while_sweeping += st.allocs as u64;
                }
                if ph0 != 0 {
                    self.bk[ai].mutated_since_wake = true;
                }
                if ph0 == 1 || ph0 == 2 {
                    self.bk[ai].root_retrace_owed = true;
                }
                if st.neg_adjust < 0.0 || st.pos_adjust > 0.0 || st.pacing_changed {
                    self.bk[ai].c09.tainted = true;
                    self.bk[ai].c09.sleep = None;
                    self.bk[ai].pacing_changed_in_cycle |= st.pacing_changed;
                }
                self.metrics[ai] = Some(m2);
                self.arenas[ai] = Some(newa);
                // map_root is adoption path 43/44 for whatever the new root holds
                self.cov.adoptions += 1;
                if ph0 != 0 {
                    self.cov.adopt_active[ph0 as usize] += 1;
                    self.cov.pending_active_adopt = true;
                    self.active_adoptions += 1;
                }
                *self.cov.cells.entry((if fallible { 44 } else { 43 }, ph0, 6, 6)).or_insert(0) += 1;
            }
            other => {
                if let Err(p) = &other {
                    let msg = obs::panic_message(&**p);
                    if msg != obs::CALLBACK_PANIC {
                        self.violate("C11", "map-root-panicked", format!("{what}: unexpected panic {msg}"));
                    }
                }
                self.fault_injected = true;
                self.cov.faults_ctor += 1;
                *self.cov.fault_cells.entry((3, ph0)).or_insert(0) += 1;
                self.bk[ai].protected.clear();
            self.bk[ai].resurrected.clear();
                let _ = self.process_events_bounded(ev0, obs::events_len(), Some(a8), None, &what);
                self.model.arenas[ai].alive = false;
                self.after_arena_gone(ai, &what, "C11");
            }
        }
        self.check_others(&others, ai, &what);
    }

    // -------------------------------------------------------------------------------------
    // settle (C02)

    pub fn settle_step(&mut self, ai: usize) {
        if self.arenas[ai].is_none() {
            return;
        }
        obs::arm_trace_fuse(0);
        let a8 = ai as u8;
        // classification of the garbage before it disappears
        let reach0 = self.model.closure(a8);
        let mut nontrivial = false;
        for o in &self.model.objs {
            if o.arena == a8 && !reach0[o.id as usize] && o.status == Status::Live {
                if o.born_phase != 0 {
                    nontrivial = true;
                }
                // member of a garbage cycle?
                let mut seen = vec![false; self.model.objs.len()];
                let mut succ = Vec::new();
                self.model.succ(o.id, &mut succ);
                self.model.closure_from(&mut seen, succ);
                if seen[o.id as usize] {
                    nontrivial = true;
                    self.cov.garbage_cycle_at_settle += 1;
                }
            }
        }
        let ph0 = self.arenas[ai].as_ref().map(|a| phase_ix(phase_of(a))).unwrap_or(0);
        if ph0 != 0 {
            nontrivial = true;
        }
        let (_, p1) = self.collect_call(ai, Api::FinishCycle, "settle 1:");
        if p1 || self.fatal {
            return;
        }
        let (_, p2) = self.collect_call(ai, Api::FinishCycle, "settle 2:");
        if p2 || self.fatal {
            return;
        }
        self.cov.settles += 1;
        let reach = self.model.closure(a8);
        let weak = self.model.weakly_held(a8, &reach);
        if weak.iter().any(|w| *w) {
            nontrivial = true;
        }
        if nontrivial {
            self.cov.settle_nontrivial += 1;
        }
        let mut expect = 0usize;
        let objs: Vec<MObj> = self.model.objs.iter().filter(|o| o.arena == a8).cloned().collect();
        for o in objs {
            let id = o.id as usize;
            if reach[id] {
                expect += 1;
                if o.status != Status::Live {
                    self.violate("C01", "reachable-gone-after-settle", format!("settle(arena {ai}): reachable object {} has status {:?}", o.id, o.status));
                }
            } else if weak[id] {
                expect += 1;
                match o.status {
                    Status::Released => self.violate("C05", "shell-released-while-referenced", format!("settle(arena {ai}): object {} is still referred to by a reachable weak pointer but its block was released", o.id)),
                    Status::Live if o.kind.has_tok() => self.violate("C02", "weak-only-not-destructed", format!("settle(arena {ai}): object {} is only weakly reachable but was not destructed", o.id)),
                    _ => {}
                }
            } else {
                match o.status {
                    Status::Released => {}
                    Status::Live => self.violate("C02", "unreachable-not-collected", format!("settle(arena {ai}): unreachable object {} ({:?}) was neither destructed nor released", o.id, o.kind)),
                    // a value whose destructor was made to unwind may stay allocated (and counted) for ever
                    Status::Destructed if o.fault_exempt => expect += 1,
                    Status::Destructed => self.violate("C02", "shell-not-released", format!("settle(arena {ai}): shell of object {} is referred to by no reachable weak pointer but was not released", o.id)),
                }
            }
        }
        if let Some(a) = self.arenas[ai].as_ref() {
            let c = Exec::metrics_of(a).total_gc_count();
            if c != expect {
                self.violate("C02", "count-after-settle", format!("settle(arena {ai}): total_gc_count() = {c}, reachable + weakly referenced shells = {expect}"));
            }
        }
    }

    // -------------------------------------------------------------------------------------

    /// C08 on arenas whose root type needs no tracing. Independent of the modelled arenas.
    pub fn plain_root_step(&mut self, root: u8, variant: u8) {
        use gc_arena::{Arena, Gc, Rootable, Static};
        #[derive(gc_arena::Collect)]
        #[collect(no_drop)]
        struct Plain {
            counter: u32,
            name: String,
        }
        fn walk<R>(ex: &mut Exec, what: &str, variant: u8, rooted: usize, mut arena: Arena<R>)
        where
            R: for<'a> Rootable<'a>,
            for<'a> gc_arena::arena::Root<'a, R>: Sized + gc_arena::Collect<'a>,
        {
            let v = |ex: &mut Exec, tag: &'static str, msg: String| ex.violate("C08", tag, format!("arena with a root of type {what}: {msg}"));
            arena.mutate(|mc, _| {
                for i in 0..3u8 {
                    let _ = Gc::new(mc, i);
                }
            });
            if arena.collection_phase() != CollectionPhase::Sleeping {
                v(ex, "plain-root-protocol", format!("fresh arena reports {:?}", arena.collection_phase()));
            }
            if variant % 3 == 1 {
                // debt-driven marking: mark_debt with debt must stop at Marked and hand out the arena
                arena.metrics().adjust_debt(1e9);
                let some = arena.mark_debt().is_some();
                if !some || arena.collection_phase() != CollectionPhase::Marked {
                    v(ex, "plain-root-protocol", format!("mark_debt with positive debt from Sleeping returned is_some = {some}, phase {:?}", arena.collection_phase()));
                }
                arena.metrics().adjust_debt(-1e9);
            }
            let some = arena.finish_marking().is_some();
            if !some {
                v(ex, "finish-marking-return", format!("finish_marking returned None although the arena was not Sweeping (phase now {:?})", arena.collection_phase()));
            }
            if arena.collection_phase() != CollectionPhase::Marked {
                v(ex, "plain-root-protocol", format!("after finish_marking the arena reports {:?}", arena.collection_phase()));
            }
            if variant % 3 == 2 {
                // a root barrier while Marked: Marking until marking is finished again
                arena.mutate_root(|_, _| {});
                let some = arena.finish_marking().is_some();
                if !some || arena.collection_phase() != CollectionPhase::Marked {
                    v(ex, "plain-root-protocol", format!("finish_marking after mutate_root returned is_some = {some}, phase {:?}", arena.collection_phase()));
                }
            }
            match arena.mark_debt() {
                Some(m) => m.start_sweeping(),
                None => v(ex, "mark-debt-return", "mark_debt returned None although the arena is Marked".into()),
            }
            if arena.collection_phase() != CollectionPhase::Sweeping && arena.metrics().total_gc_count() != 0 {
                v(ex, "plain-root-protocol", format!("after start_sweeping the arena reports {:?}", arena.collection_phase()));
            }
            arena.finish_cycle();
            if arena.collection_phase() != CollectionPhase::Sleeping || arena.metrics().total_gc_count() != rooted {
                v(ex, "plain-root-protocol", format!("after finish_cycle: phase {:?}, {} allocations left ({rooted} rooted, 3 unreachable ones were made)", arena.collection_phase(), arena.metrics().total_gc_count()));
            }
        }
        self.cov.plain_root_walks += 1;
        obs::untracked(|| match root % 5 {
            0 => walk(self, "()", variant, 0, Arena::<Rootable![()]>::new(|_| ())),
            1 => walk(self, "u32", variant, 0, Arena::<Rootable![u32]>::new(|_| 7)),
            2 => walk(self, "Static<Vec<u8>>", variant, 0, Arena::<Rootable![Static<Vec<u8>>]>::new(|_| Static(vec![1, 2]))),
            3 => walk(self, "a derived struct without Gc fields", variant, 0, Arena::<Rootable![Plain]>::new(|_| Plain { counter: 1, name: "x".into() })),
            _ => walk(self, "Gc<'_, u8> (control: a tracing root)", variant, 1, Arena::<Rootable![Gc<'_, u8>]>::new(|mc| Gc::new(mc, 1))),
        });
    }

    /// `rootless_mutate`: the temporary arena must destruct everything the callback allocated,
    /// whether the callback returns or panics (C04 / C11); runs on its own arena, off the shadow model.
    pub fn rootless_step(&mut self, n: u8, cyclic: bool, panics: bool) {
        use gc_arena::{Gc, RefLock, Static};
        use std::rc::Rc;
        #[derive(gc_arena::Collect)]
        #[collect(no_drop)]
        struct Node<'gc> {
            token: Static<Rc<()>>,
            next: RefLock<Option<Gc<'gc, Node<'gc>>>>,
        }
        let n = n as usize % 6 + 1;
        let token = Rc::new(());
        let seen = std::cell::Cell::new(0usize);
        let prev_quiet = obs::set_quiet_panics(true);
        let r = obs::untracked(|| {
            std::panic::catch_unwind(std::panic::AssertUnwindSafe(|| {
                gc_arena::arena::rootless_mutate(|mc| {
                    let mut nodes: Vec<Gc<'_, Node<'_>>> = Vec::new();
                    for _ in 0..n {
                        let node = Gc::new(mc, Node { token: Static(token.clone()), next: RefLock::new(None) });
                        if let Some(prev) = nodes.last() {
                            *gc_arena::barrier::unlock!(Gc::write(mc, node), Node, next).borrow_mut() = Some(*prev);
                        }
                        nodes.push(node);
                    }
                    if cyclic {
                        *gc_arena::barrier::unlock!(Gc::write(mc, nodes[0]), Node, next).borrow_mut() = Some(*nodes.last().unwrap());
                    }
                    let _plain = Gc::new(mc, Static(token.clone()));
                    seen.set(Rc::strong_count(&token));
                    if panics {
                        std::panic::panic_any(obs::CALLBACK_PANIC);
                    }
                })
            }))
        });
        obs::set_quiet_panics(prev_quiet);
        self.cov.rootless_calls += 1;
        if panics {
            self.cov.rootless_panics += 1;
        }
        let prop: &'static str = if panics { "C11" } else { "C04" };
        if seen.get() != n + 2 {
            self.violate(prop, "rootless-premature-destruct", format!("rootless_mutate: {} of {} values allocated inside the callback were already destructed before it ended", (n + 2).saturating_sub(seen.get()), n + 1));
        }
        if r.is_err() != panics {
            self.violate(prop, "rootless-outcome", format!("rootless_mutate: callback panics = {panics}, call unwound = {}", r.is_err()));
        }
        let left = Rc::strong_count(&token) - 1;
        if left != 0 {
            self.violate(prop, "rootless-leak", format!("rootless_mutate (callback {}): {left} of {} values allocated inside the callback were never destructed", if panics { "panicked" } else { "returned" }, n + 1));
        }
    }

    pub fn handle_clone_step(&mut self, h: u8) {
        if self.handles.is_empty() {
            return;
        }
        let hi = h as usize % self.handles.len();
        let Some(hd) = self.handles[hi].as_ref() else { return };
        let ev0 = obs::events_len();
        let others = self.snapshot_others(usize::MAX);
        obs::set_quiet_panics(true);
        let r = catch_unwind(AssertUnwindSafe(|| hd.clone()));
        obs::set_quiet_panics(false);
        match r {
            Ok(c) => {
                let mh = self.model.handles[hi].clone();
                obs::untracked(|| {
                    self.handles.push(Some(c));
                    self.model.handles.push(mh);
                });
            }
            Err(p) => self.violate("C14", "handle-clone-panicked", format!("clone of handle {hi}: {}", obs::panic_message(&*p))),
        }
        self.handle_op_quiet(ev0, &others, "clone of a handle");
    }

    pub fn handle_clone_from_step(&mut self, dst: u8, src: u8) {
        if self.handles.is_empty() {
            return;
        }
        let n = self.handles.len();
        let (di, si) = (dst as usize % n, src as usize % n);
        if di == si {
            return;
        }
        let ok = matches!((&self.handles[di], &self.handles[si]), (Some(a), Some(b)) if a.same_variant(b));
        if !ok {
            return;
        }
        let ev0 = obs::events_len();
        let others = self.snapshot_others(usize::MAX);
        let mut d = self.handles[di].take().unwrap();
        let r = {
            let s = self.handles[si].as_ref().unwrap();
            obs::set_quiet_panics(true);
            let r = catch_unwind(AssertUnwindSafe(|| d.clone_from_handle(s)));
            obs::set_quiet_panics(false);
            r
        };
        self.handles[di] = Some(d);
        match r {
            Ok(_) => {
                // dst gave up its own registration and is now one more handle of src's slot
                let old_arena = self.model.handles[di].arena as usize;
                let mh = self.model.handles[si].clone();
                obs::untracked(|| self.model.handles[di] = mh);
                if old_arena < self.bk.len() {
                    self.bk[old_arena].mutated_since_wake = true;
                }
                self.cov.handle_clone_froms += 1;
            }
            Err(p) => self.violate("C14", "handle-clone-panicked", format!("clone_from of handle {si} into handle {di}: {}", obs::panic_message(&*p))),
        }
        self.handle_op_quiet(ev0, &others, "clone_from of a handle");
    }

    pub fn handle_drop_step(&mut self, h: u8) {
        if self.handles.is_empty() {
            return;
        }
        let hi = h as usize % self.handles.len();
        let Some(hd) = self.handles[hi].take() else { return };
        let ev0 = obs::events_len();
        let others = self.snapshot_others(usize::MAX);
        obs::set_quiet_panics(true);
        let unwinding = self.drop_unwinding;
        let r = if unwinding {
            // the handle is owned by a frame that unwinds from an unrelated panic
            match catch_unwind(AssertUnwindSafe(move || {
                let _owned = hd;
                std::panic::panic_any(obs::CALLBACK_PANIC);
            })) {
                Err(p) if obs::panic_message(&*p) == obs::CALLBACK_PANIC => Ok(()),
                other => other,
            }
        } else {
            catch_unwind(AssertUnwindSafe(move || drop(hd)))
        };
        obs::set_quiet_panics(false);
        if let Err(p) = r {
            self.violate("C14", "handle-drop-panicked", format!("drop of handle {hi}: {}", obs::panic_message(&*p)));
        }
        self.model.handles[hi].alive = false;
        // dropping a handle changes reachability without any barrier: for the exactness clause of
        // C07 it is a mutation of the issuing arena
        let ha = self.model.handles[hi].arena as usize;
        if ha < self.bk.len() {
            self.bk[ha].mutated_since_wake = true;
        }
        self.handle_op_quiet(ev0, &others, "drop of a handle");
    }

    fn handle_op_quiet(&mut self, ev0: usize, others: &[(usize, u8, usize, u64)], what: &str) {
        let evs = obs::events_since(ev0);
        if evs.iter().any(|e| matches!(e, obs::Ev::Drop { class: 0, .. } | obs::Ev::Free { watched: true, .. } | obs::Ev::Trace { .. })) {
            self.violate("C14", "handle-op-touched-arena", format!("{what} produced collector events {evs:?}"));
            let _ = self.process_events_bounded(ev0, ev0 + evs.len(), None, None, what);
        }
        let after = self.snapshot_others(usize::MAX);
        if others != after.as_slice() {
            self.violate("C14", "handle-op-changed-arena", format!("{what}: arena state changed from {others:?} to {after:?}"));
        }
    }

    // -------------------------------------------------------------------------------------

    pub fn step(&mut self, st: &Step) {
        self.cov.steps += 1;
        match st {
            Step::Mutate { arena, via_root, ops, panic_at } => {
                if let Some(ai) = self.arena_ix(*arena) {
                    let used_after = self.fault_injected;
                    self.mutate_step(ai, *via_root, ops, *panic_at);
                    if used_after {
                        self.cov.used_after_fault += 1;
                    }
                }
            }
            Step::Collect { arena, api } => {
                if let Some(ai) = self.arena_ix(*arena) {
                    if self.fault_injected {
                        self.cov.used_after_fault += 1;
                    }
                    self.collect_call(ai, *api, "");
                }
            }
            Step::Work { arena, api, units } => {
                if let Some(ai) = self.arena_ix(*arena) {
                    if self.opts.c09 {
                        self.cov.ops_skipped += 1;
                    } else {
                        self.work_step(ai, *api, *units);
                    }
                }
            }
            Step::Finalize { arena, forced, ops, panic_at, then } => {
                if let Some(ai) = self.arena_ix(*arena) {
                    self.finalize_step(ai, *forced, ops, *panic_at, *then);
                }
            }
            Step::AdjustDebt { arena, x } => {
                if let Some(ai) = self.arena_ix(*arena) {
                    self.adjust_debt_step(ai, *x);
                }
            }
            Step::SetPacing { arena, preset } => {
                if let Some(ai) = self.arena_ix(*arena) {
                    self.set_pacing_step(ai, *preset);
                }
            }
            Step::MapRoot { arena, fallible, outcome, ops } => {
                if let Some(ai) = self.arena_ix(*arena) {
                    self.map_root_step(ai, *fallible, *outcome, ops);
                }
            }
            Step::CloneHandle { h } => self.handle_clone_step(*h),
            Step::CloneFromHandle { dst, src } => self.handle_clone_from_step(*dst, *src),
            Step::DropHandle { h } => self.handle_drop_step(*h),
            Step::DropHandleUnwinding { h } => {
                self.drop_unwinding = true;
                self.handle_drop_step(*h);
                self.drop_unwinding = false;
            }
            Step::ArmTracePanic { k } => {
                if !self.opts.c09 {
                    obs::arm_trace_fuse(*k as u32 % 24 + 1);
                }
            }
            Step::ArmDropPanic { k } => {
                if !self.opts.c09 {
                    self.pending_drop_fuse = Some(*k as u32 % 24 + 1);
                }
            }
            Step::ArmSweepPanic { k } => {
                if !self.opts.c09 {
                    self.pending_sweep_fuse = Some(*k as u32 % 12 + 1);
                }
            }
            Step::DropArenaUnwinding { arena } => {
                if let Some(ai) = self.arena_ix(*arena) {
                    self.drop_unwinding = true;
                    self.drop_arena_step(ai);
                    self.drop_unwinding = false;
                }
            }
            Step::NewArena { preset, fallible, outcome, ops } => self.new_arena_step(*preset, *fallible, *outcome, ops),
            Step::DropArena { arena } => {
                if let Some(ai) = self.arena_ix(*arena) {
                    self.drop_arena_step(ai);
                }
            }
            Step::Settle { arena } => {
                if let Some(ai) = self.arena_ix(*arena) {
                    self.settle_step(ai);
                }
            }
            Step::PlainRootProtocol { root, variant } => self.plain_root_step(*root, *variant),
            Step::Rootless { n, cyclic, panics } => self.rootless_step(*n, *cyclic, *panics),
        }
    }

    pub fn run_case(&mut self, case: &Case) {
        // every history starts with one arena
        self.step_ix = 0;
        if !matches!(case.steps.first(), Some(Step::NewArena { .. })) {
            self.new_arena_step(0, false, Outcome::Ok, &[]);
        }
        for (i, st) in case.steps.iter().enumerate() {
            self.step_ix = i + 1;
            self.step(st);
            if self.fatal {
                break;
            }
        }
        self.step_ix = case.steps.len() + 1;
        obs::arm_trace_fuse(0);
        if self.fatal {
            // The heap under test may be corrupt: do not touch it again. Leak the arenas and
            // handles of this case (the quarantined Gc blocks are released by end_case).
            for a in self.arenas.drain(..) {
                std::mem::forget(a);
            }
            for h in self.handles.drain(..) {
                std::mem::forget(h);
            }
            return;
        }
        // teardown: arenas first, then the handles that outlived them
        for ai in 0..self.arenas.len() {
            if self.arenas[ai].is_some() {
                self.drop_arena_step(ai);
            }
        }
        for hi in 0..self.handles.len() {
            if self.handles[hi].is_some() {
                self.handle_drop_step(hi as u8);
            }
        }
        let outstanding = obs::watched_outstanding();
        // a value whose destructor unwound during arena teardown keeps its block
        if outstanding > self.leaked_by_fault && !self.fatal {
            self.violate("C04", "blocks-outstanding", format!("{outstanding} Gc blocks were never returned to the allocator"));
        }
        obs::untracked(|| self.metrics.clear());
    }
}

fn prop_or(p: &'static str, dflt: &'static str) -> &'static str {
    if p.is_empty() { dflt } else { p }
}

fn merge(into: &mut EvSummary, part: EvSummary) {
    into.traces += part.traces;
    into.root_traces += part.root_traces;
    into.drops += part.drops;
    into.frees += part.frees;
    into.other_drops += part.other_drops;
    into.other_frees += part.other_frees;
    into.pattern.extend(part.pattern);
    into.dropped_ids.extend(part.dropped_ids);
    into.freed_ids.extend(part.freed_ids);
}

/// The body shared by every callback kind.
pub fn body<'gc, 'r>(ex: &mut Exec, mc: &'gc Mutation<'gc>, fc: Option<&'gc Finalization<'gc>>, arena: u8, root: RootMode<'gc, 'r>, ops: &[MutOp], panic_at: Option<u8>) {
    let mut env = Env::new(mc, fc, arena, root);
    ex.cb = CbStats::default();
    env.reach_at_entry = ex.model.closure(arena);
    env.walk(ex, "callback entry");
    if fc.is_some() {
        crate::fin::scan(&mut env, ex);
    }
    env.run_ops(ex, ops, panic_at);
}

#[allow(dead_code)]
fn _types(_: &Arena<gc_arena::Rootable![RootA<'_>]>) {}
