//! Generic sharded proptest campaign for the input-space checks (C16-C19).

use std::cell::{Cell, RefCell};
use std::collections::{BTreeMap, BTreeSet};
use std::sync::Mutex;
use std::sync::atomic::{AtomicUsize, Ordering};

use proptest::prelude::*;
use proptest::test_runner::{Config, RngAlgorithm, TestCaseError, TestError, TestRng, TestRunner};

pub const SHARDS: usize = 64;

#[derive(Default, Clone, Debug)]
pub struct Outcome {
    pub errors: Vec<String>,
    pub internal: Vec<String>,
    /// classes this case covered; a case is non-trivial iff it covered at least one
    pub classes: Vec<String>,
    pub counters: BTreeMap<String, u64>,
}

#[derive(Default)]
pub struct GenericResult {
    pub evaluations: u64,
    pub nontrivial_cases: u64,
    pub classes: BTreeMap<String, u64>,
    pub counters: BTreeMap<String, u64>,
    pub samples: Vec<String>,
    pub failure: Option<(String, String)>, // (case json, message)
    pub internal: Vec<String>,
    pub distinct_hashes: BTreeSet<u64>,
}

impl GenericResult {
    pub fn absorb(&mut self, o: GenericResult) {
        self.evaluations += o.evaluations;
        self.nontrivial_cases += o.nontrivial_cases;
        for (k, v) in o.classes {
            *self.classes.entry(k).or_insert(0) += v;
        }
        for (k, v) in o.counters {
            *self.counters.entry(k).or_insert(0) += v;
        }
        for s in o.samples {
            if self.samples.len() < 3 {
                self.samples.push(s);
            }
        }
        self.internal.extend(o.internal);
        self.distinct_hashes.extend(o.distinct_hashes);
        if self.failure.is_none() {
            self.failure = o.failure;
        }
    }
}

fn hash_str(s: &str) -> u64 {
    use std::hash::{Hash, Hasher};
    let mut h = std::collections::hash_map::DefaultHasher::new();
    s.hash(&mut h);
    h.finish()
}

pub fn shard_seed(seed: u64, shard: usize, prop: &str) -> [u8; 32] {
    let mut b = [0u8; 32];
    b[..8].copy_from_slice(&seed.to_le_bytes());
    b[8..16].copy_from_slice(&(shard as u64).to_le_bytes());
    let pb = prop.as_bytes();
    b[16..16 + pb.len().min(8)].copy_from_slice(&pb[..pb.len().min(8)]);
    b[31] = 0x5a;
    b
}

pub fn sharded<C, F, J>(prop: &str, strat: impl Fn() -> BoxedStrategy<C> + Sync, total: u64, seed: u64, threads: usize, run: F, to_json: J) -> GenericResult
where
    C: std::fmt::Debug + Clone + 'static,
    F: Fn(&C) -> Outcome + Sync,
    J: Fn(&C) -> String + Sync,
{
    let per_shard = (total / SHARDS as u64).max(1) as u32;
    let next = AtomicUsize::new(0);
    let abort_above = AtomicUsize::new(usize::MAX);
    let results: Mutex<Vec<(usize, GenericResult)>> = Mutex::new(Vec::new());
    std::thread::scope(|s| {
        for _ in 0..threads {
            s.spawn(|| {
                loop {
                    let shard = next.fetch_add(1, Ordering::SeqCst);
                    if shard >= SHARDS || shard > abort_above.load(Ordering::SeqCst) {
                        break;
                    }
                    let rng = TestRng::from_seed(RngAlgorithm::ChaCha, &shard_seed(seed, shard, prop));
                    let mut runner = TestRunner::new_with_rng(Config { cases: per_shard, failure_persistence: None, max_shrink_iters: 3000, ..Config::default() }, rng);
                    let out = RefCell::new(GenericResult::default());
                    let failed = Cell::new(false);
                    let last_msg = RefCell::new(String::new());
                    let st = strat();
                    let res = runner.run(&st, |case| {
                        if shard > abort_above.load(Ordering::Relaxed) {
                            return Ok(());
                        }
                        let json = to_json(&case);
                        crate::crash::set_current(json.as_bytes());
                        let o = run(&case);
                        crate::crash::clear_current();
                        if !failed.get() {
                            let mut r = out.borrow_mut();
                            r.evaluations += 1;
                            if !o.classes.is_empty() {
                                r.nontrivial_cases += 1;
                                if r.distinct_hashes.insert(hash_str(&json)) && r.samples.len() < 2 {
                                    r.samples.push(json.clone());
                                }
                            }
                            for c in &o.classes {
                                *r.classes.entry(c.clone()).or_insert(0) += 1;
                            }
                            for (k, v) in &o.counters {
                                *r.counters.entry(k.clone()).or_insert(0) += v;
                            }
                            if !o.internal.is_empty() {
                                r.internal.push(format!("{:?} in case {json}", o.internal));
                                failed.set(true);
                                return Err(TestCaseError::fail("internal"));
                            }
                        }
                        if let Some(e) = o.errors.first() {
                            failed.set(true);
                            *last_msg.borrow_mut() = e.clone();
                            return Err(TestCaseError::fail(e.clone()));
                        }
                        Ok(())
                    });
                    let mut r = out.into_inner();
                    if let Err(TestError::Fail(_, case)) = res {
                        if r.internal.is_empty() {
                            let o = run(&case);
                            let msg = o.errors.first().cloned().unwrap_or_else(|| last_msg.borrow().clone());
                            r.failure = Some((to_json(&case), msg));
                        }
                    }
                    if r.failure.is_some() || !r.internal.is_empty() {
                        abort_above.fetch_min(shard, Ordering::SeqCst);
                    }
                    results.lock().unwrap().push((shard, r));
                }
            });
        }
    });
    let mut all = results.into_inner().unwrap();
    all.sort_by_key(|(i, _)| *i);
    let mut total = GenericResult::default();
    for (_, r) in all {
        total.absorb(r);
    }
    total
}
