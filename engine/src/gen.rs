//! proptest strategies for histories, parameterised by a per-property profile.

use proptest::prelude::*;
use proptest::strategy::Union;

use crate::lang::*;

#[derive(Clone, Debug)]
pub struct Profile {
    pub name: &'static str,
    pub max_steps: usize,
    pub max_ops: usize,
    // step weights
    pub w_mutate: u32,
    pub w_mutate_root: u32,
    pub w_collect: u32,
    pub w_work: u32,
    pub w_finalize: u32,
    pub w_adjust: u32,
    pub w_pacing: u32,
    pub w_map_root: u32,
    pub w_handle: u32,
    pub w_trace_panic: u32,
    pub w_cb_panic: u32,
    pub w_new_arena: u32,
    pub w_drop_arena: u32,
    pub w_drop_fault: u32,
    pub w_plain_root: u32,
    pub w_rootless: u32,
    pub w_sweep_fault: u32,
    pub w_drop_unwinding: u32,
    pub w_settle: u32,
    // op weights
    pub o_alloc: u32,
    pub o_link: u32,
    pub o_unlink: u32,
    pub o_link_weak: u32,
    pub o_root: u32,
    pub o_upgrade: u32,
    pub o_weak_query: u32,
    pub o_fin: u32,
    pub o_stash: u32,
    pub o_fetch: u32,
    pub o_barrier: u32,
    pub o_temps: u32,
    pub o_read: u32,
    pub o_adjust: u32,
    pub o_pacing: u32,
    pub o_leaf: u32,
    pub o_convert: u32,
    pub o_push: u32,
    /// kinds to allocate, with weights
    pub kinds: Vec<(u32, Kind)>,
    pub neg_adjust: bool,
    pub burst: bool,
}

impl Profile {
    pub fn base(name: &'static str) -> Profile {
        Profile {
            name,
            max_steps: 40,
            max_ops: 8,
            w_mutate: 30,
            w_mutate_root: 20,
            w_collect: 14,
            w_work: 30,
            w_finalize: 6,
            w_adjust: 3,
            w_pacing: 2,
            w_map_root: 2,
            w_handle: 3,
            w_trace_panic: 0,
            w_cb_panic: 0,
            w_new_arena: 0,
            w_drop_arena: 0,
            w_drop_fault: 0,
            w_plain_root: 0,
            w_rootless: 0,
            w_sweep_fault: 0,
            w_drop_unwinding: 0,
            w_settle: 4,
            o_alloc: 30,
            o_link: 30,
            o_unlink: 8,
            o_link_weak: 8,
            o_root: 16,
            o_upgrade: 6,
            o_weak_query: 3,
            o_fin: 0,
            o_stash: 3,
            o_fetch: 2,
            o_barrier: 4,
            o_temps: 2,
            o_read: 2,
            o_adjust: 1,
            o_pacing: 1,
            o_leaf: 2,
            o_convert: 2,
            o_push: 0,
            kinds: vec![
                (30, Kind::D),
                (20, Kind::R),
                (6, Kind::L),
                (3, Kind::LS),
                (8, Kind::LB),
                (8, Kind::RB),
                (6, Kind::OB),
                (4, Kind::Sl),
                (2, Kind::TSl),
                (4, Kind::SH),
                (2, Kind::TSH),
                (2, Kind::Str),
                (1, Kind::TStr),
                (3, Kind::Dyn),
                (2, Kind::Arr),
                (3, Kind::P),
                (4, Kind::DB),
                (3, Kind::NT),
                (4, Kind::HSl),
                (5, Kind::Set),
            ],
            neg_adjust: true,
            burst: false,
        }
    }
}

fn weighted<T: std::fmt::Debug + 'static>(v: Vec<(u32, BoxedStrategy<T>)>) -> BoxedStrategy<T> {
    let v: Vec<(u32, BoxedStrategy<T>)> = v.into_iter().filter(|(w, _)| *w > 0).collect();
    Union::new_weighted(v).boxed()
}

fn sel() -> BoxedStrategy<Sel> {
    // bias towards the newest operands (locals sit at the end of the operand list)
    prop_oneof![3 => any::<u8>(), 2 => 200u8..=255u8, 1 => 0u8..40u8].boxed()
}

fn esel() -> BoxedStrategy<Sel> {
    prop_oneof![2 => Just(0u8), 3 => any::<u8>(), 2 => 200u8..=255u8].boxed()
}

fn debt_value(neg: bool) -> BoxedStrategy<f64> {
    if neg {
        prop_oneof![
            Just(1.0),
            Just(-1.0),
            Just(0.25),
            0.0f64..50.0,
            -50.0f64..0.0,
            Just(1e9),
            Just(-1e9),
            Just(1e12),
            Just(-1e12),
            Just(3.0e3)
        ]
        .boxed()
    } else {
        prop_oneof![Just(1.0), Just(0.25), 0.0f64..50.0, Just(1e9), Just(1e12), Just(3.0e3)].boxed()
    }
}

fn store() -> BoxedStrategy<Option<(Sel, u8, u8)>> {
    prop_oneof![1 => Just(None), 2 => (sel(), any::<u8>(), any::<u8>()).prop_map(Some)].boxed()
}

pub fn op_strategy(p: &Profile, finalize: bool) -> BoxedStrategy<MutOp> {
    let kinds = Union::new_weighted(p.kinds.iter().map(|(w, k)| (*w, Just(*k))).collect::<Vec<_>>());
    let mut v: Vec<(u32, BoxedStrategy<MutOp>)> = vec![
        (p.o_alloc, (kinds, [esel(), esel(), esel()], esel(), 0u8..4).prop_map(|(kind, edges, wedge, len)| MutOp::Alloc { kind, edges, wedge, len }).boxed()),
        (p.o_link, (sel(), any::<u8>(), sel(), any::<u8>()).prop_map(|(parent, slot, c, variant)| MutOp::Link { parent, slot, child: Some(c), variant }).boxed()),
        (p.o_unlink, (sel(), any::<u8>()).prop_map(|(parent, slot)| MutOp::Link { parent, slot, child: None, variant: 0 }).boxed()),
        (
            p.o_link_weak,
            (sel(), any::<u8>(), proptest::option::weighted(0.85, sel()), any::<u8>()).prop_map(|(parent, slot, child, variant)| MutOp::LinkWeak { parent, slot, child, variant }).boxed(),
        ),
        (p.o_root, (any::<u8>(), proptest::option::weighted(0.75, sel())).prop_map(|(slot, child)| MutOp::RootSet { slot, child }).boxed()),
        (p.o_root / 4 + (p.o_link_weak > 0) as u32, (any::<u8>(), proptest::option::weighted(0.85, sel())).prop_map(|(slot, child)| MutOp::RootWeak { slot, child }).boxed()),
        (p.o_upgrade, (any::<u8>(), any::<u8>(), store()).prop_map(|(holder, wslot, store)| MutOp::Upgrade { holder, wslot, store }).boxed()),
        (p.o_weak_query, (any::<u8>(), any::<u8>()).prop_map(|(holder, wslot)| MutOp::IsDropped { holder, wslot }).boxed()),
        (p.o_stash, (sel(), sel()).prop_map(|(set, target)| MutOp::Stash { set, target }).boxed()),
        (p.o_fetch, (any::<u8>(), sel()).prop_map(|(handle, set)| MutOp::Fetch { handle, set }).boxed()),
        (p.o_barrier, (any::<u8>(), sel(), sel()).prop_map(|(variant, parent, child)| MutOp::BarrierOnly { variant, parent, child }).boxed()),
        (p.o_temps, (1u8..5).prop_map(|n| MutOp::Temps { n }).boxed()),
        (p.o_read, Just(MutOp::ReadAll).boxed()),
        (p.o_adjust, debt_value(p.neg_adjust).prop_map(|x| MutOp::AdjustDebt { x }).boxed()),
        (p.o_pacing, any::<u8>().prop_map(|preset| MutOp::SetPacing { preset }).boxed()),
        (p.o_leaf, sel().prop_map(|target| MutOp::PokeLeaf { target }).boxed()),
        (p.o_push, (0u8..4, proptest::bool::weighted(0.4), prop_oneof![Just(Kind::D), Just(Kind::R), Just(Kind::P), Just(Kind::RB)]).prop_map(|(slot, dual, kind)| MutOp::Push { slot, dual, kind }).boxed()),
        (p.o_convert, (sel(), any::<u8>(), store()).prop_map(|(target, chain, store)| MutOp::Convert { target, chain, store }).boxed()),
    ];
    if finalize {
        v.push((p.o_fin.max(10), (any::<u8>(), any::<u8>()).prop_map(|(holder, wslot)| MutOp::IsDead { holder, wslot }).boxed()));
        v.push((p.o_fin.max(10) * 2, (any::<u8>(), any::<u8>(), any::<bool>()).prop_map(|(holder, wslot, strong)| MutOp::Resurrect { holder, wslot, strong }).boxed()));
        v.push((p.o_fin.max(10) / 2, Just(MutOp::FinalizeScan).boxed()));
    }
    weighted(v)
}

fn ops(p: &Profile, finalize: bool) -> BoxedStrategy<Vec<MutOp>> {
    if p.burst {
        // allocation bursts of widely varying size for the pacing profile
        let n = prop_oneof![3 => 0usize..6, 3 => 6usize..40, 2 => 40usize..160, 1 => 160usize..300];
        let o = op_strategy(p, finalize);
        n.prop_flat_map(move |n| proptest::collection::vec(o.clone(), n..=n)).boxed()
    } else {
        proptest::collection::vec(op_strategy(p, finalize), 0..=p.max_ops).boxed()
    }
}

fn api() -> BoxedStrategy<Api> {
    prop_oneof![Just(Api::CollectDebt), Just(Api::MarkDebt), Just(Api::FinishMarking), Just(Api::CycleDebt), Just(Api::FinishCycle)].boxed()
}

fn arena() -> BoxedStrategy<u8> {
    any::<u8>().boxed()
}

fn outcome() -> BoxedStrategy<Outcome> {
    prop_oneof![4 => Just(Outcome::Ok), 1 => Just(Outcome::Err), 1 => Just(Outcome::Panic)].boxed()
}

pub fn step_strategy(p: &Profile) -> BoxedStrategy<Step> {
    let cbp = p.w_cb_panic;
    let panic_at = move || -> BoxedStrategy<Option<u8>> {
        if cbp == 0 { Just(None).boxed() } else { prop_oneof![(100 - cbp.min(90)) => Just(None), cbp.min(90) => (0u8..10).prop_map(Some)].boxed() }
    };
    let v: Vec<(u32, BoxedStrategy<Step>)> = vec![
        (p.w_mutate, (arena(), ops(p, false), panic_at()).prop_map(|(arena, ops, panic_at)| Step::Mutate { arena, via_root: false, ops, panic_at }).boxed()),
        (p.w_mutate_root, (arena(), ops(p, false), panic_at()).prop_map(|(arena, ops, panic_at)| Step::Mutate { arena, via_root: true, ops, panic_at }).boxed()),
        (p.w_collect, (arena(), api()).prop_map(|(arena, api)| Step::Collect { arena, api }).boxed()),
        (p.w_work, (arena(), api(), 1u8..6).prop_map(|(arena, api, units)| Step::Work { arena, api, units }).boxed()),
        (
            p.w_finalize,
            (arena(), any::<bool>(), ops(p, true), panic_at(), prop_oneof![3 => Just(Then::Nothing), 1 => Just(Then::StartSweeping)])
                .prop_map(|(arena, forced, ops, panic_at, then)| Step::Finalize { arena, forced, ops, panic_at, then })
                .boxed(),
        ),
        (p.w_adjust, (arena(), debt_value(p.neg_adjust)).prop_map(|(arena, x)| Step::AdjustDebt { arena, x }).boxed()),
        (p.w_pacing, (arena(), any::<u8>()).prop_map(|(arena, preset)| Step::SetPacing { arena, preset }).boxed()),
        (p.w_map_root, (arena(), any::<bool>(), if p.w_cb_panic > 0 { outcome() } else { Just(Outcome::Ok).boxed() }, ops(p, false)).prop_map(|(arena, fallible, outcome, ops)| Step::MapRoot { arena, fallible, outcome, ops }).boxed()),
        (p.w_handle, any::<u8>().prop_map(|h| Step::CloneHandle { h }).boxed()),
        (p.w_handle / 2, (any::<u8>(), any::<u8>()).prop_map(|(dst, src)| Step::CloneFromHandle { dst, src }).boxed()),
        (p.w_handle / 3, any::<u8>().prop_map(|h| Step::DropHandleUnwinding { h }).boxed()),
        (p.w_handle, any::<u8>().prop_map(|h| Step::DropHandle { h }).boxed()),
        (p.w_trace_panic, (0u8..24).prop_map(|k| Step::ArmTracePanic { k }).boxed()),
        (p.w_new_arena, (any::<u8>(), any::<bool>(), if p.w_cb_panic > 0 { outcome() } else { Just(Outcome::Ok).boxed() }, ops(p, false)).prop_map(|(preset, fallible, outcome, ops)| Step::NewArena { preset, fallible, outcome, ops }).boxed()),
        (p.w_drop_arena, arena().prop_map(|arena| Step::DropArena { arena }).boxed()),
        (p.w_drop_fault, (1u8..24).prop_map(|k| Step::ArmDropPanic { k }).boxed()),
        (p.w_plain_root, (any::<u8>(), any::<u8>()).prop_map(|(root, variant)| Step::PlainRootProtocol { root, variant }).boxed()),
        (p.w_rootless, (any::<u8>(), any::<bool>(), any::<bool>()).prop_map(|(n, cyclic, panics)| Step::Rootless { n, cyclic, panics }).boxed()),
        (p.w_sweep_fault, (0u8..12).prop_map(|k| Step::ArmSweepPanic { k }).boxed()),
        (p.w_drop_unwinding, arena().prop_map(|arena| Step::DropArenaUnwinding { arena }).boxed()),
        (p.w_settle, arena().prop_map(|arena| Step::Settle { arena }).boxed()),
    ];
    weighted(v)
}

pub fn case_strategy(p: &Profile) -> BoxedStrategy<Case> {
    let first = (any::<u8>(), ops(p, false)).prop_map(|(preset, ops)| Step::NewArena { preset, fallible: false, outcome: Outcome::Ok, ops });
    (first, proptest::collection::vec(step_strategy(p), 1..=p.max_steps))
        .prop_map(|(f, mut rest)| {
            let mut steps = vec![f];
            steps.append(&mut rest);
            Case { steps }
        })
        .boxed()
}
