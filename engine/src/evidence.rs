//! Evidence and failure files.

use crate::exec::Violation;
use crate::lang::Case;

pub fn case_from_file_text(s: &str) -> Result<Case, String> {
    let v: serde_json::Value = serde_json::from_str(s).map_err(|e| e.to_string())?;
    let c = if v.get("case").is_some() { v["case"].clone() } else { v };
    serde_json::from_value(c).map_err(|e| e.to_string())
}

pub fn prop_from_file_text(s: &str) -> Option<String> {
    let v: serde_json::Value = serde_json::from_str(s).ok()?;
    v.get("property").and_then(|p| p.as_str()).map(|s| s.to_string())
}

pub fn write_failure(root: &str, prop: &str, case: &Case, v: &Violation, reuse_addresses: bool) -> String {
    let path = format!("{root}/failures/{prop}-{:016x}.json", case.hash64());
    let body = serde_json::json!({
        "property": prop,
        "oracle": format!("{}:{}", v.prop, v.tag),
        "message": v.msg,
        "at_step": v.step,
        "reuse_addresses": reuse_addresses,
        "case": serde_json::to_value(case).unwrap(),
    });
    let _ = std::fs::create_dir_all(format!("{root}/failures"));
    let _ = std::fs::write(&path, serde_json::to_string_pretty(&body).unwrap());
    path
}

/// A worker writes one part; `./check` merges the parts of one run into evidence/<Cxx>.json.
pub fn write_part(root: &str, prop: &str, tier: &str, seed: u64, tag: &str, coverage: serde_json::Value, assumptions: &[&str], wall: f64, violations: u32) {
    let body = serde_json::json!({
        "property_id": prop,
        "tier": tier,
        "seed": seed as i64,
        "level": "exploration",
        "coverage": coverage,
        "assumptions": assumptions,
        "wall_s": wall,
        "violations": violations,
    });
    let _ = std::fs::create_dir_all(format!("{root}/evidence"));
    let path = format!("{root}/evidence/{prop}.{tag}.part.json");
    let _ = std::fs::write(&path, serde_json::to_string_pretty(&body).unwrap());
}
