//! What happens inside one arena callback: operand resolution by walking the real graph in
//! lock-step with the model, and the mutator operations.

use std::collections::BTreeMap;
use std::panic::{AssertUnwindSafe, catch_unwind};

use gc_arena::lock::{Lock, OnceLock, RefLock};
use gc_arena::{DynamicRootSet, Finalization, Gc, GcSlice, GcSliceWithHeaderBuilder, GcStr, Mutation, unsize};

use crate::exec::*;
use crate::heap::*;
use crate::lang::*;
use crate::model::*;
use crate::obs;

pub enum RootMode<'gc, 'r> {
    Ro(&'r RootA<'gc>, Option<&'r Slot<'gc>>),
    Rw(&'r mut RootA<'gc>, Option<&'r mut Slot<'gc>>),
}

impl<'gc, 'r> RootMode<'gc, 'r> {
    fn a(&self) -> &RootA<'gc> {
        match self {
            RootMode::Ro(a, _) => a,
            RootMode::Rw(a, _) => a,
        }
    }
    fn extra(&self) -> Option<Slot<'gc>> {
        match self {
            RootMode::Ro(_, e) => e.map(|s| *s),
            RootMode::Rw(_, e) => e.as_ref().map(|s| **s),
        }
    }
    fn writable(&self) -> bool {
        matches!(self, RootMode::Rw(..))
    }
}

pub struct Env<'gc, 'r> {
    pub mc: &'gc Mutation<'gc>,
    pub fc: Option<&'gc Finalization<'gc>>,
    pub arena: u8,
    pub root: RootMode<'gc, 'r>,
    /// what the callback can name: strongly reachable objects (ascending id), then locals
    pub operands: Vec<(u32, Ref<'gc>)>,
    pub n_reach: usize,
    pub temps: Vec<(u32, Ref<'gc>)>,
    pub general_parents: Vec<u32>,
    pub general_children: Vec<u32>,
    pub fwd_marks: u32,
    pub neg_adjust: f64,
    pub pos_adjust: f64,
    pub pacing_changed: bool,
    pub allocs: u32,
    pub mutated: bool,
    pub resurrected: Vec<u32>,
    pub resurrected_dead: bool,
    /// fixed for the duration of a finalize callback: reachability at its start
    pub reach_at_entry: Vec<bool>,
}

fn pick(sel: Sel, n: usize) -> Option<usize> {
    if n == 0 { None } else { Some((sel as usize * n) >> 8) }
}

/// Observable phase computed from the hook snapshot: 0 S, 1 Marking, 2 Marked, 3 Sweeping.
pub fn hook_phase(s: &gc_arena::verif::Snapshot) -> u8 {
    match s.phase {
        2 => 0,
        1 => 3,
        _ => {
            if s.gray_len > 0 || s.gray_again_len > 0 || s.root_needs_trace {
                1
            } else {
                2
            }
        }
    }
}

impl<'gc, 'r> Env<'gc, 'r> {
    pub fn new(mc: &'gc Mutation<'gc>, fc: Option<&'gc Finalization<'gc>>, arena: u8, root: RootMode<'gc, 'r>) -> Self {
        Env {
            mc,
            fc,
            arena,
            root,
            operands: Vec::new(),
            n_reach: 0,
            temps: Vec::new(),
            general_parents: Vec::new(),
            general_children: Vec::new(),
            fwd_marks: 0,
            neg_adjust: 0.0,
            pos_adjust: 0.0,
            pacing_changed: false,
            allocs: 0,
            mutated: false,
            resurrected: Vec::new(),
            resurrected_dead: false,
            reach_at_entry: Vec::new(),
        }
    }

    pub fn phase(&self) -> u8 {
        hook_phase(&self.mc.verif_snapshot())
    }

    pub fn root_a(&self) -> &RootA<'gc> {
        self.root.a()
    }

    /// Verify one object the callback is about to dereference. Returns false (after recording a
    /// violation) if it must not be touched.
    fn check_obj(&self, ex: &mut Exec, id: u32, r: Ref<'gc>, how: &str, prop: &'static str) -> bool {
        let o = ex.model.obj(id).clone();
        if !obs::block_live(o.block) {
            ex.violate(prop, "deref-released", format!("{how}: object {id} ({:?}) is reachable but its block was released", o.kind));
            return false;
        }
        if o.status != Status::Live {
            ex.violate(prop, "deref-destructed", format!("{how}: object {id} ({:?}) is reachable but was destructed", o.kind));
            return false;
        }
        if r.addr() != o.addr {
            ex.violate(prop, "wrong-address", format!("{how}: pointer to object {id} has address {:#x}, expected {:#x}", r.addr(), o.addr));
            return false;
        }
        if let Some((tid, pat)) = r.read_ident() {
            let want = if o.kind == Kind::L { pattern_for(id) } else { pattern_for(id) };
            if tid != id || pat != want {
                ex.violate(prop, "payload-mismatch", format!("{how}: object {id} reads back id {tid} pattern {pat:#x}"));
                return false;
            }
        }
        true
    }

    /// Walk the real graph from the root in lock-step with the model; fills `operands`.
    pub fn walk(&mut self, ex: &mut Exec, how: &str) {
        let locals: Vec<(u32, Ref<'gc>)> = self.operands.drain(self.n_reach.min(self.operands.len())..).collect();
        self.operands.clear();
        let mut found: BTreeMap<u32, Ref<'gc>> = BTreeMap::new();
        let mut queue: Vec<(u32, Ref<'gc>)> = Vec::new();

        let ma = ex.model.arenas[self.arena as usize].clone();
        let mut real_root: Vec<Slot<'gc>> = self.root.a().s.to_vec();
        if ma.root_b {
            real_root.push(self.root.extra().unwrap_or(None));
        }
        let real_root_w: Vec<WSlot<'gc>> = self.root.a().w.to_vec();
        self.compare_slots(ex, None, &ma.root_s, &real_root, &mut queue, how);
        self.compare_wslots(ex, None, &ma.root_w, &real_root_w, how);

        while let Some((id, r)) = queue.pop() {
            if found.contains_key(&id) {
                continue;
            }
            if !self.check_obj(ex, id, r, how, "C01") {
                continue;
            }
            found.insert(id, r);
            let mo = ex.model.obj(id).clone();
            if let Ref::Set(set, _) = r {
                // children of a root set are only nameable through handles
                for hi in 0..ex.model.handles.len() {
                    let mh = ex.model.handles[hi].clone();
                    if !(mh.alive && mh.set == id) {
                        continue;
                    }
                    let Some(h) = ex.handles[hi].as_ref() else { continue };
                    match h.try_fetch(set) {
                        None => ex.violate("C14", "fetch-refused", format!("{how}: live handle {hi} of set {id} refused by its own set")),
                        Some(t) => {
                            let want = ex.model.obj(mh.target).addr;
                            if t.addr() != want {
                                ex.violate("C14", "fetch-wrong-object", format!("{how}: handle {hi} resolves to {:#x}, stashed object {} is at {want:#x}", t.addr(), mh.target));
                            } else {
                                queue.push((mh.target, t));
                            }
                        }
                    }
                }
            } else {
                let real = r.strong();
                self.compare_slots(ex, Some(id), &mo.strong, &real, &mut queue, how);
                let realw = r.weak();
                self.compare_wslots(ex, Some(id), &mo.weak, &realw, how);
            }
        }
        self.operands = found.into_iter().collect();
        self.n_reach = self.operands.len();
        self.operands.extend(locals);
    }

    fn compare_slots(&self, ex: &mut Exec, holder: Option<u32>, model: &[Option<u32>], real: &[Slot<'gc>], queue: &mut Vec<(u32, Ref<'gc>)>, how: &str) {
        if model.len() != real.len() {
            ex.violate("C01", "slot-count", format!("{how}: holder {holder:?} has {} strong slots, model {}", real.len(), model.len()));
            return;
        }
        for (i, (m, r)) in model.iter().zip(real.iter()).enumerate() {
            match (m, r) {
                (None, None) => {}
                (Some(mid), Some(rr)) => {
                    let want = ex.model.obj(*mid).addr;
                    if rr.addr() != want {
                        ex.violate("C01", "edge-mismatch", format!("{how}: holder {holder:?} slot {i} points to {:#x}, stored object {mid} is at {want:#x}", rr.addr()));
                    } else {
                        queue.push((*mid, *rr));
                    }
                }
                _ => ex.violate("C01", "edge-mismatch", format!("{how}: holder {holder:?} slot {i}: model {m:?}, real is_some={}", r.is_some())),
            }
        }
    }

    fn compare_wslots(&self, ex: &mut Exec, holder: Option<u32>, model: &[Option<u32>], real: &[WSlot<'gc>], how: &str) {
        if model.len() != real.len() {
            ex.violate("C01", "slot-count", format!("{how}: holder {holder:?} has {} weak slots, model {}", real.len(), model.len()));
            return;
        }
        for (i, (m, r)) in model.iter().zip(real.iter()).enumerate() {
            match (m, r) {
                (None, None) => {}
                (Some(mid), Some(rr)) => {
                    let want = ex.model.obj(*mid).addr;
                    if rr.addr() != want {
                        ex.violate("C01", "weak-edge-mismatch", format!("{how}: holder {holder:?} weak slot {i} points to {:#x}, stored object {mid} is at {want:#x}", rr.addr()));
                    }
                }
                _ => ex.violate("C01", "weak-edge-mismatch", format!("{how}: holder {holder:?} weak slot {i}: model {m:?}, real is_some={}", r.is_some())),
            }
        }
    }

    fn operand(&self, sel: Sel) -> Option<(u32, Ref<'gc>)> {
        pick(sel, self.operands.len()).map(|i| self.operands[i])
    }

    fn operand_where(&self, ex: &Exec, sel: Sel, pred: impl Fn(&MObj) -> bool) -> Option<(u32, Ref<'gc>)> {
        let c: Vec<usize> = (0..self.operands.len()).filter(|i| pred(ex.model.obj(self.operands[*i].0))).collect();
        pick(sel, c.len()).map(|i| self.operands[c[i]])
    }

    fn opt_operand(&self, sel: Option<Sel>) -> Option<Option<(u32, Ref<'gc>)>> {
        match sel {
            None => Some(None),
            Some(s) => self.operand(s).map(Some),
        }
    }

    fn colour_of(&self, snap: &gc_arena::verif::Snapshot, id: u32, ex: &Exec) -> u8 {
        let o = ex.model.obj(id);
        let c = snap.color_of(o.addr).unwrap_or(5);
        if c == 0 && o.born_step as usize == ex.step_ix { 4 } else { c }
    }

    fn note_adoption(&mut self, ex: &mut Exec, path: u8, parent: Option<u32>, child: Option<u32>) {
        ex.cov.adoptions += 1;
        self.mutated = true;
        let snap = self.mc.verif_snapshot();
        let ph = hook_phase(&snap);
        if ph != 0 {
            ex.cov.adopt_active[ph as usize] += 1;
            ex.cov.pending_active_adopt = true;
            ex.active_adoptions += 1;
        }
        if let Some(c) = child {
            let pc = parent.map(|p| self.colour_of(&snap, p, ex)).unwrap_or(6);
            let cc = self.colour_of(&snap, c, ex);
            *ex.cov.cells.entry((path, ph, pc, cc)).or_insert(0) += 1;
            if ph == 1 || ph == 2 {
                if let Some(p) = parent {
                    if snap.color_of(ex.model.obj(p).addr) == Some(3) {
                        if ex.model.obj(p).kind.needs_trace() {
                            ex.cov.barrier_black_tracing += 1;
                        } else {
                            ex.cov.barrier_black_nontracing += 1;
                        }
                    }
                }
            }
        }
    }

    // -----------------------------------------------------------------------------------------

    pub fn alloc(&mut self, ex: &mut Exec, kind: Kind, edges: [Sel; 3], wedge: Sel, len: u8) -> Option<(u32, Ref<'gc>)> {
        if ex.live_objects() >= ex.opts.max_live.max(64) {
            ex.cov.ops_skipped += 1;
            return None;
        }
        let mc = self.mc;
        let arena = self.arena;
        let id = ex.model.next_id();
        let e: Vec<Option<(u32, Ref<'gc>)>> = edges.iter().map(|s| if *s == 0 { None } else { self.operand(*s) }).collect();
        let we: Option<(u32, WeakRef<'gc>)> = if wedge == 0 { None } else { self.operand(wedge).and_then(|(i, r)| r.downgrade().map(|w| (i, w))) };
        let ns = kind.ctor_strong();
        let nw = kind.ctor_weak();
        let mut ms: Vec<Option<u32>> = vec![None; ns];
        let mut rs: Vec<Slot<'gc>> = vec![None; ns];
        if ns > 0 {
            let is_slice = matches!(kind, Kind::Sl | Kind::TSl | Kind::SH | Kind::TSH);
            let is_arr = kind == Kind::Arr;
            let n = if is_slice { (len as usize) % 4 } else { ns };
            ms.truncate(n);
            rs.truncate(n);
            let stride = if is_slice || is_arr { 1 } else { (ns / 3).max(1) };
            for (j, t) in e.iter().enumerate() {
                let s = if ns >= 3 { j * stride } else { j % ns };
                if s < n {
                    if let Some((tid, tr)) = t {
                        ms[s] = Some(*tid);
                        rs[s] = Some(*tr);
                    }
                }
            }
        }
        let mut mw: Vec<Option<u32>> = vec![None; nw];
        let mut rw: Vec<WSlot<'gc>> = vec![None; nw];
        if nw > 0 {
            if let Some((tid, w)) = we {
                mw[0] = Some(tid);
                rw[0] = Some(w);
            }
        }

        let born_phase = self.phase();
        // Build the value first so that the bracket contains only the Gc allocation.
        let r: Ref<'gc>;
        let blocks: Vec<usize>;
        match kind {
            Kind::D | Kind::Dyn => {
                let v = DNode::new(arena, id, rs.clone().try_into().ok().unwrap(), rw.clone().try_into().ok().unwrap());
                obs::capture_on();
                let g = Gc::new(mc, v);
                blocks = obs::capture_off();
                r = if kind == Kind::D { Ref::D(g) } else { Ref::Dyn(unsize!(g => dyn NodeLike<'gc>)) };
            }
            Kind::R => {
                let v = RNode::new(arena, id, rs.clone().try_into().ok().unwrap(), rw.clone().try_into().ok().unwrap());
                obs::capture_on();
                let g = Gc::new(mc, v);
                blocks = obs::capture_off();
                r = Ref::R(g);
            }
            Kind::L => {
                let v = RefLock::new(LeafBody { tok: Tok::new(arena, id), val: pattern_for(id) });
                obs::capture_on();
                let g = Gc::new(mc, v);
                blocks = obs::capture_off();
                r = Ref::L(g);
            }
            Kind::LS => {
                obs::capture_on();
                let g = new_static_tok(mc, arena, id);
                blocks = obs::capture_off();
                r = Ref::LS(g);
            }
            Kind::LB => {
                obs::capture_on();
                let g = Gc::new(mc, Lock::new(rs[0]));
                blocks = obs::capture_off();
                r = Ref::LB(g);
            }
            Kind::RB => {
                let v = RefLock::new(Body { tok: Tok::new(arena, id), s: [rs[0], rs[1]], probe: Probe { arena, id }, w: rw[0], pattern: pattern_for(id) });
                obs::capture_on();
                let g = Gc::new(mc, v);
                blocks = obs::capture_off();
                r = Ref::RB(g);
            }
            Kind::OB => {
                let oc = std::cell::OnceCell::new();
                if let Some(x) = rs[0] {
                    let _ = oc.set(x);
                }
                let cell: OnceLock<Ref<'gc>> = OnceLock::from(oc);
                obs::capture_on();
                let g = Gc::new(mc, cell);
                blocks = obs::capture_off();
                r = Ref::OB(g);
            }
            Kind::Sl | Kind::TSl => {
                obs::capture_on();
                let g = GcSlice::new_slice(mc, &rs);
                blocks = obs::capture_off();
                r = if kind == Kind::Sl { Ref::Sl(g) } else { Ref::TSl(Gc::as_thin(g)) };
            }
            Kind::SH | Kind::TSH => {
                let h = Hdr { tok: Tok::new(arena, id), probe: Probe { arena, id }, pattern: pattern_for(id) };
                obs::capture_on();
                let b = GcSliceWithHeaderBuilder::<Hdr, Slot<'gc>>::new(rs.len()).write_header(h);
                let g = if id % 2 == 0 { b.copy_slice(mc, &rs) } else { b.write_slice_with(mc, |i| rs[i]) };
                blocks = obs::capture_off();
                r = if kind == Kind::SH { Ref::SH(g) } else { Ref::TSH(Gc::as_thin(g)) };
            }
            Kind::Str | Kind::TStr => {
                let s = id.to_string();
                obs::capture_on();
                let g = GcStr::new_str(mc, &s);
                blocks = obs::capture_off();
                r = if kind == Kind::Str { Ref::Str(g) } else { Ref::TStr(Gc::as_thin(g)) };
            }
            Kind::P => {
                let v = PNode { tok: Tok::new(arena, id), w: Lock::new(rw[0]), probe: Probe { arena, id }, s: [Lock::new(rs[0]), Lock::new(rs[1])], pattern: pattern_for(id) };
                obs::capture_on();
                let g = Gc::new(mc, v);
                blocks = obs::capture_off();
                r = Ref::P(g);
            }
            Kind::HSl => {
                obs::capture_on();
                let g = gc_arena::GcSliceBuilder::<Hdr>::new(1).write_slice_with(mc, |_| Hdr { tok: Tok::new(arena, id), probe: Probe { arena, id }, pattern: pattern_for(id) });
                blocks = obs::capture_off();
                r = Ref::HSl(g);
            }
            Kind::NT => {
                let v = NtNode { tok: Tok::new(arena, id), probe: Probe { arena, id }, pattern: pattern_for(id) };
                obs::capture_on();
                let g = Gc::new(mc, v);
                blocks = obs::capture_off();
                r = Ref::NT(g);
            }
            Kind::DB => {
                let v = DynBox { tok: Tok::new(arena, id), probe: Probe { arena, id }, inner: Box::new(HolderImpl { w: rw[0], s: rs[0] }), pattern: pattern_for(id) };
                obs::capture_on();
                let g = Gc::new(mc, v);
                blocks = obs::capture_off();
                r = Ref::DB(g);
            }
            Kind::Arr => {
                let v: [Slot<'gc>; 3] = [rs[0], rs[1], rs[2]];
                obs::capture_on();
                let g = Gc::new(mc, v);
                blocks = obs::capture_off();
                r = Ref::Arr(unsize!(g => [Slot<'gc>]));
            }
            Kind::Set => {
                obs::capture_on();
                let set = DynamicRootSet::new(mc);
                blocks = obs::capture_off();
                // the private object is the last allocation; its value (one Rc) sits at the end
                let Some(&b) = blocks.last() else {
                    ex.internal("no allocation captured for DynamicRootSet::new".into());
                    return None;
                };
                let info = obs::block_info(b).unwrap();
                r = Ref::Set(set, b + info.size - std::mem::size_of::<usize>());
            }
        }
        let addr = r.addr();
        // identify the Gc block: the captured block that contains the value address (or ends at it)
        let mut block = None;
        for b in blocks.iter().rev() {
            if let Some(info) = obs::block_info(*b) {
                if addr >= *b && addr <= *b + info.size {
                    block = Some(*b);
                    break;
                }
            }
        }
        let Some(block) = block else {
            ex.violate("C17", "value-outside-block", format!("alloc {kind:?}: value address {addr:#x} lies in none of the blocks allocated by the call {blocks:x?}"));
            return None;
        };
        obs::watch(block, addr);
        if ex.opts.hook {
            let snap = mc.verif_snapshot();
            if snap.position_of(addr).is_none() {
                ex.internal(format!("alloc {kind:?}: address {addr:#x} not in the collector's object list"));
            }
        }
        obs::untracked(|| {
            ex.model.add(MObj {
                id,
                arena,
                kind,
                addr,
                block,
                strong: ms,
                weak: mw,
                status: Status::Live,
                drops: 0,
                frees: 0,
                born_phase,
                born_step: ex.step_ix as u32,
                fault_exempt: false,
            })
        });
        ex.cov.allocs += 1;
        self.allocs += 1;
        self.operands.push((id, r));
        Some((id, r))
    }

    /// The strong store itself, through the adoption path of (kind, slot, variant). Returns the
    /// path number used, or None if the store is not possible.
    fn store_strong(&mut self, ex: &mut Exec, p: (u32, Ref<'gc>), slot: u8, child: Option<(u32, Ref<'gc>)>, variant: u8) -> Option<u8> {
        let mc = self.mc;
        let cref = child.map(|c| c.1);
        let alt = variant & 1 == 1;
        let mo = ex.model.obj(p.0).clone();
        let n = mo.kind.mutable_strong();
        if n == 0 {
            return None;
        }
        let s = slot as usize % n;
        let path: u8;
        match p.1 {
            Ref::D(g) => {
                if s == 2 && (mo.strong[2].is_some() || child.is_none()) {
                    return None;
                }
                if !d_store(mc, g, s, cref, alt) {
                    ex.violate("C06", "once-set-refused", format!("OnceLock field of object {} refused a first set", p.0));
                    return None;
                }
                path = s as u8; // 0..=8
            }
            Ref::R(g) => {
                match cref {
                    None => {
                        g.s[s].set(None);
                        path = 9;
                    }
                    Some(c) => {
                        let pe = Gc::erase(g);
                        let ce = c.erase();
                        let mut v = variant % 6;
                        if v == 4 && !self.general_parents.contains(&p.0) {
                            v = 1;
                        }
                        if v == 5 && !self.general_children.contains(&child.unwrap().0) {
                            v = 3;
                        }
                        let ce = match ce {
                            Some(ce) => ce,
                            None => {
                                // a root set has no erasable pointer: only the general backward barrier applies
                                mc.backward_barrier(pe, None);
                                g.s[s].set(Some(c));
                                self.general_parents.push(p.0);
                                obs::untracked(|| ex.model.obj_mut(p.0).strong[s] = child.map(|c| c.0));
                                return Some(11);
                            }
                        };
                        match v {
                            0 => mc.backward_barrier(pe, Some(ce)),
                            1 => {
                                mc.backward_barrier(pe, None);
                                self.general_parents.push(p.0);
                            }
                            2 => {
                                mc.forward_barrier(Some(pe), ce);
                                self.fwd_marks += 1;
                            }
                            3 => {
                                mc.forward_barrier(None, ce);
                                self.fwd_marks += 1;
                                self.general_children.push(child.unwrap().0);
                            }
                            _ => {}
                        }
                        g.s[s].set(Some(c));
                        path = 10 + v; // 10..=15
                    }
                }
            }
            Ref::P(g) => {
                let w: &'gc gc_arena::barrier::Write<PNode<'gc>> = Gc::write(mc, g);
                gc_arena::barrier::field!(w, PNode, s)[s].unlock().set(cref);
                path = 22;
            }
            Ref::LB(g) => {
                if alt {
                    g.unlock(mc).set(cref);
                    path = 17;
                } else {
                    g.set(mc, cref);
                    path = 16;
                }
            }
            Ref::RB(g) => {
                if alt {
                    g.try_borrow_mut(mc).expect("no outstanding borrow").s[s] = cref;
                    path = 19;
                } else {
                    g.borrow_mut(mc).s[s] = cref;
                    path = 18;
                }
            }
            Ref::OB(g) => {
                let Some(c) = cref else { return None };
                if mo.strong[0].is_some() {
                    // a second set must be refused and change nothing
                    if g.set(mc, c).is_ok() {
                        ex.violate("C06", "once-set-twice", format!("Gc<OnceLock> {} accepted a second set", p.0));
                    }
                    return None;
                }
                if alt {
                    let got = g.get_or_init(mc, || c);
                    if got.addr() != c.addr() {
                        ex.violate("C06", "get-or-init", format!("get_or_init on empty Gc<OnceLock> {} returned another value", p.0));
                    }
                    path = 21;
                } else {
                    if g.set(mc, c).is_err() {
                        ex.violate("C06", "once-set-refused", format!("Gc<OnceLock> {} refused a first set", p.0));
                        return None;
                    }
                    path = 20;
                }
            }
            _ => return None,
        }
        obs::untracked(|| ex.model.obj_mut(p.0).strong[s] = child.map(|c| c.0));
        Some(path)
    }

    pub fn link(&mut self, ex: &mut Exec, parent: Sel, slot: u8, child: Option<Sel>, variant: u8) {
        let Some(p) = self.operand_where(ex, parent, |o| o.kind.mutable_strong() > 0) else {
            ex.cov.ops_skipped += 1;
            return;
        };
        let Some(c) = self.opt_operand(child) else {
            ex.cov.ops_skipped += 1;
            return;
        };
        self.link_resolved(ex, p, slot, c, variant);
    }

    fn link_resolved(&mut self, ex: &mut Exec, p: (u32, Ref<'gc>), slot: u8, c: Option<(u32, Ref<'gc>)>, variant: u8) -> bool {
        // classification needs the colours before the barrier runs
        let snap = self.mc.verif_snapshot();
        let ph = hook_phase(&snap);
        let pc = self.colour_of(&snap, p.0, ex);
        let cc = c.map(|c| self.colour_of(&snap, c.0, ex));
        match self.store_strong(ex, p, slot, c, variant) {
            None => {
                ex.cov.ops_skipped += 1;
                false
            }
            Some(path) => {
                ex.cov.adoptions += 1;
                self.mutated = true;
                if ph != 0 {
                    ex.cov.adopt_active[ph as usize] += 1;
                    ex.cov.pending_active_adopt = true;
                    ex.active_adoptions += 1;
                }
                if let Some(cc) = cc {
                    *ex.cov.cells.entry((path, ph, pc, cc)).or_insert(0) += 1;
                }
                if (ph == 1 || ph == 2) && pc == 3 {
                    if ex.model.obj(p.0).kind.needs_trace() {
                        ex.cov.barrier_black_tracing += 1;
                    } else {
                        ex.cov.barrier_black_nontracing += 1;
                    }
                }
                true
            }
        }
    }

    pub fn link_weak(&mut self, ex: &mut Exec, parent: Sel, slot: u8, child: Option<Sel>, variant: u8) {
        let mc = self.mc;
        let Some(p) = self.operand_where(ex, parent, |o| o.kind.mutable_weak() > 0) else {
            ex.cov.ops_skipped += 1;
            return;
        };
        let c = match child {
            None => None,
            Some(s) => match self.operand_where(ex, s, |o| o.kind != Kind::Set) {
                Some(c) => Some(c),
                None => {
                    ex.cov.ops_skipped += 1;
                    return;
                }
            },
        };
        let w: WSlot<'gc> = c.and_then(|c| c.1.downgrade());
        let n = ex.model.obj(p.0).kind.mutable_weak();
        let s = slot as usize % n;
        let snap = mc.verif_snapshot();
        let ph = hook_phase(&snap);
        let pc = self.colour_of(&snap, p.0, ex);
        let cc = c.map(|c| self.colour_of(&snap, c.0, ex));
        let path: u8;
        match p.1 {
            Ref::D(g) => {
                d_store_weak(mc, g, s, w);
                path = 30 + s as u8;
            }
            Ref::R(g) => match w {
                None => {
                    g.w[s].set(None);
                    path = 32;
                }
                Some(wr) => {
                    let pe = Gc::erase(g);
                    let we = wr.erase();
                    let v = variant % 4;
                    match v {
                        0 => mc.backward_barrier_weak(pe, we),
                        1 => {
                            mc.backward_barrier(pe, None);
                            self.general_parents.push(p.0);
                        }
                        2 => {
                            mc.forward_barrier_weak(Some(pe), we);
                            self.fwd_marks += 1;
                        }
                        _ => {
                            mc.forward_barrier_weak(None, we);
                            self.fwd_marks += 1;
                        }
                    }
                    g.w[s].set(Some(wr));
                    path = 33 + v;
                }
            },
            Ref::RB(g) => {
                g.borrow_mut(mc).w = w;
                path = 37;
            }
            Ref::P(g) => {
                let wr: &'gc gc_arena::barrier::Write<PNode<'gc>> = Gc::write(mc, g);
                gc_arena::barrier::field!(wr, PNode, w).unlock().set(w);
                path = 38;
            }
            _ => {
                ex.cov.ops_skipped += 1;
                return;
            }
        }
        obs::untracked(|| ex.model.obj_mut(p.0).weak[s] = c.map(|c| c.0));
        ex.cov.adoptions += 1;
        self.mutated = true;
        if ph != 0 {
            ex.cov.adopt_active[ph as usize] += 1;
            ex.cov.pending_active_adopt = true;
            ex.active_adoptions += 1;
        }
        if let Some(cc) = cc {
            *ex.cov.cells.entry((path, ph, pc, cc)).or_insert(0) += 1;
        }
    }

    pub fn root_set(&mut self, ex: &mut Exec, slot: u8, child: Option<Sel>) {
        if !self.root.writable() {
            ex.cov.ops_skipped += 1;
            return;
        }
        let Some(c) = self.opt_operand(child) else {
            ex.cov.ops_skipped += 1;
            return;
        };
        let n = ex.model.arenas[self.arena as usize].root_s.len();
        let s = slot as usize % n;
        if let RootMode::Rw(a, extra) = &mut self.root {
            if s < ROOT_STRONG {
                a.s[s] = c.map(|c| c.1);
            } else if let Some(e) = extra {
                **e = c.map(|c| c.1);
            }
        }
        obs::untracked(|| ex.model.arenas[self.arena as usize].root_s[s] = c.map(|c| c.0));
        self.note_adoption(ex, 40, None, c.map(|c| c.0));
    }

    pub fn root_weak(&mut self, ex: &mut Exec, slot: u8, child: Option<Sel>) {
        if !self.root.writable() {
            ex.cov.ops_skipped += 1;
            return;
        }
        let c = match child {
            None => None,
            Some(s) => match self.operand_where(ex, s, |o| o.kind != Kind::Set) {
                Some(c) => Some(c),
                None => {
                    ex.cov.ops_skipped += 1;
                    return;
                }
            },
        };
        let s = slot as usize % ROOT_WEAK;
        if let RootMode::Rw(a, _) = &mut self.root {
            a.w[s] = c.and_then(|c| c.1.downgrade());
        }
        obs::untracked(|| ex.model.arenas[self.arena as usize].root_w[s] = c.map(|c| c.0));
        self.note_adoption(ex, 41, None, c.map(|c| c.0));
    }

    /// Resolve a weak-slot holder: an operand with weak slots, or (last index) the root.
    fn weak_holder(&self, ex: &Exec, holder: Sel, wslot: u8) -> Option<(Option<u32>, u32, WeakRef<'gc>)> {
        let c: Vec<usize> = (0..self.operands.len()).filter(|i| !ex.model.obj(self.operands[*i].0).weak.is_empty()).collect();
        let k = pick(holder, c.len() + 1)?;
        if k == c.len() {
            let s = wslot as usize % ROOT_WEAK;
            let t = ex.model.arenas[self.arena as usize].root_w[s]?;
            let w = self.root.a().w[s]?;
            Some((None, t, w))
        } else {
            let (hid, hr) = self.operands[c[k]];
            let mo = ex.model.obj(hid);
            let s = wslot as usize % mo.weak.len();
            let t = mo.weak[s]?;
            let w = hr.weak().get(s).copied().flatten()?;
            Some((Some(hid), t, w))
        }
    }

    /// Target state classes for coverage: 0 strongly reachable, 1 weak-only live, 2 destructed,
    /// 3 allocated during the running cycle.
    fn weak_query(&mut self, ex: &mut Exec, holder: Sel, wslot: u8, kind: u8) -> Option<(u32, WeakRef<'gc>, bool)> {
        let Some((hid, t, w)) = self.weak_holder(ex, holder, wslot) else {
            ex.cov.ops_skipped += 1;
            return None;
        };
        let mo = ex.model.obj(t).clone();
        // queryability: the block must still be owned before the pointer is touched
        if !obs::block_live(mo.block) {
            ex.violate("C05", "weak-target-released", format!("weak pointer in holder {hid:?} refers to object {t} whose block was released"));
            return None;
        }
        if w.addr() != mo.addr {
            ex.violate("C05", "weak-wrong-address", format!("weak pointer in holder {hid:?} has address {:#x}, object {t} is at {:#x}", w.addr(), mo.addr));
            return None;
        }
        ex.cov.weak_queries += 1;
        let dropped = w.is_dropped();
        let want = mo.status != Status::Live;
        if !mo.kind.has_tok() && mo.status == Status::Live {
            // no destructor witness for this kind: learn the status from the answer (it may never revert)
            if dropped {
                obs::untracked(|| ex.model.obj_mut(t).status = Status::Destructed);
            }
        } else if dropped != want {
            ex.violate("C05", "is-dropped-wrong", format!("is_dropped() of object {t} is {dropped}, destructor has {}run", if want { "" } else { "not " }));
        }
        let mo = ex.model.obj(t).clone();
        let reach = ex.model.closure(self.arena);
        let strongly = reach[t as usize] || self.operands[self.n_reach..].iter().any(|(i, _)| *i == t);
        let ph = self.phase();
        let state = if mo.status != Status::Live {
            2
        } else if strongly {
            0
        } else {
            1
        };
        *ex.cov.weak_cells.entry((kind, ph, state)).or_insert(0) += 1;
        if ph == 3 && state == 1 {
            ex.cov.weak_q_sweeping_weakonly += 1;
        }
        Some((t, w, strongly))
    }

    pub fn upgrade(&mut self, ex: &mut Exec, holder: Sel, wslot: u8, store: Option<(Sel, u8, u8)>) {
        let Some((t, w, strongly)) = self.weak_query(ex, holder, wslot, 0) else { return };
        let mo = ex.model.obj(t).clone();
        let ph = self.phase();
        let up = w.upgrade(self.mc);
        match (&up, mo.status) {
            (Some(_), Status::Destructed | Status::Released) => {
                ex.violate("C05", "upgrade-destructed", format!("upgrade of destructed object {t} succeeded (phase {ph})"));
                return;
            }
            (None, Status::Live) => {
                if !mo.kind.has_tok() && !strongly {
                    // unobservable destructor: cannot tell
                } else if ph != 3 {
                    ex.violate("C05", "upgrade-spurious-fail", format!("upgrade of live object {t} failed while not Sweeping (phase {ph})"));
                } else if strongly {
                    ex.violate("C05", "upgrade-spurious-fail", format!("upgrade of strongly reachable object {t} failed during Sweeping"));
                } else {
                    ex.cov.upgrade_none_live += 1;
                }
            }
            _ => {}
        }
        let Some(r) = up else { return };
        if r.addr() != mo.addr {
            ex.violate("C05", "upgrade-wrong-object", format!("upgrade of weak pointer to object {t} returned address {:#x}", r.addr()));
            return;
        }
        if !self.check_obj(ex, t, r, "upgrade result", "C05") {
            return;
        }
        if !self.operands.iter().any(|(i, _)| *i == t) {
            self.operands.push((t, r));
        }
        if let Some((ps, slot, variant)) = store {
            if let Some(p) = self.operand_where(ex, ps, |o| o.kind.mutable_strong() > 0) {
                if self.link_resolved(ex, p, slot, Some((t, r)), variant) {
                    ex.has_upgrade_store = true;
                    if ph != 0 {
                        ex.cov.upgrade_store_active += 1;
                    }
                }
            }
        }
    }

    pub fn is_dropped(&mut self, ex: &mut Exec, holder: Sel, wslot: u8) {
        let _ = self.weak_query(ex, holder, wslot, 1);
    }

    pub fn stash(&mut self, ex: &mut Exec, set: Sel, target: Sel) {
        let Some(s) = self.operand_where(ex, set, |o| o.kind == Kind::Set) else {
            ex.cov.ops_skipped += 1;
            return;
        };
        let Some(t) = self.operand_where(ex, target, |o| o.kind.stashable()) else {
            ex.cov.ops_skipped += 1;
            return;
        };
        let Ref::Set(setp, _) = s.1 else { unreachable!() };
        let snap = self.mc.verif_snapshot();
        let ph = hook_phase(&snap);
        let pc = self.colour_of(&snap, s.0, ex);
        let cc = self.colour_of(&snap, t.0, ex);
        let prev = obs::set_quiet_panics(true);
        let stashed = catch_unwind(AssertUnwindSafe(|| stash(self.mc, setp, t.1)));
        obs::set_quiet_panics(prev);
        let stashed = match stashed {
            Ok(h) => h,
            Err(p) => {
                ex.violate("C14", "stash-panicked", format!("stash of object {} into set {} panicked: {}", t.0, s.0, obs::panic_message(&*p)));
                return;
            }
        };
        let Some(h) = stashed else {
            ex.cov.ops_skipped += 1;
            return;
        };
        // slot reuse: a vacant slot exists if some handle of this set died earlier while others live
        let dead_before = ex.model.handles.iter().any(|h| h.set == s.0 && !h.alive);
        let live_other = ex.model.handles.iter().any(|h| h.set == s.0 && h.alive);
        if dead_before && live_other {
            ex.cov.slot_reuse_live += 1;
        }
        if h.raw_addr() != t.1.addr() {
            ex.violate("C14", "handle-wrong-pointer", format!("handle for object {} holds address {:#x}", t.0, h.raw_addr()));
        }
        obs::untracked(|| {
            ex.handles.push(Some(h));
            ex.model.handles.push(MHandle { arena: self.arena, set: s.0, target: t.0, alive: true });
        });
        ex.has_stash = true;
        ex.cov.adoptions += 1;
        self.mutated = true;
        if ph != 0 {
            ex.cov.adopt_active[ph as usize] += 1;
            ex.cov.pending_active_adopt = true;
            ex.active_adoptions += 1;
            ex.cov.stash_active += 1;
        }
        *ex.cov.cells.entry((42, ph, pc, cc)).or_insert(0) += 1;
    }

    pub fn fetch(&mut self, ex: &mut Exec, handle: u8, set: Sel) {
        if ex.handles.is_empty() {
            ex.cov.ops_skipped += 1;
            return;
        }
        let hi = handle as usize % ex.handles.len();
        let Some(s) = self.operand_where(ex, set, |o| o.kind == Kind::Set) else {
            ex.cov.ops_skipped += 1;
            return;
        };
        let Ref::Set(setp, _) = s.1 else { unreachable!() };
        let mh = ex.model.handles[hi].clone();
        let Some(h) = ex.handles[hi].clone() else {
            ex.cov.ops_skipped += 1;
            return;
        };
        let own = mh.arena == self.arena && mh.set == s.0;
        if !own {
            ex.cov.foreign_fetch += 1;
        }
        let contains = h.contains(setp);
        if contains != own {
            ex.violate("C14", "contains-wrong", format!("set {} contains(handle {hi} issued by set {} of arena {}) = {contains}", s.0, mh.set, mh.arena));
        }
        let tf = h.try_fetch(setp);
        if tf.is_some() != own {
            ex.violate("C14", "try-fetch-wrong", format!("set {} try_fetch(handle {hi} issued by set {} of arena {}) is_ok = {}", s.0, mh.set, mh.arena, tf.is_some()));
        }
        let prev = obs::set_quiet_panics(true);
        let f = catch_unwind(AssertUnwindSafe(|| h.fetch(setp)));
        obs::set_quiet_panics(prev);
        match f {
            Ok(r) => {
                if !own {
                    ex.violate("C14", "fetch-foreign-accepted", format!("set {} fetch accepted handle {hi} issued by set {} of arena {}", s.0, mh.set, mh.arena));
                } else {
                    let want = ex.model.obj(mh.target).addr;
                    if r.addr() != want {
                        ex.violate("C14", "fetch-wrong-object", format!("handle {hi} fetched {:#x}, stashed object {} is at {want:#x}", r.addr(), mh.target));
                    } else if self.check_obj(ex, mh.target, r, "fetch", "C14") && !self.operands.iter().any(|(i, _)| *i == mh.target) {
                        self.operands.push((mh.target, r));
                    }
                }
            }
            Err(p) => {
                let m = obs::panic_message(&*p);
                if own {
                    ex.violate("C14", "fetch-own-panicked", format!("fetch of own handle {hi} panicked: {m}"));
                } else if !m.contains("mismatched root set") {
                    ex.violate("C14", "fetch-wrong-panic", format!("fetch of foreign handle panicked with: {m}"));
                }
            }
        }
        drop(h);
    }

    pub fn barrier_only(&mut self, ex: &mut Exec, variant: u8, parent: Sel, child: Sel) {
        let mc = self.mc;
        let Some(p) = self.operand_where(ex, parent, |o| o.kind != Kind::Set) else {
            ex.cov.ops_skipped += 1;
            return;
        };
        let Some(c) = self.operand_where(ex, child, |o| o.kind != Kind::Set) else {
            ex.cov.ops_skipped += 1;
            return;
        };
        let pe = p.1.erase().unwrap();
        let ce = c.1.erase().unwrap();
        let we = c.1.downgrade().unwrap().erase();
        let snap = mc.verif_snapshot();
        let ph = hook_phase(&snap);
        let pc = self.colour_of(&snap, p.0, ex);
        let cc = self.colour_of(&snap, c.0, ex);
        let v = variant % 8;
        self.mutated = true;
        match v {
            0 => mc.backward_barrier(pe, Some(ce)),
            1 => {
                mc.backward_barrier(pe, None);
                self.general_parents.push(p.0);
            }
            2 => {
                mc.forward_barrier(Some(pe), ce);
                self.fwd_marks += 1;
            }
            3 => {
                mc.forward_barrier(None, ce);
                self.fwd_marks += 1;
                self.general_children.push(c.0);
            }
            4 => mc.backward_barrier_weak(pe, we),
            5 => {
                mc.forward_barrier_weak(Some(pe), we);
                self.fwd_marks += 1;
            }
            6 => {
                mc.forward_barrier_weak(None, we);
                self.fwd_marks += 1;
            }
            _ => match p.1 {
                Ref::D(g) => {
                    let _ = Gc::write(mc, g);
                }
                Ref::L(g) => {
                    let _ = Gc::write(mc, g);
                }
                Ref::RB(g) => {
                    let _ = Gc::write(mc, g);
                }
                Ref::LS(g) => {
                    let _ = Gc::write(mc, g);
                }
                Ref::Str(g) => {
                    let _ = Gc::write(mc, g);
                }
                _ => {
                    mc.backward_barrier(pe, None);
                }
            },
        }
        *ex.cov.cells.entry((50 + v, ph, pc, cc)).or_insert(0) += 1;
        if (ph == 1 || ph == 2) && pc == 3 && v != 3 && v != 6 {
            if ex.model.obj(p.0).kind.needs_trace() {
                ex.cov.barrier_black_tracing += 1;
            } else {
                ex.cov.barrier_black_nontracing += 1;
            }
        }
    }

    pub fn poke_leaf(&mut self, ex: &mut Exec, target: Sel) {
        let Some(t) = self.operand_where(ex, target, |o| o.kind == Kind::L) else {
            ex.cov.ops_skipped += 1;
            return;
        };
        let snap = self.mc.verif_snapshot();
        let ph = hook_phase(&snap);
        let pc = self.colour_of(&snap, t.0, ex);
        self.mutated = true;
        if let Ref::L(g) = t.1 {
            let mut b = g.borrow_mut(self.mc);
            b.val = pattern_for(t.0);
        }
        *ex.cov.cells.entry((60, ph, pc, 6)).or_insert(0) += 1;
        if (ph == 1 || ph == 2) && pc == 3 {
            ex.cov.barrier_black_nontracing += 1;
        }
    }

    /// Grow a rooted chain: new node -> previous content of the root slot; root slot := new node.
    pub fn push(&mut self, ex: &mut Exec, slot: u8, dual: bool, kind: Kind) {
        if !self.root.writable() {
            ex.cov.ops_skipped += 1;
            return;
        }
        let s = slot as usize % ROOT_STRONG;
        let prev_id = ex.model.arenas[self.arena as usize].root_s[s];
        let prev: Option<(u32, Ref<'gc>)> = prev_id.and_then(|id| self.operands.iter().find(|(i, _)| *i == id).copied());
        // operand selectors that name exactly `prev` / the fresh leaf
        let sel_of = |env: &Self, id: u32| -> Sel {
            let n = env.operands.len();
            let ix = env.operands.iter().position(|(i, _)| *i == id).unwrap_or(0);
            // smallest byte b with (b * n) >> 8 == ix
            let b = (((ix << 8) + n - 1) / n.max(1)).min(255) as Sel;
            if b == 0 { 1 } else { b }
        };
        let node = if dual {
            let Some(leaf) = self.alloc(ex, Kind::L, [0, 0, 0], 0, 0) else { return };
            let lsel = sel_of(self, leaf.0);
            let psel = prev.map(|p| sel_of(self, p.0)).unwrap_or(0);
            // pair node: weak -> leaf (traced first), s[0] -> leaf, s[1] -> previous head
            let e = [lsel, if prev.is_some() { psel } else { 0 }, 0];
            self.alloc(ex, Kind::P, e, lsel, 0)
        } else {
            let k = if matches!(kind, Kind::D | Kind::R | Kind::RB | Kind::LB | Kind::OB | Kind::P) { kind } else { Kind::D };
            let psel = prev.map(|p| sel_of(self, p.0)).unwrap_or(0);
            self.alloc(ex, k, [if prev.is_some() { psel } else { 0 }, 0, 0], 0, 0)
        };
        let Some(node) = node else { return };
        if let RootMode::Rw(a, _) = &mut self.root {
            a.s[s] = Some(node.1);
        }
        obs::untracked(|| ex.model.arenas[self.arena as usize].root_s[s] = Some(node.0));
        self.note_adoption(ex, 40, None, Some(node.0));
    }

    pub fn temps(&mut self, ex: &mut Exec, n: u8) {
        for j in 0..(n % 5) {
            let kind = [Kind::LS, Kind::D, Kind::L, Kind::Str, Kind::R][j as usize % 5];
            if let Some(t) = self.alloc(ex, kind, [0, 0, 0], 0, 0) {
                self.temps.push(t);
            }
        }
    }

    pub fn read_all(&mut self, ex: &mut Exec) {
        self.walk(ex, "ReadAll");
        let locals: Vec<(u32, Ref<'gc>)> = self.operands[self.n_reach..].to_vec();
        for (id, r) in locals {
            self.check_obj(ex, id, r, "ReadAll(local)", "C03");
        }
    }

    /// Last thing in every callback: everything obtained during the callback is still valid.
    pub fn export(&self, ex: &mut Exec) {
        let st = CbStats {
            fwd_marks: self.fwd_marks,
            neg_adjust: self.neg_adjust,
            pos_adjust: self.pos_adjust,
            pacing_changed: self.pacing_changed,
            allocs: self.allocs,
            mutated: self.mutated,
            resurrected: self.resurrected.clone(),
            resurrected_dead: self.resurrected_dead,
            temps: self.temps.len() as u32,
            completed: true,
        };
        obs::untracked(|| ex.cb = st);
    }

    pub fn finish(&mut self, ex: &mut Exec) {
        self.export(ex);
        let temps = self.temps.clone();
        for (id, r) in temps {
            self.check_obj(ex, id, r, "temporary at callback end", "C03");
            // a weak pointer to a fresh object upgrades unless the arena is sweeping
            if let Some(w) = r.downgrade() {
                if !w.is_dropped() {
                    let _ = w.upgrade(self.mc);
                } else {
                    ex.violate("C03", "temp-dropped", format!("temporary {id} reports is_dropped inside the callback that allocated it"));
                }
            }
        }
        let locals: Vec<(u32, Ref<'gc>)> = self.operands[self.n_reach..].to_vec();
        for (id, r) in locals {
            self.check_obj(ex, id, r, "local at callback end", "C03");
        }
    }

    pub fn run_ops(&mut self, ex: &mut Exec, ops: &[MutOp], panic_at: Option<u8>) {
        for (i, op) in ops.iter().enumerate() {
            if let Some(k) = panic_at {
                if k as usize == i {
                    self.finish(ex);
                    ex.fault_injected = true;
                    ex.cov.faults_callback += 1;
                    obs::set_ctx(obs::Ctx::FailedCtor);
                    std::panic::panic_any(obs::CALLBACK_PANIC);
                }
            }
            ex.cov.ops += 1;
            self.run_op(ex, op);
        }
        if let Some(k) = panic_at {
            if k as usize >= ops.len() {
                self.finish(ex);
                ex.fault_injected = true;
                ex.cov.faults_callback += 1;
                obs::set_ctx(obs::Ctx::FailedCtor);
                std::panic::panic_any(obs::CALLBACK_PANIC);
            }
        }
        self.finish(ex);
    }

    pub fn run_op(&mut self, ex: &mut Exec, op: &MutOp) {
        match op {
            MutOp::Alloc { kind, edges, wedge, len } => {
                self.alloc(ex, *kind, *edges, *wedge, *len);
            }
            MutOp::Link { parent, slot, child, variant } => self.link(ex, *parent, *slot, *child, *variant),
            MutOp::LinkWeak { parent, slot, child, variant } => self.link_weak(ex, *parent, *slot, *child, *variant),
            MutOp::RootSet { slot, child } => self.root_set(ex, *slot, *child),
            MutOp::RootWeak { slot, child } => self.root_weak(ex, *slot, *child),
            MutOp::Upgrade { holder, wslot, store } => self.upgrade(ex, *holder, *wslot, *store),
            MutOp::IsDropped { holder, wslot } => self.is_dropped(ex, *holder, *wslot),
            MutOp::IsDead { holder, wslot } => crate::fin::is_dead(self, ex, *holder, *wslot),
            MutOp::Resurrect { holder, wslot, strong } => crate::fin::resurrect(self, ex, *holder, *wslot, *strong),
            MutOp::FinalizeScan => crate::fin::scan(self, ex),
            MutOp::Stash { set, target } => self.stash(ex, *set, *target),
            MutOp::Fetch { handle, set } => self.fetch(ex, *handle, *set),
            MutOp::BarrierOnly { variant, parent, child } => self.barrier_only(ex, *variant, *parent, *child),
            MutOp::Temps { n } => self.temps(ex, *n),
            MutOp::ReadAll => self.read_all(ex),
            MutOp::AdjustDebt { x } => {
                if ex.opts.c09 && *x < 0.0 {
                    ex.cov.ops_skipped += 1;
                    return;
                }
                self.mc.metrics().adjust_debt(*x);
                if *x < 0.0 {
                    self.neg_adjust += *x;
                } else {
                    self.pos_adjust += *x;
                }
            }
            MutOp::SetPacing { preset } => {
                self.mc.metrics().set_pacing(pacing_preset(*preset));
                self.pacing_changed = true;
                obs::untracked(|| ex.model.arenas[self.arena as usize].preset = *preset);
            }
            MutOp::PokeLeaf { target } => self.poke_leaf(ex, *target),
            MutOp::Push { slot, dual, kind } => self.push(ex, *slot, *dual, *kind),
            MutOp::Convert { target, chain, store } => crate::convert::convert(self, ex, *target, *chain, *store),
        }
    }

    pub fn weak_holder_pub(&self, ex: &Exec, holder: Sel, wslot: u8) -> Option<(Option<u32>, u32, WeakRef<'gc>)> {
        self.weak_holder(ex, holder, wslot)
    }

    pub fn link_resolved_pub(&mut self, ex: &mut Exec, p: (u32, Ref<'gc>), slot: u8, c: Option<(u32, Ref<'gc>)>, variant: u8) -> bool {
        self.link_resolved(ex, p, slot, c, variant)
    }

    pub fn operand_where_pub(&self, ex: &Exec, sel: Sel, pred: impl Fn(&MObj) -> bool) -> Option<(u32, Ref<'gc>)> {
        self.operand_where(ex, sel, pred)
    }

    pub fn check_obj_pub(&self, ex: &mut Exec, id: u32, r: Ref<'gc>, how: &str, prop: &'static str) -> bool {
        self.check_obj(ex, id, r, how, prop)
    }
}
