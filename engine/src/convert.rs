//! Pointer conversion chains (C19) inside histories: the converted pointer must be the same object
//! for the collector (identity checks here; survival / single destruction via the C01/C02/C04
//! oracles once the converted pointer is the only one stored).

use gc_arena::{Gc, GcWeak, unsize};

use crate::env::Env;
use crate::exec::Exec;
use crate::heap::*;
use crate::lang::*;

fn same<'gc>(ex: &mut Exec, what: &str, id: u32, a: Ref<'gc>, b: Ref<'gc>) -> bool {
    let ok = a.addr() == b.addr() && a.ptr_eq(b);
    if !ok {
        ex.violate("C19", "conversion-moved", format!("{what}: object {id}: {:#x} became {:#x}", a.addr(), b.addr()));
    }
    ok
}

pub fn convert<'gc, 'r>(env: &mut Env<'gc, 'r>, ex: &mut Exec, target: Sel, chain: u8, store: Option<(Sel, u8, u8)>) {
    let Some((id, r)) = env.operand_where_pub(ex, target, |o| o.kind != Kind::Set) else {
        ex.cov.ops_skipped += 1;
        return;
    };
    ex.cov.convert_ops += 1;
    let mc = env.mc;
    let mut out: Ref<'gc> = r;
    match chain % 8 {
        0 => {
            // erase: same address, ptr_eq on the erased forms
            let e = r.erase().unwrap();
            if Gc::as_ptr(e) as usize != r.addr() {
                ex.violate("C19", "erase-moved", format!("erase: object {id}: {:#x} became {:#x}", r.addr(), Gc::as_ptr(e) as usize));
            }
            let w = GcWeak::erase(r.downgrade().unwrap().erase());
            if w.as_ptr() as usize != r.addr() {
                ex.violate("C19", "erase-moved", format!("weak erase: object {id} moved"));
            }
        }
        1 => {
            // downgrade / upgrade
            let w = r.downgrade().unwrap();
            if w.addr() != r.addr() {
                ex.violate("C19", "downgrade-moved", format!("downgrade: object {id} moved"));
            }
            match w.upgrade(mc) {
                Some(u) => {
                    if same(ex, "downgrade/upgrade", id, r, u) {
                        out = u;
                    }
                }
                None => {
                    // a strongly held (or freshly allocated) target must upgrade in every phase
                    ex.violate("C05", "upgrade-spurious-fail", format!("upgrade of held object {id} failed"));
                }
            }
        }
        2 => {
            // raw pointer round trip
            out = unsafe {
                match r {
                    Ref::D(g) => Ref::D(Gc::from_ptr(Gc::as_ptr(g))),
                    Ref::R(g) => Ref::R(Gc::from_ptr(Gc::as_ptr(g))),
                    Ref::L(g) => Ref::L(Gc::from_ptr(Gc::as_ptr(g))),
                    Ref::LS(g) => Ref::LS(Gc::from_ptr(Gc::as_ptr(g))),
                    Ref::LB(g) => Ref::LB(Gc::from_ptr(Gc::as_ptr(g))),
                    Ref::RB(g) => Ref::RB(Gc::from_ptr(Gc::as_ptr(g))),
                    Ref::OB(g) => Ref::OB(Gc::from_ptr(Gc::as_ptr(g))),
                    Ref::Sl(g) => Ref::Sl(Gc::from_ptr_with_kind(Gc::as_ptr(g))),
                    Ref::TSl(g) => Ref::TSl(Gc::from_ptr_with_kind(Gc::as_ptr(g))),
                    Ref::SH(g) => Ref::SH(Gc::from_ptr_with_kind(Gc::as_ptr(g))),
                    Ref::TSH(g) => Ref::TSH(Gc::from_ptr_with_kind(Gc::as_ptr(g))),
                    Ref::Str(g) => Ref::Str(Gc::from_ptr_with_kind(Gc::as_ptr(g))),
                    Ref::TStr(g) => Ref::TStr(Gc::from_ptr_with_kind(Gc::as_ptr(g))),
                    Ref::Dyn(g) => Ref::Dyn(Gc::from_ptr(Gc::as_ptr(g))),
                    Ref::Arr(g) => Ref::Arr(Gc::from_ptr(Gc::as_ptr(g))),
                    Ref::P(g) => Ref::P(Gc::from_ptr(Gc::as_ptr(g))),
                    Ref::DB(g) => Ref::DB(Gc::from_ptr(Gc::as_ptr(g))),
                    Ref::NT(g) => Ref::NT(Gc::from_ptr(Gc::as_ptr(g))),
                    Ref::HSl(g) => Ref::HSl(Gc::from_ptr_with_kind(Gc::as_ptr(g))),
                    Ref::Set(..) => r,
                }
            };
            same(ex, "as_ptr/from_ptr", id, r, out);
        }
        3 => {
            // thin <-> fat: address and length metadata preserved
            out = match r {
                Ref::Sl(g) => {
                    let t = Gc::as_thin(g);
                    if t.len() != g.len() {
                        ex.violate("C19", "thin-length", format!("as_thin: slice {id} length {} became {}", g.len(), t.len()));
                    }
                    Ref::TSl(t)
                }
                Ref::TSl(g) => {
                    let f = Gc::as_fat(g);
                    if f.len() != g.len() {
                        ex.violate("C19", "thin-length", format!("as_fat: slice {id} length {} became {}", g.len(), f.len()));
                    }
                    Ref::Sl(f)
                }
                Ref::SH(g) => {
                    let t = Gc::as_thin(g);
                    if t.slice.len() != g.slice.len() || Gc::as_thin_ptr(t) as usize != r.addr() {
                        ex.violate("C19", "thin-length", format!("as_thin: slice-with-header {id} changed"));
                    }
                    Ref::TSH(t)
                }
                Ref::TSH(g) => {
                    let f = Gc::as_fat(g);
                    if f.slice.len() != g.slice.len() {
                        ex.violate("C19", "thin-length", format!("as_fat: slice-with-header {id} changed"));
                    }
                    Ref::SH(f)
                }
                Ref::Str(g) => {
                    let t = Gc::as_thin(g);
                    if *t != *g {
                        ex.violate("C19", "thin-length", format!("as_thin: str {id} changed"));
                    }
                    Ref::TStr(t)
                }
                Ref::TStr(g) => {
                    let f = Gc::as_fat(g);
                    if *f != *g {
                        ex.violate("C19", "thin-length", format!("as_fat: str {id} changed"));
                    }
                    Ref::Str(f)
                }
                other => other,
            };
            same(ex, "thin/fat", id, r, out);
        }
        4 => {
            // unsize! / erase_kind
            out = match r {
                Ref::D(g) => Ref::Dyn(unsize!(g => dyn NodeLike<'gc>)),
                Ref::Sl(g) => {
                    let e = Gc::erase_kind(g);
                    if e.len() != g.len() {
                        ex.violate("C19", "erase-kind-length", format!("erase_kind: slice {id} length changed"));
                    }
                    Ref::Arr(e)
                }
                other => other,
            };
            same(ex, "unsize/erase_kind", id, r, out);
        }
        5 => {
            // cast: to () it is erase; from the erased pointer back to the original type it is the same object
            out = unsafe {
                match r {
                    Ref::D(g) => {
                        let e: Gc<'gc, ()> = Gc::cast::<()>(g);
                        if !Gc::ptr_eq(e, Gc::erase(g)) {
                            ex.violate("C19", "cast-moved", format!("cast::<()>: object {id} is not ptr_eq to its erased form"));
                        }
                        Ref::D(Gc::cast::<DNode<'gc>>(e))
                    }
                    Ref::R(g) => Ref::R(Gc::cast::<RNode<'gc>>(Gc::erase(g))),
                    Ref::P(g) => Ref::P(Gc::cast::<PNode<'gc>>(Gc::cast::<()>(g))),
                    Ref::DB(g) => Ref::DB(Gc::cast::<DynBox<'gc>>(Gc::erase(g))),
                    other => other,
                }
            };
            same(ex, "cast round trip", id, r, out);
            // the weak forms
            let w = r.downgrade().unwrap();
            let back = unsafe {
                match w {
                    WeakRef::D(g) => WeakRef::D(GcWeak::cast::<DNode<'gc>>(GcWeak::cast::<()>(g))),
                    WeakRef::R(g) => WeakRef::R(GcWeak::from_ptr_with_kind(g.as_ptr())),
                    WeakRef::P(g) => WeakRef::P(GcWeak::cast::<PNode<'gc>>(GcWeak::erase(g))),
                    other => other,
                }
            };
            if back.addr() != r.addr() {
                ex.violate("C19", "weak-conversion-moved", format!("weak cast round trip: object {id} moved"));
            }
        }
        6 => {
            // thin pointers: the thin reference and the raw thin pointer are the value's address, and the
            // raw thin round trip reconstructs the length
            out = unsafe {
                match r {
                    Ref::TSl(g) => {
                        let back = Gc::from_thin_ptr_with_kind(Gc::as_thin_ptr(g));
                        if Gc::as_thin_ref(g) as *const _ as *const () as usize != r.addr() || Gc::as_thin_ptr(g) as *const () as usize != r.addr() {
                            ex.violate("C19", "thin-address", format!("as_thin_ref / as_thin_ptr: thin slice {id} is not at its own address"));
                        }
                        let back: gc_arena::GcThinSlice<'gc, Slot<'gc>> = back;
                        if back.len() != g.len() {
                            ex.violate("C19", "thin-length", format!("from_thin_ptr_with_kind: slice {id} length {} became {}", g.len(), back.len()));
                        }
                        Ref::TSl(back)
                    }
                    Ref::TSH(g) => {
                        let back: gc_arena::GcThinSliceWithHeader<'gc, Hdr, Slot<'gc>> = Gc::from_thin_ptr_with_kind(Gc::as_thin_ptr(g));
                        if Gc::as_thin_ref(g) as *const _ as *const () as usize != r.addr() {
                            ex.violate("C19", "thin-address", format!("as_thin_ref: thin slice-with-header {id} is not at its own address"));
                        }
                        if back.slice.len() != g.slice.len() || back.header.tok.id != g.header.tok.id {
                            ex.violate("C19", "thin-length", format!("from_thin_ptr_with_kind: slice-with-header {id} changed"));
                        }
                        Ref::TSH(back)
                    }
                    Ref::TStr(g) => {
                        let back: gc_arena::GcThinStr<'gc> = Gc::from_thin_ptr_with_kind(Gc::as_thin_ptr(g));
                        if *back != *g {
                            ex.violate("C19", "thin-length", format!("from_thin_ptr_with_kind: str {id} changed"));
                        }
                        Ref::TStr(back)
                    }
                    // fat unsized kinds go to thin first
                    Ref::Sl(g) => Ref::TSl(Gc::from_thin_ptr_with_kind(Gc::as_thin_ptr(Gc::as_thin(g)))),
                    Ref::SH(g) => Ref::TSH(Gc::from_thin_ptr_with_kind(Gc::as_thin_ptr(Gc::as_thin(g)))),
                    Ref::Str(g) => Ref::TStr(Gc::from_thin_ptr_with_kind(Gc::as_thin_ptr(Gc::as_thin(g)))),
                    other => other,
                }
            };
            same(ex, "raw thin round trip", id, r, out);
            if out.strong().len() != r.strong().len() {
                ex.violate("C19", "thin-length", format!("raw thin round trip: object {id} has {} slots, had {}", out.strong().len(), r.strong().len()));
            }
        }
        _ => {
            // weak unsize + weak raw round trip
            let w = r.downgrade().unwrap();
            let w2 = match w {
                WeakRef::D(g) => WeakRef::Dyn(unsize!(g => dyn NodeLike<'gc>)),
                WeakRef::R(g) => unsafe { WeakRef::R(GcWeak::from_ptr(g.as_ptr())) },
                other => other,
            };
            if w2.addr() != r.addr() {
                ex.violate("C19", "weak-conversion-moved", format!("weak conversion: object {id} moved"));
            }
            if let Some(u) = w2.upgrade(mc) {
                if same(ex, "weak conversion + upgrade", id, r, u) {
                    out = u;
                }
            }
        }
    }
    if !env.check_obj_pub(ex, id, out, "converted pointer", "C19") {
        return;
    }
    env.operands.push((id, out));
    if let Some((ps, slot, variant)) = store {
        if let Some(p) = env.operand_where_pub(ex, ps, |o| o.kind.mutable_strong() > 0) {
            env.link_resolved_pub(ex, p, slot, Some((id, out)), variant);
        }
    }
}
