//! C15: derive(Collect) traces every field of the active variant and rejects unsound uses.
//! Generated type shapes are rendered into Rust programs, compiled against the current library and run.

use proptest::prelude::*;

pub const PRELUDE: &str = r#"#![allow(unused, dead_code, non_camel_case_types)]
use gc_arena::{Arena, Collect, Gc, GcWeak, Mutation, Rootable};
use gc_arena::collect::Trace;
use gc_arena::lock::{Lock, RefLock};
use std::cell::Cell;
use std::marker::PhantomData;

thread_local! { static LOUD: Cell<u32> = Cell::new(0); }
/// 'static, but announces when it is traced and claims NEEDS_TRACE = true.
pub struct Loud;
unsafe impl<'gc> Collect<'gc> for Loud {
    const NEEDS_TRACE: bool = true;
    fn trace<T: Trace<'gc>>(&self, _cc: &mut T) { LOUD.with(|l| l.set(l.get() + 1)); }
}
/// 'static and not Collect at all
pub struct NoImpl(u8);

#[derive(Default)]
pub struct Rec { strong: Vec<usize>, weak: Vec<usize> }
impl<'gc> Trace<'gc> for Rec {
    fn trace_gc(&mut self, gc: Gc<'gc, ()>) { self.strong.push(Gc::as_ptr(gc) as usize); }
    fn trace_gc_weak(&mut self, gc: GcWeak<'gc, ()>) { self.weak.push(gc.as_ptr() as usize); }
}
#[derive(Default)]
pub struct Exp { strong: Vec<usize>, weak: Vec<usize>, loud: u32 }
impl Exp {
    fn s<'gc>(&mut self, mc: &Mutation<'gc>) -> Gc<'gc, u32> { let g = Gc::new(mc, 1u32); self.strong.push(Gc::as_ptr(g) as usize); g }
    fn w<'gc>(&mut self, mc: &Mutation<'gc>) -> GcWeak<'gc, u32> { let g = Gc::new(mc, 2u32); self.weak.push(Gc::as_ptr(g) as usize); Gc::downgrade(g) }
    fn loud(&mut self) -> Loud { self.loud += 1; Loud }
    /// a value in a field the derive must skip: nothing is expected from it
    fn quiet_loud(&mut self) -> Loud { Loud }
}
fn verdict<'gc, C: Collect<'gc>>(what: &str, val: &C, mut exp: Exp, needs_trace: bool, fails: &mut Vec<String>) {
    let mut rec = Rec::default();
    let l0 = LOUD.with(|l| l.get());
    val.trace(&mut rec);
    let l1 = LOUD.with(|l| l.get());
    rec.strong.sort(); rec.weak.sort(); exp.strong.sort(); exp.weak.sort();
    if rec.strong != exp.strong { fails.push(format!("{what}: derived trace reported {} strong pointers, the value holds {} in traced fields", rec.strong.len(), exp.strong.len())); }
    if rec.weak != exp.weak { fails.push(format!("{what}: derived trace reported {} weak pointers, the value holds {} in traced fields", rec.weak.len(), exp.weak.len())); }
    if l1 - l0 != exp.loud { fails.push(format!("{what}: {} announcing fields were traced, expected {}", l1 - l0, exp.loud)); }
    if C::NEEDS_TRACE != needs_trace { fails.push(format!("{what}: NEEDS_TRACE is {}, the traced field types say {}", C::NEEDS_TRACE, needs_trace)); }
}
"#;

#[derive(Clone, Debug)]
pub enum Ty {
    Gc,
    Weak,
    U32,
    Str,
    Loud,
    NoImpl,
    Opt(Box<Ty>),
    Vec(Box<Ty>),
    Tup(Box<Ty>, Box<Ty>),
    Arr(Box<Ty>),
    /// one-element array
    Arr1(Box<Ty>),
    /// `Option<Gc<'gc, Self>>` (always `None` in the generated values)
    GcSelf,
    BoxT(Box<Ty>),
    LockOptGc,
    RefLockVec(Box<Ty>),
    Param(usize),
    Nested(usize),
}

/// how a type parameter is instantiated in one check
#[derive(Clone, Copy, Debug, PartialEq)]
pub enum Inst {
    U8,
    Gc,
    OptWeak,
}

impl Inst {
    fn ty(self, lt: &str) -> String {
        match self {
            Inst::U8 => "u8".into(),
            Inst::Gc => format!("Gc<{lt}, u32>"),
            Inst::OptWeak => format!("Option<GcWeak<{lt}, u32>>"),
        }
    }
    fn val(self) -> &'static str {
        match self {
            Inst::U8 => "7u8",
            Inst::Gc => "e.s(mc)",
            Inst::OptWeak => "Some(e.w(mc))",
        }
    }
    fn nt(self) -> bool {
        self != Inst::U8
    }
}

impl Ty {
    pub fn is_static(&self) -> bool {
        match self {
            Ty::U32 | Ty::Str | Ty::Loud | Ty::NoImpl => true,
            Ty::Opt(t) | Ty::Vec(t) | Ty::Arr(t) | Ty::Arr1(t) | Ty::BoxT(t) => t.is_static(),
            Ty::Tup(a, b) => a.is_static() && b.is_static(),
            _ => false,
        }
    }
    fn mentions_gc(&self) -> bool {
        match self {
            Ty::Gc | Ty::Weak | Ty::LockOptGc | Ty::GcSelf => true,
            Ty::Opt(t) | Ty::Vec(t) | Ty::Arr(t) | Ty::Arr1(t) | Ty::BoxT(t) | Ty::RefLockVec(t) => t.mentions_gc(),
            Ty::Tup(a, b) => a.mentions_gc() || b.mentions_gc(),
            Ty::Nested(_) => true,
            _ => false,
        }
    }
    fn render(&self, lt: &str) -> String {
        match self {
            Ty::Gc => format!("Gc<{lt}, u32>"),
            Ty::GcSelf => format!("Option<Gc<{lt}, Self>>"),
            Ty::Weak => format!("GcWeak<{lt}, u32>"),
            Ty::U32 => "u32".into(),
            Ty::Str => "String".into(),
            Ty::Loud => "Loud".into(),
            Ty::NoImpl => "NoImpl".into(),
            Ty::Opt(t) => format!("Option<{}>", t.render(lt)),
            Ty::Vec(t) => format!("Vec<{}>", t.render(lt)),
            Ty::Tup(a, b) => format!("({}, {})", a.render(lt), b.render(lt)),
            Ty::Arr(t) => format!("[{}; 2]", t.render(lt)),
            Ty::Arr1(t) => format!("[{}; 1]", t.render(lt)),
            Ty::BoxT(t) => format!("Box<{}>", t.render(lt)),
            Ty::LockOptGc => format!("Lock<Option<Gc<{lt}, u32>>>"),
            Ty::RefLockVec(t) => format!("RefLock<Vec<{}>>", t.render(lt)),
            Ty::Param(i) => format!("T{i}"),
            Ty::Nested(j) => format!("N{j}<{lt}>"),
        }
    }
    /// expression building a value; `traced` = the field takes part in tracing
    fn value(&self, inst: &[Inst], traced: bool) -> String {
        match self {
            Ty::Gc => "e.s(mc)".into(),
            Ty::GcSelf => "None".into(),
            Ty::Weak => "e.w(mc)".into(),
            Ty::U32 => "5u32".into(),
            Ty::Str => "String::from(\"x\")".into(),
            Ty::Loud => if traced { "e.loud()".into() } else { "e.quiet_loud()".into() },
            Ty::NoImpl => "NoImpl(1)".into(),
            Ty::Opt(t) => format!("Some({})", t.value(inst, traced)),
            Ty::Vec(t) => format!("vec![{}, {}]", t.value(inst, traced), t.value(inst, traced)),
            Ty::Tup(a, b) => format!("({}, {})", a.value(inst, traced), b.value(inst, traced)),
            Ty::Arr(t) => format!("[{}, {}]", t.value(inst, traced), t.value(inst, traced)),
            Ty::Arr1(t) => format!("[{}]", t.value(inst, traced)),
            Ty::BoxT(t) => format!("Box::new({})", t.value(inst, traced)),
            Ty::LockOptGc => "Lock::new(Some(e.s(mc)))".into(),
            Ty::RefLockVec(t) => format!("RefLock::new(vec![{}])", t.value(inst, traced)),
            Ty::Param(i) => inst[*i].val().into(),
            Ty::Nested(j) => format!("mk_n{j}(mc, e)"),
        }
    }
    fn needs_trace(&self, inst: &[Inst], nested_nt: &[bool]) -> bool {
        match self {
            Ty::Gc | Ty::Weak | Ty::Loud | Ty::LockOptGc | Ty::GcSelf => true,
            Ty::U32 | Ty::Str | Ty::NoImpl => false,
            Ty::Opt(t) | Ty::Vec(t) | Ty::Arr(t) | Ty::Arr1(t) | Ty::BoxT(t) | Ty::RefLockVec(t) => t.needs_trace(inst, nested_nt),
            Ty::Tup(a, b) => a.needs_trace(inst, nested_nt) || b.needs_trace(inst, nested_nt),
            Ty::Param(i) => inst[*i].nt(),
            Ty::Nested(j) => nested_nt[*j],
        }
    }
}

#[derive(Clone, Debug)]
pub struct Field {
    pub ty: Ty,
    pub require_static: bool,
}

#[derive(Clone, Debug)]
pub enum Fields {
    Unit,
    Tuple(Vec<Field>),
    Named(Vec<Field>),
}

impl Fields {
    fn list(&self) -> &[Field] {
        match self {
            Fields::Unit => &[],
            Fields::Tuple(v) | Fields::Named(v) => v,
        }
    }
    fn list_mut(&mut self) -> Option<&mut Vec<Field>> {
        match self {
            Fields::Unit => None,
            Fields::Tuple(v) | Fields::Named(v) => Some(v),
        }
    }
    fn decl(&self, lt: &str, term: bool) -> String {
        let attr = |f: &Field| if f.require_static { "#[collect(require_static)] " } else { "" };
        match self {
            Fields::Unit => if term { ";".into() } else { String::new() },
            Fields::Tuple(v) => format!("({}){}", v.iter().map(|f| format!("{}{}", attr(f), f.ty.render(lt))).collect::<Vec<_>>().join(", "), if term { ";" } else { "" }),
            Fields::Named(v) => format!(" {{ {} }}", v.iter().enumerate().map(|(i, f)| format!("{}f{i}: {}", attr(f), f.ty.render(lt))).collect::<Vec<_>>().join(", ")),
        }
    }
    fn value(&self, inst: &[Inst], ty_traced: bool) -> String {
        match self {
            Fields::Unit => String::new(),
            Fields::Tuple(v) => format!("({})", v.iter().map(|f| f.ty.value(inst, ty_traced && !f.require_static)).collect::<Vec<_>>().join(", ")),
            Fields::Named(v) => format!(" {{ {} }}", v.iter().enumerate().map(|(i, f)| format!("f{i}: {}", f.ty.value(inst, ty_traced && !f.require_static))).collect::<Vec<_>>().join(", ")),
        }
    }
}

#[derive(Clone, Copy, Debug, PartialEq)]
pub enum Mode {
    NoDrop,
    UnsafeDrop,
    RequireStatic,
}

#[derive(Clone, Copy, Debug, PartialEq)]
pub enum Bound {
    Default,
    Explicit,
    EmptyWithWhere,
}

#[derive(Clone, Debug)]
pub enum Body {
    Struct(Fields),
    Enum(Vec<Fields>),
}

#[derive(Clone, Debug)]
pub struct Shape {
    pub body: Body,
    pub n_params: usize,
    pub bound: Bound,
    pub extra_lifetime: bool,
    pub mode: Mode,
    pub lt_name: &'static str,
}

impl Shape {
    fn variants(&self) -> Vec<&Fields> {
        match &self.body {
            Body::Struct(f) => vec![f],
            Body::Enum(v) => v.iter().collect(),
        }
    }
    fn all_fields(&self) -> Vec<&Field> {
        self.variants().into_iter().flat_map(|f| f.list().iter()).collect()
    }
    fn has_gc_lifetime(&self) -> bool {
        self.mode != Mode::RequireStatic && (self.extra_lifetime || self.all_fields().iter().any(|f| f.ty.mentions_gc()) || (self.n_params > 0 && self.bound == Bound::EmptyWithWhere))
    }
    pub fn class(&self) -> String {
        let k = match &self.body {
            Body::Struct(Fields::Unit) => "unit-struct".to_string(),
            Body::Struct(Fields::Tuple(_)) => "tuple-struct".into(),
            Body::Struct(Fields::Named(_)) => "named-struct".into(),
            Body::Enum(v) => format!("enum{}", v.len()),
        };
        let rs = self.all_fields().iter().filter(|f| f.require_static).count();
        format!("{k}|params{}|{:?}|{:?}|extra_lt={}|require_static_fields={}|fields={}", self.n_params, self.bound, self.mode, self.extra_lifetime, rs.min(2), self.all_fields().len().min(6))
    }
    /// make the definition well-formed for reasons unrelated to the derive: every type parameter
    /// and a declared gc lifetime must be used by some field
    pub fn fixup(&mut self) {
        let used: Vec<bool> = (0..self.n_params).map(|i| self.all_fields().iter().any(|f| uses_param(&f.ty, i))).collect();
        let mut add: Vec<Field> = used.iter().enumerate().filter(|(_, u)| !**u).map(|(i, _)| Field { ty: Ty::Param(i), require_static: false }).collect();
        if self.has_gc_lifetime() && !self.all_fields().iter().any(|f| f.ty.mentions_gc()) {
            add.push(Field { ty: Ty::Gc, require_static: false });
        }
        for f in add {
            let slot = match &mut self.body {
                Body::Struct(fs) => fs,
                Body::Enum(vs) => &mut vs[0],
            };
            match slot.list_mut() {
                Some(v) => v.push(f),
                None => *slot = Fields::Tuple(vec![f]),
            }
        }
    }

    /// a function that uses the Collect impl, so that conditional impls are actually demanded
    pub fn use_fn(&self, name: &str) -> String {
        let inst = vec![Inst::U8; self.n_params];
        format!("fn use_it<'gc>() {{ let _ = <{name}{} as Collect<'gc>>::NEEDS_TRACE; }}\n", self.generics_use("'gc", &inst))
    }

    pub fn nontrivial(&self) -> bool {
        let ptr_fields = self.all_fields().iter().filter(|f| !f.ty.is_static()).count();
        ptr_fields >= 2 || self.variants().len() >= 2
    }

    fn generics_decl(&self) -> String {
        let mut g: Vec<String> = Vec::new();
        if self.has_gc_lifetime() {
            g.push(self.lt_name.to_string());
        }
        if self.extra_lifetime {
            g.push("'a".into());
        }
        for i in 0..self.n_params {
            g.push(format!("T{i}"));
        }
        if g.is_empty() { String::new() } else { format!("<{}>", g.join(", ")) }
    }

    fn generics_use(&self, lt: &str, inst: &[Inst]) -> String {
        let mut g: Vec<String> = Vec::new();
        if self.has_gc_lifetime() {
            g.push(lt.to_string());
        }
        if self.extra_lifetime {
            g.push("'static".into());
        }
        for i in inst.iter().take(self.n_params) {
            g.push(i.ty(lt));
        }
        if g.is_empty() { String::new() } else { format!("<{}>", g.join(", ")) }
    }

    fn attr(&self) -> String {
        let mut parts: Vec<String> = vec![match self.mode {
            Mode::NoDrop => "no_drop".into(),
            Mode::UnsafeDrop => "unsafe_drop".into(),
            Mode::RequireStatic => "require_static".into(),
        }];
        let lt = self.lt_name;
        if self.n_params > 0 && self.mode != Mode::RequireStatic {
            match self.bound {
                Bound::Default => {}
                Bound::Explicit => parts.push(format!("bound = \"where {}\"", (0..self.n_params).map(|i| format!("T{i}: Collect<{}>", if self.has_gc_lifetime() { lt } else { "'gc" })).collect::<Vec<_>>().join(", "))),
                Bound::EmptyWithWhere => parts.push("bound = \"\"".into()),
            }
        }
        if self.extra_lifetime {
            parts.push(format!("gc_lifetime = {lt}"));
        }
        format!("#[collect({})]", parts.join(", "))
    }

    fn where_clause(&self) -> String {
        if self.n_params > 0 && self.bound == Bound::EmptyWithWhere && self.mode != Mode::RequireStatic {
            format!(" where {}", (0..self.n_params).map(|i| format!("T{i}: Collect<{}>", self.lt_name)).collect::<Vec<_>>().join(", "))
        } else {
            String::new()
        }
    }

    /// type definition named `name`
    pub fn decl(&self, name: &str, attr_override: Option<&str>, extra_items: &str) -> String {
        let lt = self.lt_name;
        let attr = attr_override.map(|s| s.to_string()).unwrap_or_else(|| self.attr());
        let gens = self.generics_decl();
        let wh = self.where_clause();
        let phantom = if self.extra_lifetime { Some("PhantomData<&'a ()>") } else { None };
        let mut s = format!("#[derive(Collect)]\n{attr}\n");
        match &self.body {
            Body::Struct(f) => {
                let mut f = f.clone();
                if let Some(p) = phantom {
                    // the extra lifetime has to be used somewhere
                    match &mut f {
                        Fields::Unit => f = Fields::Tuple(vec![]),
                        _ => {}
                    }
                    let _ = p;
                }
                let decl = match (&f, phantom) {
                    (Fields::Tuple(v), Some(p)) => format!("({}{}{p})", v.iter().map(|x| format!("{}{}", if x.require_static { "#[collect(require_static)] " } else { "" }, x.ty.render(lt))).collect::<Vec<_>>().join(", "), if v.is_empty() { "" } else { ", " }),
                    (Fields::Named(v), Some(p)) => format!(" {{ {}{}ph: {p} }}", v.iter().enumerate().map(|(i, x)| format!("{}f{i}: {}", if x.require_static { "#[collect(require_static)] " } else { "" }, x.ty.render(lt))).collect::<Vec<_>>().join(", "), if v.is_empty() { "" } else { ", " }),
                    (f, _) => f.decl(lt, false),
                };
                let tuple_like = matches!(f, Fields::Tuple(_) | Fields::Unit);
                if tuple_like {
                    s.push_str(&format!("pub struct {name}{gens}{decl}{wh};\n"));
                } else {
                    s.push_str(&format!("pub struct {name}{gens}{wh}{decl}\n"));
                }
            }
            Body::Enum(vs) => {
                s.push_str(&format!("pub enum {name}{gens}{wh} {{\n"));
                for (i, v) in vs.iter().enumerate() {
                    s.push_str(&format!("    V{i}{},\n", v.decl(lt, false)));
                }
                if let Some(p) = phantom {
                    s.push_str(&format!("    Ph({p}),\n"));
                }
                s.push_str("}\n");
            }
        }
        if self.mode == Mode::UnsafeDrop {
            s.push_str(&format!("impl{gens} Drop for {name}{gens}{wh} {{ fn drop(&mut self) {{}} }}\n"));
        }
        s.push_str(extra_items);
        s
    }

    fn value_expr(&self, name: &str, variant: usize, inst: &[Inst]) -> String {
        match &self.body {
            Body::Struct(f) => {
                if self.extra_lifetime {
                    match f {
                        Fields::Unit => format!("{name}(PhantomData)"),
                        Fields::Tuple(v) => format!("{name}({}{}PhantomData)", v.iter().map(|x| x.ty.value(inst, !x.require_static)).collect::<Vec<_>>().join(", "), if v.is_empty() { "" } else { ", " }),
                        Fields::Named(v) => format!("{name} {{ {}{}ph: PhantomData }}", v.iter().enumerate().map(|(i, x)| format!("f{i}: {}", x.ty.value(inst, !x.require_static))).collect::<Vec<_>>().join(", "), if v.is_empty() { "" } else { ", " }),
                    }
                } else {
                    format!("{name}{}", f.value(inst, self.mode != Mode::RequireStatic))
                }
            }
            Body::Enum(vs) => format!("{name}::V{variant}{}", vs[variant].value(inst, self.mode != Mode::RequireStatic)),
        }
    }

    /// NEEDS_TRACE as the statement defines it: true exactly when some traced field type's is
    fn expected_nt(&self, inst: &[Inst], nested_nt: &[bool]) -> bool {
        if self.mode == Mode::RequireStatic {
            return false;
        }
        self.all_fields().iter().any(|f| !f.require_static && f.ty.needs_trace(inst, nested_nt))
    }

    /// the check function for this shape
    pub fn check_fn(&self, idx: usize, name: &str, nested_nt: &[bool]) -> String {
        let mut s = format!("fn check_{idx}<'gc>(mc: &Mutation<'gc>, fails: &mut Vec<String>) {{\n");
        let insts: Vec<Vec<Inst>> = if self.n_params == 0 {
            vec![vec![]]
        } else {
            vec![vec![Inst::U8; self.n_params], (0..self.n_params).map(|i| if i % 2 == 0 { Inst::Gc } else { Inst::OptWeak }).collect(), (0..self.n_params).map(|i| if i == self.n_params - 1 { Inst::OptWeak } else { Inst::U8 }).collect()]
        };
        for inst in &insts {
            let nt = self.expected_nt(inst, nested_nt);
            let ty = format!("{name}{}", self.generics_use("'gc", inst));
            for v in 0..self.variants().len() {
                s.push_str(&format!(
                    "    {{ let mut ex = Exp::default(); let e = &mut ex; let val: {ty} = {}; verdict(\"shape {idx} ({name}) variant {v} inst {inst:?}\", &val, ex, {nt}, fails); }}\n",
                    self.value_expr(name, v, inst)
                ));
            }
        }
        s.push_str("}\n");
        s
    }
}

// ---------------------------------------------------------------------------------------------
// strategies

fn static_ty() -> BoxedStrategy<Ty> {
    let leaf = prop_oneof![3 => Just(Ty::U32), 2 => Just(Ty::Str), 2 => Just(Ty::Loud)];
    leaf.prop_recursive(2, 4, 2, |inner| prop_oneof![inner.clone().prop_map(|t| Ty::Opt(Box::new(t))), inner.clone().prop_map(|t| Ty::Vec(Box::new(t))), (inner.clone(), inner).prop_map(|(a, b)| Ty::Tup(Box::new(a), Box::new(b)))]).boxed()
}

fn any_ty(n_params: usize, n_nested: usize) -> BoxedStrategy<Ty> {
    let mut leaves: Vec<(u32, BoxedStrategy<Ty>)> = vec![(5, Just(Ty::Gc).boxed()), (4, Just(Ty::Weak).boxed()), (2, Just(Ty::U32).boxed()), (1, Just(Ty::Str).boxed()), (2, Just(Ty::Loud).boxed()), (2, Just(Ty::LockOptGc).boxed()), (2, Just(Ty::GcSelf).boxed())];
    if n_params > 0 {
        leaves.push((5, (0..n_params).prop_map(Ty::Param).boxed()));
    }
    if n_nested > 0 {
        leaves.push((3, (0..n_nested).prop_map(Ty::Nested).boxed()));
    }
    let leaf = proptest::strategy::Union::new_weighted(leaves);
    leaf.prop_recursive(3, 8, 2, |inner| {
        prop_oneof![
            inner.clone().prop_map(|t| Ty::Opt(Box::new(t))),
            inner.clone().prop_map(|t| Ty::Vec(Box::new(t))),
            (inner.clone(), inner.clone()).prop_map(|(a, b)| Ty::Tup(Box::new(a), Box::new(b))),
            inner.clone().prop_map(|t| Ty::Arr(Box::new(t))),
            inner.clone().prop_map(|t| Ty::Arr1(Box::new(t))),
            inner.clone().prop_map(|t| Ty::BoxT(Box::new(t))),
            inner.prop_map(|t| Ty::RefLockVec(Box::new(t))),
        ]
    })
    .boxed()
}

fn field(n_params: usize, n_nested: usize, all_static: bool) -> BoxedStrategy<Field> {
    if all_static {
        prop_oneof![4 => static_ty().prop_map(|ty| Field { ty, require_static: false }), 1 => Just(Field { ty: Ty::NoImpl, require_static: false })].boxed()
    } else {
        prop_oneof![
            8 => any_ty(n_params, n_nested).prop_map(|ty| Field { ty, require_static: false }),
            2 => static_ty().prop_map(|ty| Field { ty, require_static: true }),
            1 => Just(Field { ty: Ty::NoImpl, require_static: true }),
        ]
        .boxed()
    }
}

fn fields(n_params: usize, n_nested: usize, all_static: bool) -> BoxedStrategy<Fields> {
    let v = proptest::collection::vec(field(n_params, n_nested, all_static), 0..=5);
    prop_oneof![1 => Just(Fields::Unit), 4 => v.clone().prop_map(Fields::Tuple), 5 => v.prop_map(Fields::Named)].boxed()
}

pub fn shape_strategy(n_nested: usize) -> BoxedStrategy<Shape> {
    (0usize..=2, prop_oneof![6 => Just(Mode::NoDrop), 2 => Just(Mode::UnsafeDrop), 1 => Just(Mode::RequireStatic)], prop_oneof![3 => Just(Bound::Default), 2 => Just(Bound::Explicit), 1 => Just(Bound::EmptyWithWhere)], proptest::bool::weighted(0.15), any::<bool>())
        .prop_flat_map(move |(n_params, mode, bound, extra, foo)| {
            let all_static = mode == Mode::RequireStatic;
            let n_params = if all_static { 0 } else { n_params };
            let body = prop_oneof![3 => fields(n_params, n_nested, all_static).prop_map(Body::Struct), 2 => proptest::collection::vec(fields(n_params, n_nested, all_static), 1..=5).prop_map(Body::Enum)];
            body.prop_map(move |body| {
                let mut sh = Shape { body, n_params, bound, extra_lifetime: extra && !all_static, mode, lt_name: if foo { "'foo" } else { "'gc" } };
                sh.fixup();
                return sh;
                #[allow(unreachable_code)]
                // every type parameter must be used, or rustc rejects the definition for an unrelated reason
                let used: Vec<bool> = (0..sh.n_params).map(|i| sh.all_fields().iter().any(|f| uses_param(&f.ty, i))).collect();
                for (i, u) in used.iter().enumerate() {
                    if !u {
                        let f = Field { ty: Ty::Param(i), require_static: false };
                        match &mut sh.body {
                            Body::Struct(fs) => match fs.list_mut() {
                                Some(v) => v.push(f),
                                None => *fs = Fields::Tuple(vec![f]),
                            },
                            Body::Enum(vs) => match vs[0].list_mut() {
                                Some(v) => v.push(f),
                                None => vs[0] = Fields::Tuple(vec![f]),
                            },
                        }
                    }
                }
                // a declared gc lifetime must be used by some field
                if sh.has_gc_lifetime() && !sh.all_fields().iter().any(|f| f.ty.mentions_gc()) {
                    let f = Field { ty: Ty::Gc, require_static: false };
                    match &mut sh.body {
                        Body::Struct(fs) => match fs.list_mut() {
                            Some(v) => v.push(f),
                            None => *fs = Fields::Tuple(vec![f]),
                        },
                        Body::Enum(vs) => match vs[0].list_mut() {
                            Some(v) => v.push(f),
                            None => vs[0] = Fields::Tuple(vec![f]),
                        },
                    }
                }
                sh
            })
        })
        .boxed()
}

fn uses_param(t: &Ty, i: usize) -> bool {
    match t {
        Ty::Param(j) => *j == i,
        Ty::Opt(t) | Ty::Vec(t) | Ty::Arr(t) | Ty::Arr1(t) | Ty::BoxT(t) | Ty::RefLockVec(t) => uses_param(t, i),
        Ty::Tup(a, b) => uses_param(a, i) || uses_param(b, i),
        _ => false,
    }
}

/// Fixed nested types other shapes can embed (non-generic, with a gc lifetime).
pub fn nested_items() -> (String, Vec<bool>) {
    let items = r#"
#[derive(Collect)]
#[collect(no_drop)]
pub struct N0<'gc> { a: Gc<'gc, u32>, b: Option<GcWeak<'gc, u32>> }
fn mk_n0<'gc>(mc: &Mutation<'gc>, e: &mut Exp) -> N0<'gc> { N0 { a: e.s(mc), b: Some(e.w(mc)) } }
#[derive(Collect)]
#[collect(no_drop)]
pub enum N1<'gc> { A(u32), B { x: Gc<'gc, u32> } }
fn mk_n1<'gc>(mc: &Mutation<'gc>, e: &mut Exp) -> N1<'gc> { N1::A(3) }
#[derive(Collect)]
#[collect(no_drop)]
pub struct N2<'gc>(PhantomData<Gc<'gc, u32>>, u32);
fn mk_n2<'gc>(mc: &Mutation<'gc>, e: &mut Exp) -> N2<'gc> { N2(PhantomData, 1) }
"#;
    (items.to_string(), vec![true, true, false])
}

/// A whole program checking the given shapes.
pub fn batch_program(shapes: &[(usize, Shape)]) -> String {
    let (nested, nested_nt) = nested_items();
    let mut s = format!("{PRELUDE}\n{nested}\n");
    for (idx, sh) in shapes {
        let name = format!("S{idx}");
        s.push_str(&sh.decl(&name, None, ""));
        s.push_str(&sh.check_fn(*idx, &name, &nested_nt));
    }
    s.push_str("fn main() {\n    let mut fails: Vec<String> = Vec::new();\n    gc_arena::arena::rootless_mutate(|mc| {\n");
    for (idx, _) in shapes {
        s.push_str(&format!("        check_{idx}(mc, &mut fails);\n"));
    }
    s.push_str("    });\n    for f in &fails { println!(\"FAIL {f}\"); }\n    if fails.is_empty() { println!(\"OK\"); } else { std::process::exit(3); }\n}\n");
    s
}

// ---------------------------------------------------------------------------------------------
// rejection probes: (class, defective program, defect-free twin)

pub fn reject_probes(shapes: &[Shape], picks: &[usize]) -> Vec<(String, String, String)> {
    let (nested, _) = nested_items();
    let mut out = Vec::new();
    let wrap = |decl: String| format!("{PRELUDE}\n{nested}\n{decl}\nfn main() {{}}\n");
    let wrap_use = |sh: &Shape| format!("{PRELUDE}\n{nested}\n{}\n{}\nfn main() {{}}\n", sh.decl("T", None, ""), sh.use_fn("T"));
    for (k, sh) in shapes.iter().enumerate() {
        let pick = picks[k % picks.len().max(1)];
        let twin = wrap(sh.decl("T", None, ""));
        let nf = sh.all_fields().len();
        match k % 13 {
            10 => {
                // a second mode after the other options
                let a = sh.attr().replace(")]", ", unsafe_drop)]").replace("unsafe_drop, unsafe_drop", "unsafe_drop, no_drop");
                let a = if a.matches("unsafe_drop").count() + a.matches("no_drop").count() + a.matches("require_static").count() < 2 { a.replace(")]", ", no_drop)]") } else { a };
                out.push(("two-modes-trailing".into(), wrap(sh.decl("T", Some(&a), "")), twin))
            }
            11 => {
                if sh.extra_lifetime {
                    let a = sh.attr().replace(")]", &format!(", gc_lifetime = {})]", sh.lt_name));
                    out.push(("duplicate-gc_lifetime".into(), wrap(sh.decl("T", Some(&a), "")), twin));
                } else if sh.n_params > 0 && sh.bound != Bound::Default && sh.mode != Mode::RequireStatic {
                    let a = sh.attr().replace(")]", ", bound = \"\")]");
                    out.push(("duplicate-bound".into(), wrap(sh.decl("T", Some(&a), "")), twin));
                }
            }
            12 => {
                // a mode (not require_static) on a field
                if nf > 0 && sh.mode != Mode::RequireStatic {
                    let decl = sh.decl("T", None, "");
                    let bad = decl.replacen("f0: ", "#[collect(no_drop)] f0: ", 1);
                    if bad != decl {
                        out.push(("mode-attribute-on-a-field".into(), wrap(bad), twin));
                    }
                }
            }
            0 => out.push(("missing-mode".into(), wrap(sh.decl("T", Some(""), "")), twin)),
            1 => {
                let a = sh.attr().replace("#[collect(", "#[collect(unsafe_drop, ").replace("unsafe_drop, unsafe_drop", "unsafe_drop, no_drop");
                out.push(("two-modes".into(), wrap(sh.decl("T", Some(&a), "")), twin))
            }
            2 => {
                let a = format!("{}\n#[collect(no_drop)]", sh.attr());
                out.push(("two-collect-attributes".into(), wrap(sh.decl("T", Some(&a), "")), twin))
            }
            3 => {
                if sh.mode == Mode::NoDrop {
                    let gens = sh.generics_decl();
                    let wh = sh.where_clause();
                    out.push(("no_drop-with-Drop-impl".into(), wrap(sh.decl("T", None, &format!("impl{gens} Drop for T{gens}{wh} {{ fn drop(&mut self) {{}} }}\n"))), twin))
                }
            }
            4 | 5 => {
                // require_static on a field whose type is not 'static, at a generated position
                if sh.mode != Mode::RequireStatic && nf > 0 {
                    let mut bad = sh.clone();
                    let target = pick % nf;
                    let mut n = 0;
                    let mut done = false;
                    let each = |fs: &mut Fields, n: &mut usize, done: &mut bool| {
                        if let Some(v) = fs.list_mut() {
                            for f in v.iter_mut() {
                                if *n == target {
                                    f.ty = Ty::Opt(Box::new(Ty::Gc));
                                    f.require_static = true;
                                    *done = true;
                                }
                                *n += 1;
                            }
                        }
                    };
                    match &mut bad.body {
                        Body::Struct(fs) => each(fs, &mut n, &mut done),
                        Body::Enum(vs) => {
                            for fs in vs.iter_mut() {
                                each(fs, &mut n, &mut done);
                            }
                        }
                    }
                    if done {
                        bad.fixup();
                        // the twin holds the same field type without the attribute
                        let mut good = bad.clone();
                        let fix = |fs: &mut Fields| {
                            if let Some(v) = fs.list_mut() {
                                for f in v.iter_mut() {
                                    if f.require_static && !f.ty.is_static() {
                                        f.require_static = false;
                                    }
                                }
                            }
                        };
                        match &mut good.body {
                            Body::Struct(fs) => fix(fs),
                            Body::Enum(vs) => vs.iter_mut().for_each(fix),
                        }
                        out.push(("require_static-on-non-static-field".into(), wrap_use(&bad), wrap_use(&good)));
                    }
                }
            }
            6 => {
                // a field whose type is not Collect, at a generated position
                if sh.mode != Mode::RequireStatic && nf > 0 {
                    let mut bad = sh.clone();
                    let target = pick % nf;
                    let mut n = 0;
                    let each = |fs: &mut Fields, n: &mut usize| {
                        if let Some(v) = fs.list_mut() {
                            for f in v.iter_mut() {
                                if *n == target {
                                    f.ty = Ty::NoImpl;
                                    f.require_static = false;
                                }
                                *n += 1;
                            }
                        }
                    };
                    match &mut bad.body {
                        Body::Struct(fs) => each(fs, &mut n),
                        Body::Enum(vs) => vs.iter_mut().for_each(|fs| each(fs, &mut n)),
                    }
                    bad.fixup();
                    let mut good = bad.clone();
                    let fix = |fs: &mut Fields| {
                        if let Some(v) = fs.list_mut() {
                            for f in v.iter_mut() {
                                if matches!(f.ty, Ty::NoImpl) {
                                    f.require_static = true;
                                }
                            }
                        }
                    };
                    match &mut good.body {
                        Body::Struct(fs) => fix(fs),
                        Body::Enum(vs) => vs.iter_mut().for_each(fix),
                    }
                    out.push(("field-type-not-Collect".into(), wrap(bad.decl("T", None, "")), wrap(good.decl("T", None, ""))));
                }
            }
            7 => {
                // (in whole-type require_static mode the derive emits an empty impl bounded by
                // `Self: 'static` and does not look at inner attributes: a redundant attribute on a
                // variant is harmless there and is not among the refusals the property lists)
                if let (Body::Enum(vs), true) = (&sh.body, sh.mode != Mode::RequireStatic) {
                    let v = pick % vs.len();
                    let decl = sh.decl("T", None, "");
                    let needle = format!("    V{v}");
                    // once, twice, next to another attribute, or merged with another option
                    let (attrs, class) = match (pick / 7) % 5 {
                        0 | 1 => ("#[collect(require_static)]", "require_static-on-enum-variant"),
                        2 => ("#[collect(require_static)]\n    #[collect(require_static)]", "require_static-twice-on-enum-variant"),
                        3 => ("#[collect(require_static)]\n    #[allow(dead_code)]\n    #[collect(require_static)]", "require_static-twice-on-enum-variant"),
                        _ => ("#[allow(dead_code)]\n    #[collect(require_static)]", "require_static-on-enum-variant"),
                    };
                    let bad = decl.replacen(&needle, &format!("    {attrs}\n    V{v}"), 1);
                    out.push((class.into(), wrap(bad), twin));
                }
            }
            8 => {
                if sh.extra_lifetime {
                    let a = sh.attr().replace(&format!(", gc_lifetime = {}", sh.lt_name), "");
                    out.push(("two-lifetimes-without-gc_lifetime".into(), wrap(sh.decl("T", Some(&a), "")), twin));
                }
            }
            _ => {
                if sh.mode == Mode::RequireStatic {
                    // whole-type require_static on a type that holds a pointer
                    // (an explicit bound must not replace the `Self: 'static` requirement)
                    let (attr, class) = match pick % 4 {
                        0 => ("require_static".to_string(), "require_static-mode-on-non-static-type"),
                        1 => ("require_static, bound = \"\"".to_string(), "require_static-mode-with-bound-on-non-static-type"),
                        2 => ("bound = \"\", require_static".to_string(), "require_static-mode-with-bound-on-non-static-type"),
                        _ => ("require_static, bound = \"where u8: Copy\"".to_string(), "require_static-mode-with-bound-on-non-static-type"),
                    };
                    let bad = format!("#[derive(Collect)]\n#[collect({attr})]\npub struct T<'a> {{ g: Gc<'a, u32> }}\nfn use_it<'gc>() {{ let _ = <T<'gc> as Collect<'gc>>::NEEDS_TRACE; }}\n");
                    out.push((class.into(), wrap(bad), wrap_use(sh)));
                } else {
                    let a = sh.attr().replace("#[collect(", "#[collect(frobnicate, ");
                    out.push(("unknown-option".into(), wrap(sh.decl("T", Some(&a), "")), twin));
                }
            }
        }
    }
    // always present: one fixed probe per refusal named in the property, independent of sampling
    let fixed: [(&str, &str, &str); 9] = [
        ("fixed-require_static-twice-on-enum-variant", "#[derive(Collect)]\n#[collect(no_drop)]\npub enum T<'gc> { A(Gc<'gc, u32>), #[collect(require_static)] #[collect(require_static)] B(u8) }", "#[derive(Collect)]\n#[collect(no_drop)]\npub enum T<'gc> { A(Gc<'gc, u32>), B(#[collect(require_static)] u8) }"),
        ("fixed-missing-mode", "#[derive(Collect)]\npub struct T<'gc> { g: Gc<'gc, u32> }", "#[derive(Collect)]\n#[collect(no_drop)]\npub struct T<'gc> { g: Gc<'gc, u32> }"),
        ("fixed-two-modes", "#[derive(Collect)]\n#[collect(no_drop, unsafe_drop)]\npub struct T<'gc> { g: Gc<'gc, u32> }", "#[derive(Collect)]\n#[collect(unsafe_drop)]\npub struct T<'gc> { g: Gc<'gc, u32> }"),
        ("fixed-no_drop-with-Drop-impl", "#[derive(Collect)]\n#[collect(no_drop)]\npub struct T<'gc> { g: Gc<'gc, u32> }\nimpl<'gc> Drop for T<'gc> { fn drop(&mut self) {} }", "#[derive(Collect)]\n#[collect(unsafe_drop)]\npub struct T<'gc> { g: Gc<'gc, u32> }\nimpl<'gc> Drop for T<'gc> { fn drop(&mut self) {} }"),
        ("fixed-no_drop-with-Drop-impl-generic-enum", "#[derive(Collect)]\n#[collect(no_drop)]\npub enum T<'gc, X: Collect<'gc>> { A(X), B(Gc<'gc, u32>) }\nimpl<'gc, X: Collect<'gc>> Drop for T<'gc, X> { fn drop(&mut self) {} }", "#[derive(Collect)]\n#[collect(no_drop)]\npub enum T<'gc, X: Collect<'gc>> { A(X), B(Gc<'gc, u32>) }"),
        ("fixed-require_static-on-enum-variant", "#[derive(Collect)]\n#[collect(no_drop)]\npub enum T<'gc> { A(Gc<'gc, u32>), #[collect(require_static)] B(u8) }", "#[derive(Collect)]\n#[collect(no_drop)]\npub enum T<'gc> { A(Gc<'gc, u32>), B(#[collect(require_static)] u8) }"),
        ("fixed-field-type-not-Collect", "pub struct NotC;\n#[derive(Collect)]\n#[collect(no_drop)]\npub struct T<'gc> { g: Gc<'gc, u32>, n: NotC }\nfn use_it<'gc>() { let _ = <T<'gc> as Collect<'gc>>::NEEDS_TRACE; }", "pub struct NotC;\n#[derive(Collect)]\n#[collect(no_drop)]\npub struct T<'gc> { g: Gc<'gc, u32>, #[collect(require_static)] n: NotC }\nfn use_it<'gc>() { let _ = <T<'gc> as Collect<'gc>>::NEEDS_TRACE; }"),
        ("fixed-two-lifetimes-without-gc_lifetime", "#[derive(Collect)]\n#[collect(no_drop)]\npub struct T<'gc, 'a> { g: Gc<'gc, u32>, s: &'a u8 }", "#[derive(Collect)]\n#[collect(no_drop, gc_lifetime = 'gc)]\npub struct T<'gc, 'a> { g: Gc<'gc, u32>, #[collect(require_static)] s: &'a u8 }"),
        ("fixed-require_static-field-not-static", "#[derive(Collect)]\n#[collect(no_drop)]\npub struct T<'gc> { n: u8, #[collect(require_static)] g: Gc<'gc, u32> }\nfn use_it<'gc>() { let _ = <T<'gc> as Collect<'gc>>::NEEDS_TRACE; }", "#[derive(Collect)]\n#[collect(no_drop)]\npub struct T<'gc> { n: u8, #[collect(require_static)] s: String, g: Gc<'gc, u32> }\nfn use_it<'gc>() { let _ = <T<'gc> as Collect<'gc>>::NEEDS_TRACE; }"),
    ];
    for (class, bad, good) in fixed {
        out.push((class.to_string(), wrap(bad.to_string()), wrap(good.to_string())));
    }
    // KNOWN FINDING (KNOWN_FINDINGS.txt, signature crate-alias-hijacks-derive-paths): the derive names the
    // library by the absolute path `::gc_arena::..`, which `extern crate self as gc_arena;` re-points at
    // the calling crate, so the Drop detector (or the Trace bound) can be replaced by a local look-alike
    {
        let bad = "#![forbid(unsafe_code)]\n#![allow(unused)]\nextern crate gc_arena as real;\nextern crate self as gc_arena;\npub use real::{Collect, collect};\npub trait __MustNotImplDrop {}\nuse real::Gc;\n#[derive(Collect)]\n#[collect(no_drop)]\npub struct T<'gc> { g: Gc<'gc, u32> }\nimpl<'gc> Drop for T<'gc> { fn drop(&mut self) {} }\nfn main() {}\n";
        let good = "#![forbid(unsafe_code)]\n#![allow(unused)]\nextern crate gc_arena as real;\nuse real::{Collect, Gc};\n#[derive(Collect)]\n#[collect(unsafe_drop)]\npub struct T<'gc> { g: Gc<'gc, u32> }\nimpl<'gc> Drop for T<'gc> { fn drop(&mut self) {} }\nfn main() {}\n";
        out.push(("crate-alias-hijacks-derive-paths|no_drop-with-Drop-impl".to_string(), bad.to_string(), good.to_string()));
    }
    // the bound string is a where clause, nothing else: tokens after it must not reach the generated impl
    for (i, inj) in [
        "where Self: Sized { const NEEDS_TRACE: bool = false; } macro_rules! eat {($($t:tt)*)=>{}} eat!",
        "{ const NEEDS_TRACE: bool = false; } macro_rules! eat {($($t:tt)*)=>{}} eat!",
        "where Self: Sized {} impl<'gc> T<'gc>",
    ]
    .iter()
    .enumerate()
    {
        let bad = format!("#[derive(Collect)]\n#[collect(no_drop, bound = \"{inj}\")]\npub struct T<'gc> {{ g: Gc<'gc, u32> }}\nfn use_it<'gc>() {{ let _ = <T<'gc> as Collect<'gc>>::NEEDS_TRACE; }}\n");
        let good = "#[derive(Collect)]\n#[collect(no_drop, bound = \"where Self: Sized\")]\npub struct T<'gc> { g: Gc<'gc, u32> }\nfn use_it<'gc>() { let _ = <T<'gc> as Collect<'gc>>::NEEDS_TRACE; }\n".to_string();
        out.push((format!("bound-string-carries-more-than-a-where-clause-{i}"), wrap(bad), wrap(good)));
    }
    // an explicit bound must never switch off the 'static requirement of require_static
    for (i, attr) in ["require_static, bound = \"\"", "bound = \"\", require_static", "require_static, bound = \"where u8: Copy\""].iter().enumerate() {
        let bad = format!("#[derive(Collect)]\n#[collect({attr})]\npub struct T<'a> {{ g: Gc<'a, u32> }}\nfn use_it<'gc>() {{ let _ = <T<'gc> as Collect<'gc>>::NEEDS_TRACE; }}\n");
        let good = format!("#[derive(Collect)]\n#[collect({attr})]\npub struct T {{ g: u32 }}\nfn use_it<'gc>() {{ let _ = <T as Collect<'gc>>::NEEDS_TRACE; }}\n");
        out.push((format!("require_static-mode-with-bound-on-non-static-type-{i}"), wrap(bad), wrap(good)));
    }
    for (i, attr) in ["no_drop, bound = \"\"", "no_drop, bound = \"where u8: Copy\""].iter().enumerate() {
        let bad = format!("#[derive(Collect)]\n#[collect({attr})]\npub struct T<'gc> {{ n: u8, #[collect(require_static)] g: Gc<'gc, u32> }}\nfn use_it<'gc>() {{ let _ = <T<'gc> as Collect<'gc>>::NEEDS_TRACE; }}\n");
        let good = format!("#[derive(Collect)]\n#[collect({attr})]\npub struct T<'gc> {{ n: u8, #[collect(require_static)] s: String, g: Gc<'gc, u32> }}\nfn use_it<'gc>() {{ let _ = <T<'gc> as Collect<'gc>>::NEEDS_TRACE; }}\n");
        out.push((format!("require_static-field-with-bound-on-non-static-type-{i}"), wrap(bad), wrap(good)));
    }
    out
}
