//! C19, program half: no safe function hands out a Gc<T> for a T the caller never constructed.

use crate::probe::*;

const PRELUDE: &str = r#"#![forbid(unsafe_code)]
#![allow(unused, dead_code)]
use gc_arena::{Arena, Collect, Gc, GcWeak, Mutation, Rootable, Static};
use gc_arena::zst_cache::ZstCache;
use gc_arena::arena::rootless_mutate;
enum Void {}
mod guarded { pub struct Token(()); impl Token { pub fn proof_of_work(&self) -> u32 { 42 } } }
"#;

/// (class, program, twin). The program must not compile, or compile and print "NONE"; the twin
/// (same call for a constructible type, with a value) must compile.
pub fn conjuring_probes() -> Vec<(String, String, String)> {
    let mut v = Vec::new();
    let mk = |body: &str| format!("{PRELUDE}\nfn main() {{ rootless_mutate(|mc| {{ {body} }}); }}\n");
    let twin = mk("let c = ZstCache::<8>::new(mc); let g: Gc<()> = c.alloc_static(mc, ()); let _u: () = *g; println!(\"SOME\");");
    for (cls, ty, use_) in [("uninhabited", "Void", "match *g {}"), ("constructor-guarded", "guarded::Token", "let _n = g.proof_of_work();")] {
        v.push((
            format!("ZstCache::alloc_zst::<{cls}>"),
            mk(&format!("let c = ZstCache::<8>::new(mc); match c.alloc_zst::<{ty}>() {{ Some(g) => {{ {use_} println!(\"SOME\"); }} None => println!(\"NONE\") }}")),
            twin.clone(),
        ));
        v.push((
            format!("GcBuilder::<Static<{cls}>> completed without a value"),
            mk(&format!("let b = gc_arena::GcBuilder::<Static<{ty}>>::new().unwrap_static(); let g: Gc<{ty}> = b.assume_init(mc); {use_} println!(\"SOME\");")),
            twin.clone(),
        ));
        v.push((format!("Gc::cast to {cls}"), mk(&format!("let u = Gc::new(mc, ()); let g: Gc<{ty}> = Gc::cast::<{ty}>(u); {use_} println!(\"SOME\");")), twin.clone()));
        v.push((
            format!("from_ptr to {cls}"),
            mk(&format!("let u = Gc::new(mc, ()); let g: Gc<{ty}> = Gc::from_ptr(Gc::as_ptr(u) as *const {ty}); {use_} println!(\"SOME\");")),
            twin.clone(),
        ));
    }
    // the slice constructors that duplicate their source bitwise must demand `Copy` elements: a copy
    // of a value with a destructor is a value nobody constructed (and it is destructed as well)
    {
        let items = "thread_local! { static DROPS: std::cell::Cell<u32> = std::cell::Cell::new(0); }\nstruct Tk(u8);\nimpl Drop for Tk { fn drop(&mut self) { DROPS.with(|d| d.set(d.get() + 1)); } }\n";
        let tail = "drop(src); }); if DROPS.with(|d| d.get()) > 2 { println!(\"SOME\"); } else { println!(\"NONE\"); }";
        let mkc = |body: &str| format!("{PRELUDE}\n{items}\nfn main() {{ rootless_mutate(|mc| {{ let src = vec![Static(Tk(1)), Static(Tk(2))]; {body} {tail} }}\n");
        let good = format!("{PRELUDE}\nfn main() {{ rootless_mutate(|mc| {{ let src = vec![1u8, 2]; let g = gc_arena::GcSliceWithHeaderBuilder::<u8, u8>::new(2).write_header(0).copy_slice(mc, &src); let h = gc_arena::GcSlice::new_slice(mc, &src); println!(\"SOME {{}} {{}}\", g.slice.len(), h.len()); }}); }}\n");
        for (cls, body) in [
            ("copy_slice of non-Copy elements through the slice-with-header builder", "let _g = gc_arena::GcSliceWithHeaderBuilder::<u8, Static<Tk>>::new(2).write_header(0).copy_slice(mc, &src);"),
            ("copy_slice of non-Copy elements through the slice builder", "let _g = gc_arena::GcSliceBuilder::<Static<Tk>>::new(2).copy_slice(mc, &src);"),
            ("GcSlice::new_slice of non-Copy elements", "let _g = gc_arena::GcSlice::new_slice(mc, &src);"),
            ("GcSlice::new_slice_static of non-Copy elements", "let src2 = vec![Tk(1), Tk(2)]; let _g = gc_arena::GcSlice::new_slice_static(mc, &src2); drop(src2);"),
        ] {
            v.push((cls.to_string(), mkc(body), good.clone()));
        }
    }
    // the hidden helper behind `unsize!` turns any raw-pointer function into a pointer conversion: it
    // must stay uncallable without `unsafe`
    for (cls, body) in [
        ("__coerce_unchecked called directly on a Gc", "let g = Gc::new(mc, 7u64); let t: Gc<guarded::Token> = gc_arena::__CoercePtrInternal::__coerce_unchecked(g, |p: *const u64| p.cast::<guarded::Token>()); let _n = t.proof_of_work(); println!(\"SOME\");"),
        ("__coerce_unchecked called directly on a GcWeak", "let g = Gc::downgrade(Gc::new(mc, 7u64)); let t: GcWeak<guarded::Token> = gc_arena::__CoercePtrInternal::__coerce_unchecked(g, |p: *const u64| p.cast::<guarded::Token>()); if let Some(t) = t.upgrade(mc) { let _n = t.proof_of_work(); println!(\"SOME\"); } else { println!(\"NONE\"); }"),
    ] {
        v.push((cls.to_string(), mk(body), twin.clone()));
    }
    // a downstream crate must not be able to supply the fat/thin conversion of a pointer kind the
    // library hands out: `unsize!` keeps the allocation's `UnitPtrMeta`, for which the library itself
    // only provides the sized impl
    {
        let items = "use gc_arena::meta::{PtrMeta, UnitPtrMeta};\ntrait Tr { fn hello(&self) -> u32; }\nstruct Foo(u32);\nimpl Tr for Foo { fn hello(&self) -> u32 { self.0 } }\nstatic DECOY: Foo = Foo(999);\n";
        let imp = "impl PtrMeta<dyn Tr, ()> for UnitPtrMeta {\n    type PtrMetadata = ();\n    type Thin = ();\n    fn to_thin(_tm: &'static (), fat: *const dyn Tr) -> *const () { fat as *const () }\n    fn from_thin(_tm: &'static (), _thin: *const (), _m: ()) -> *const dyn Tr { &DECOY as &dyn Tr as *const dyn Tr }\n}\n";
        let bad = format!("{PRELUDE}\n{items}{imp}\nfn main() {{ rootless_mutate(|mc| {{ let g = Gc::new_static(mc, Foo(1)); let d: Gc<'_, dyn Tr> = gc_arena::unsize!(g => dyn Tr); let t = Gc::as_thin(d); if t.hello() == 1 {{ println!(\"NONE\"); }} else {{ println!(\"SOME {{}}\", t.hello()); }} }}); }}\n");
        let good = format!("{PRELUDE}\n{items}\nfn main() {{ rootless_mutate(|mc| {{ let g = Gc::new_static(mc, Foo(1)); let d: Gc<'_, dyn Tr> = gc_arena::unsize!(g => dyn Tr); println!(\"SOME {{}}\", d.hello()); }}); }}\n");
        v.push(("downstream PtrMeta impl for the pointer kind of an unsized view (as_thin dereferences elsewhere)".to_string(), bad, good));
        let imp2 = imp.replace("dyn Tr", "[u8]").replace("&DECOY as &[u8] as *const [u8]", "&DECOYS[..] as *const [u8]");
        let bad2 = format!("{PRELUDE}\nuse gc_arena::meta::{{PtrMeta, UnitPtrMeta}};\nstatic DECOYS: [u8; 3] = [9, 9, 9];\n{imp2}\nfn main() {{ rootless_mutate(|mc| {{ let g = Gc::new(mc, [1u8, 2]); let d: Gc<'_, [u8]> = gc_arena::unsize!(g => [u8]); let t = Gc::as_thin(d); if t.len() == 2 && t[0] == 1 {{ println!(\"NONE\"); }} else {{ println!(\"SOME {{}}\", t.len()); }} }}); }}\n");
        let good2 = format!("{PRELUDE}\nfn main() {{ rootless_mutate(|mc| {{ let g = Gc::new(mc, [1u8, 2]); let d: Gc<'_, [u8]> = gc_arena::unsize!(g => [u8]); println!(\"SOME {{}}\", d.len()); }}); }}\n");
        v.push(("downstream PtrMeta impl for the pointer kind of an unsized slice view".to_string(), bad2, good2));
    }
    // the exported macros contain unsafe blocks: no caller-supplied expression may be evaluated inside
    // one (an unsafe call in a macro operand must stay an error in a program without `unsafe`)
    let macro_items = "use gc_arena::lock::RefLock; use gc_arena::barrier::{Write, field, unlock}; use gc_arena::unsize;\n#[derive(Collect)]\n#[collect(no_drop)]\nstruct Nd<'gc> { f: RefLock<Option<Gc<'gc, u8>>> }\n";
    let mkm = |body: &str| format!("{PRELUDE}\n{macro_items}\nfn main() {{ rootless_mutate(|mc| {{ {body} }}); }}\n");
    let sneak = "{ let _x: i8 = std::mem::transmute::<u8, i8>(1u8); VALUE }";
    for (cls, tpl, value) in [
        ("unsize! operand", "let g = Gc::new(mc, [1u8, 2]); let s: Gc<[u8]> = unsize!(OPERAND => [u8]); println!(\"SOME {}\", s.len());", "g"),
        ("unsize! operand (cast)", "let g = Gc::new(mc, 7u64); let s: Gc<dyn std::fmt::Debug> = unsize!(OPERAND => dyn std::fmt::Debug); println!(\"SOME\");", "Gc::cast::<guarded::Token>(g)"),
        ("field! operand", "let n = Gc::new(mc, Nd { f: RefLock::new(None) }); let w = Gc::write(mc, n); let _c = field!(OPERAND, Nd, f); println!(\"SOME\");", "w"),
        ("unlock! operand", "let n = Gc::new(mc, Nd { f: RefLock::new(None) }); let w = Gc::write(mc, n); let _c = unlock!(OPERAND, Nd, f); println!(\"SOME\");", "w"),
    ] {
        let bad_operand = if value.contains("cast") { value.to_string() } else { sneak.replace("VALUE", value) };
        let good_operand = if value.contains("cast") { "Gc::new(mc, 7u64)".to_string() } else { value.to_string() };
        let good_tpl = if value.contains("cast") { tpl.replace("let g = Gc::new(mc, 7u64); ", "") } else { tpl.to_string() };
        v.push((format!("unsafe operation inside a macro operand: {cls}"), mkm(&tpl.replace("OPERAND", &bad_operand)), mkm(&good_tpl.replace("OPERAND", &good_operand))));
    }
    v
}

/// Every `pub fn` in the library's sources that is safe and returns a Gc / GcWeak, as "file::name".
pub fn scan_public_gc_fns(repo_src: &str) -> Result<Vec<String>, String> {
    let mut out = Vec::new();
    let rd = std::fs::read_dir(repo_src).map_err(|e| format!("{repo_src}: {e}"))?;
    let mut files: Vec<_> = rd.filter_map(|e| e.ok()).map(|e| e.path()).filter(|p| p.extension().map(|x| x == "rs").unwrap_or(false)).collect();
    files.sort();
    for f in files {
        let text = std::fs::read_to_string(&f).map_err(|e| e.to_string())?;
        let fname = f.file_name().unwrap().to_string_lossy().to_string();
        let mut i = 0;
        while let Some(p) = text[i..].find("pub fn ") {
            let start = i + p;
            // `pub unsafe fn` does not match "pub fn " and is skipped by construction
            let end = text[start..].find('{').map(|e| start + e).unwrap_or(text.len());
            let sig = &text[start..end];
            let name: String = sig["pub fn ".len()..].chars().take_while(|c| c.is_alphanumeric() || *c == '_').collect();
            if let Some(arrow) = sig.rfind("->") {
                let ret = &sig[arrow..];
                let ret = ret.split("where").next().unwrap_or(ret);
                if ret.contains("Builder") {
                    // a builder still needs values before it yields a pointer
                } else if ret.contains("Gc<") || ret.contains("GcWeak<") || ret.contains("GcFat<") || ret.contains("GcThin<") || ret.contains("GcSlice") || ret.contains("GcStr<") {
                    out.push(format!("{fname}::{name}"));
                }
            }
            i = end.min(text.len() - 1).max(start + 1);
        }
    }
    out.sort();
    out.dedup();
    Ok(out)
}

/// Classification of the safe functions that return a Gc: why they cannot conjure a value.
pub const CLASSIFIED: [(&str, &str); 27] = [
    ("gc.rs::new", "takes a T by value"),
    ("gc.rs::new_static", "takes a T by value"),
    ("gc.rs::downgrade", "same T as its argument"),
    ("gc.rs::erase", "returns Gc<()>"),
    ("gc.rs::erase_kind", "same T as its argument"),
    ("gc.rs::as_thin", "same T as its argument"),
    ("gc.rs::as_fat", "same T as its argument"),
    ("gc.rs::write", "GcBuilder::write takes a T by value"),
    ("gc.rs::clone", "same T"),
    ("gc_weak.rs::upgrade", "same T as the weak pointer"),
    ("gc_weak.rs::resurrect", "same T as the weak pointer"),
    ("gc_weak.rs::erase", "returns GcWeak<()>"),
    ("gc_weak.rs::clone", "same T"),
    ("slice.rs::copy_slice", "copies caller-supplied elements"),
    ("slice.rs::write_slice_with", "elements come from the caller's constructor"),
    ("slice.rs::new_slice", "copies caller-supplied elements"),
    ("slice.rs::new_slice_static", "copies caller-supplied elements"),
    ("slice.rs::new_str", "copies a caller-supplied str"),
    ("slice.rs::copy_str", "copies a caller-supplied str"),
    ("zst_cache.rs::cached_ptr", "returns Gc<()>"),
    ("zst_cache.rs::alloc", "takes a T by value"),
    ("zst_cache.rs::alloc_static", "takes a T by value"),
    ("dynamic_roots.rs::fetch", "returns what was stashed (a Gc the caller supplied)"),
    ("dynamic_roots.rs::try_fetch", "returns what was stashed (a Gc the caller supplied)"),
    ("lock.rs::get", "returns the stored T"),
    ("unsize.rs::__coerce_unchecked", "unsafe trait method behind the unsize! macro, which only coerces an existing pointer"),
    ("gc.rs::as_ref", "returns a reference to the existing value"),
];

pub struct C19PReport {
    pub probes: usize,
    pub rejected: usize,
    pub compiled_none: usize,
    pub violation: Option<(String, String)>,
    pub trouble: Vec<String>,
    pub scanned: Vec<String>,
}

pub fn run(tc: &Toolchain, threads: usize, repo_src: &str) -> C19PReport {
    let probes = conjuring_probes();
    let res = par_map(&probes, threads, |i, (_, p, t)| {
        let c = tc.compile(&format!("c19_{i}"), p, false);
        let tw = tc.compile(&format!("c19_twin_{i}"), t, false);
        let ran = if c.ok {
            let l = tc.compile(&format!("c19_run_{i}"), p, true);
            l.bin.map(|b| tc.run(&b, 20))
        } else {
            None
        };
        (c, tw, ran)
    });
    let mut rep = C19PReport { probes: probes.len(), rejected: 0, compiled_none: 0, violation: None, trouble: Vec::new(), scanned: Vec::new() };
    for ((class, prog, _), (c, tw, ran)) in probes.iter().zip(res) {
        if !tw.ok {
            rep.trouble.push(format!("{class}: twin does not compile: {}", tw.stderr.lines().take(5).collect::<Vec<_>>().join(" | ")));
            continue;
        }
        if !c.ok {
            if generator_fault(&c.stderr) {
                rep.trouble.push(format!("{class}: generator fault: {}", c.stderr.lines().take(5).collect::<Vec<_>>().join(" | ")));
            } else {
                rep.rejected += 1;
            }
            continue;
        }
        match ran {
            Some((Some(0), out)) if out.contains("NONE") && !out.contains("SOME") => rep.compiled_none += 1,
            other => {
                if rep.violation.is_none() {
                    rep.violation = Some((format!("{class}: a program without unsafe code obtained a Gc to a value nobody constructed ({other:?})"), prog.clone()));
                }
            }
        }
    }
    match scan_public_gc_fns(repo_src) {
        Ok(found) => {
            for f in &found {
                if f == "zst_cache.rs::alloc_zst" {
                    if rep.violation.is_none() {
                        rep.violation = Some(("ZstCache::alloc_zst is a safe public function again: it returns a Gc<T> for a caller-chosen T without taking a value".into(), probes[0].1.clone()));
                    }
                } else if !CLASSIFIED.iter().any(|(n, _)| n == f) {
                    rep.trouble.push(format!("unclassified public safe function returning a Gc: {f} — classify it in c19p.rs (does it take a value of T?)"));
                }
            }
            rep.scanned = found;
        }
        Err(e) => rep.trouble.push(format!("cannot scan the library sources: {e}")),
    }
    rep
}
