//! C18: abandoning or completing a builder is clean at every stage (inputs x crash points).

use std::cell::Cell;
use std::panic::{AssertUnwindSafe, catch_unwind};

use gc_arena::collect::Trace;
use gc_arena::lock::RefLock;
use gc_arena::meta::TypeMeta;
use gc_arena::{Arena, Collect, Gc, GcBuilder, GcSliceBuilder, GcSliceWithHeaderBuilder, GcStrBuilder, Mutation, Rootable, Static};
use serde::{Deserialize, Serialize};

use crate::heap::{Probe, Tok};
use crate::inputs::Outcome;
use crate::layout::{A32, A64};
use crate::obs::{self, Ev};

thread_local! {
    static ZST_DROPS: Cell<u64> = const { Cell::new(0) };
}

pub trait Part: Sized + 'static {
    const DROPS: bool;
    const ZST: bool;
    const NAME: &'static str;
    fn make(id: u32) -> Self;
    fn id(&self) -> Option<u32>;
}

pub struct ETok {
    tok: Tok,
    probe: Probe,
}
unsafe impl<'gc> Collect<'gc> for ETok {
    const NEEDS_TRACE: bool = true;
    fn trace<T: Trace<'gc>>(&self, cc: &mut T) {
        cc.trace(&self.probe)
    }
}
impl Part for ETok {
    const DROPS: bool = true;
    const ZST: bool = false;
    const NAME: &'static str = "tok";
    fn make(id: u32) -> Self {
        ETok { tok: Tok { arena: 0, id, class: 0 }, probe: Probe { arena: 0, id } }
    }
    fn id(&self) -> Option<u32> {
        Some(self.tok.id)
    }
}

#[repr(C)]
pub struct EBig {
    a: [A64; 0],
    tok: Tok,
    pad: [u8; 40],
}
unsafe impl<'gc> Collect<'gc> for EBig {
    const NEEDS_TRACE: bool = false;
}
impl Part for EBig {
    const DROPS: bool = true;
    const ZST: bool = false;
    const NAME: &'static str = "tok-align64";
    fn make(id: u32) -> Self {
        EBig { a: [], tok: Tok { arena: 0, id, class: 0 }, pad: [id as u8; 40] }
    }
    fn id(&self) -> Option<u32> {
        Some(self.tok.id)
    }
}

pub struct EZst;
impl Drop for EZst {
    fn drop(&mut self) {
        ZST_DROPS.with(|c| c.set(c.get() + 1));
    }
}
unsafe impl<'gc> Collect<'gc> for EZst {
    const NEEDS_TRACE: bool = false;
}
impl Part for EZst {
    const DROPS: bool = true;
    const ZST: bool = true;
    const NAME: &'static str = "zst-with-drop";
    fn make(_id: u32) -> Self {
        EZst
    }
    fn id(&self) -> Option<u32> {
        None
    }
}

#[derive(Copy, Clone)]
#[repr(C)]
pub struct ECopy {
    a: [A32; 0],
    v: u32,
}
unsafe impl<'gc> Collect<'gc> for ECopy {
    const NEEDS_TRACE: bool = false;
}
impl Part for ECopy {
    const DROPS: bool = false;
    const ZST: bool = false;
    const NAME: &'static str = "copy-align32";
    fn make(id: u32) -> Self {
        ECopy { a: [], v: id.wrapping_mul(2654435761) }
    }
    fn id(&self) -> Option<u32> {
        None
    }
}

impl Part for () {
    const DROPS: bool = false;
    const ZST: bool = true;
    const NAME: &'static str = "unit";
    fn make(_id: u32) -> Self {}
    fn id(&self) -> Option<u32> {
        None
    }
}

impl Part for u8 {
    const DROPS: bool = false;
    const ZST: bool = false;
    const NAME: &'static str = "u8";
    fn make(id: u32) -> Self {
        id as u8
    }
    fn id(&self) -> Option<u32> {
        None
    }
}

pub struct MetaA;
impl TypeMeta for MetaA {
    type TypeMetadata = u64;
    const TYPE_METADATA: &'static u64 = &0xfeed_beef_1234_5678;
}

#[derive(Clone, Copy, Debug, PartialEq, Eq, Serialize, Deserialize)]
pub enum Stage {
    AbandonEmpty,
    AbandonAfterHeader,
    PanicAt(u16),
    Complete,
    CompleteCopy,
    WrongLen(i8),
}

#[derive(Clone, Debug, PartialEq, Serialize, Deserialize)]
pub enum BStep {
    Build { kind: u8, hdr: u8, elem: u8, len: u16, stage: Stage, rooted: bool, meta: bool },
    Collect { api: u8 },
    Work { n: u8 },
}

#[derive(Clone, Debug, PartialEq, Serialize, Deserialize)]
pub struct BCase {
    pub steps: Vec<BStep>,
}

#[derive(Collect)]
#[collect(no_drop)]
pub struct BRoot<'gc> {
    items: RefLock<Vec<Gc<'gc, ()>>>,
}

/// What one build script is expected to have produced.
#[derive(Default, Debug)]
struct Expect {
    /// ids that must have been dropped by the time the script returns
    dropped_now: Vec<u32>,
    /// ids that live in a completed allocation
    alive: Vec<u32>,
    zst_dropped_now: u64,
    zst_alive: u64,
    completed: bool,
    panicked_as_expected: bool,
    class: String,
    block: Option<(usize, u64)>,
    /// ids of parts that carry a trace probe (ETok)
    probe_ids: Vec<u32>,
}

const PANIC_AT: &str = "gcverif: injected element constructor panic";

fn run_swh<'gc, H: Part + Collect<'gc>, E: Part + Collect<'gc>>(mc: &'gc Mutation<'gc>, base: u32, len: usize, stage: Stage, meta: bool, errs: &mut Vec<String>) -> (Expect, Option<Gc<'gc, ()>>) {
    let mut ex = Expect { class: format!("swh<{},{}>:{}:{}", H::NAME, E::NAME, stage_name(stage, len), if meta { "typemeta" } else { "plain" }), ..Default::default() };
    let hid = base;
    let eid = |i: usize| base + 1 + i as u32;
    // a Static<H> header is deliberately not traced
    let static_hdr = meta && base % 2000 == 0;
    macro_rules! script {
        ($b:expr) => {{
            obs::capture_on();
            let b = $b;
            ex.block = obs::capture_off_seq().last().copied();
            // quarantine and poison the block as soon as it is released, so that anything the builder
            // touches after giving the memory back reads poison
            if let Some((b, _)) = ex.block {
                obs::watch(b, b);
            }
            match stage {
                Stage::AbandonEmpty => {
                    drop(b);
                    None
                }
                Stage::AbandonAfterHeader => {
                    let sb = b.write_header(H::make(hid));
                    drop(sb);
                    if H::DROPS {
                        if H::ZST { ex.zst_dropped_now += 1 } else { ex.dropped_now.push(hid) }
                    }
                    None
                }
                Stage::PanicAt(k) if (k as usize) < len => {
                    let k = k as usize;
                    let sb = b.write_header(H::make(hid));
                    let r = catch_unwind(AssertUnwindSafe(|| {
                        sb.write_slice_with(mc, |i| {
                            if i == k {
                                std::panic::panic_any(PANIC_AT);
                            }
                            E::make(eid(i))
                        })
                    }));
                    match r {
                        Ok(_) => errs.push(format!("{}: element constructor panicked at {k} but the builder completed", ex.class)),
                        Err(p) => {
                            if obs::panic_message(&*p) != PANIC_AT {
                                errs.push(format!("{}: unexpected panic {}", ex.class, obs::panic_message(&*p)));
                            }
                            ex.panicked_as_expected = true;
                        }
                    }
                    if H::DROPS {
                        if H::ZST { ex.zst_dropped_now += 1 } else { ex.dropped_now.push(hid) }
                    }
                    if E::DROPS {
                        if E::ZST { ex.zst_dropped_now += k as u64 } else { ex.dropped_now.extend((0..k).map(eid)) }
                    }
                    None
                }
                _ => {
                    let sb = b.write_header(H::make(hid));
                    let g = sb.write_slice_with(mc, |i| E::make(eid(i)));
                    ex.completed = true;
                    if g.slice.len() != len {
                        errs.push(format!("{}: completed slice has length {}", ex.class, g.slice.len()));
                    }
                    if let Some(id) = g.header.id() {
                        if id != hid {
                            errs.push(format!("{}: header reads id {id}", ex.class));
                        }
                    }
                    for (i, e) in g.slice.iter().enumerate() {
                        if let Some(id) = e.id() {
                            if id != eid(i) {
                                errs.push(format!("{}: element {i} reads id {id}", ex.class));
                            }
                        }
                    }
                    if H::DROPS {
                        if H::ZST { ex.zst_alive += 1 } else { ex.alive.push(hid) }
                    }
                    if E::DROPS {
                        if E::ZST { ex.zst_alive += len as u64 } else { ex.alive.extend((0..len).map(eid)) }
                    }
                    if H::NAME == "tok" && !static_hdr {
                        ex.probe_ids.push(hid);
                    }
                    if E::NAME == "tok" {
                        ex.probe_ids.extend((0..len).map(eid));
                    }
                    Some(Gc::erase(g))
                }
            }
        }};
    }
    let g = if static_hdr {
        ex.class.push_str(":unwrap_static_header");
        script!(GcSliceWithHeaderBuilder::<Static<H>, E>::new(len).unwrap_static_header())
    } else if meta {
        let r = script!(GcSliceWithHeaderBuilder::<H, E, u64>::new_with_type_meta::<MetaA>(len));
        r
    } else {
        script!(GcSliceWithHeaderBuilder::<H, E>::new(len))
    };
    (ex, g)
}

fn run_slice<'gc, E: Part + Collect<'gc>>(mc: &'gc Mutation<'gc>, base: u32, len: usize, stage: Stage, via_static: bool, errs: &mut Vec<String>) -> (Expect, Option<Gc<'gc, ()>>) {
    let mut ex = Expect { class: format!("slice<{}>:{}:{}", E::NAME, stage_name(stage, len), if via_static { "unwrap_static" } else { "plain" }), ..Default::default() };
    let eid = |i: usize| base + 1 + i as u32;
    macro_rules! script {
        ($b:expr) => {{
            obs::capture_on();
            let b = $b;
            ex.block = obs::capture_off_seq().last().copied();
            // quarantine and poison the block as soon as it is released, so that anything the builder
            // touches after giving the memory back reads poison
            if let Some((b, _)) = ex.block {
                obs::watch(b, b);
            }
            match stage {
                Stage::AbandonEmpty | Stage::AbandonAfterHeader => {
                    drop(b);
                    None
                }
                Stage::PanicAt(k) if (k as usize) < len => {
                    let k = k as usize;
                    let r = catch_unwind(AssertUnwindSafe(|| {
                        b.write_slice_with(mc, |i| {
                            if i == k {
                                std::panic::panic_any(PANIC_AT);
                            }
                            E::make(eid(i))
                        })
                    }));
                    match r {
                        Ok(_) => errs.push(format!("{}: element constructor panicked at {k} but the builder completed", ex.class)),
                        Err(p) => {
                            if obs::panic_message(&*p) != PANIC_AT {
                                errs.push(format!("{}: unexpected panic {}", ex.class, obs::panic_message(&*p)));
                            }
                            ex.panicked_as_expected = true;
                        }
                    }
                    if E::DROPS {
                        if E::ZST { ex.zst_dropped_now += k as u64 } else { ex.dropped_now.extend((0..k).map(eid)) }
                    }
                    None
                }
                _ => {
                    let g = b.write_slice_with(mc, |i| E::make(eid(i)));
                    ex.completed = true;
                    if g.len() != len {
                        errs.push(format!("{}: completed slice has length {}", ex.class, g.len()));
                    }
                    for (i, e) in g.iter().enumerate() {
                        if let Some(id) = e.id() {
                            if id != eid(i) {
                                errs.push(format!("{}: element {i} reads id {id}", ex.class));
                            }
                        }
                    }
                    if E::DROPS {
                        if E::ZST { ex.zst_alive += len as u64 } else { ex.alive.extend((0..len).map(eid)) }
                    }
                    Some(Gc::erase(g))
                }
            }
        }};
    }
    let g = if via_static { script!(GcSliceBuilder::<Static<E>>::new(len).unwrap_static()) } else { script!(GcSliceBuilder::<E>::new(len)) };
    (ex, g)
}

/// `copy_slice` on a slice-with-header builder whose header has a destructor: a rejected source must
/// not leak (or double-destruct) the header that was already written.
fn run_copy_hdr<'gc>(mc: &'gc Mutation<'gc>, base: u32, len: usize, stage: Stage, errs: &mut Vec<String>) -> (Expect, Option<Gc<'gc, ()>>) {
    let mut ex = Expect { class: format!("copy_slice-with-header:{}", stage_name(stage, len)), ..Default::default() };
    let delta = match stage {
        Stage::WrongLen(d) if d != 0 => d as i64,
        _ => 0,
    };
    let hid = base;
    let src_len = (len as i64 + delta).max(0) as usize;
    let src: Vec<ECopy> = (0..src_len).map(|i| ECopy::make(base + 1 + i as u32)).collect();
    obs::capture_on();
    let b = GcSliceWithHeaderBuilder::<ETok, ECopy>::new(len);
    ex.block = obs::capture_off_seq().last().copied();
    if let Some((b, _)) = ex.block {
        obs::watch(b, b);
    }
    let sb = b.write_header(ETok::make(hid));
    if src_len == len {
        let g = sb.copy_slice(mc, &src);
        ex.completed = true;
        if g.slice.len() != len || g.slice.iter().zip(src.iter()).any(|(a, b)| a.v != b.v) || g.header.id() != Some(hid) {
            errs.push(format!("{}: contents differ from what was written", ex.class));
        }
        ex.alive.push(hid);
        ex.probe_ids.push(hid);
        (ex, Some(Gc::erase(g)))
    } else {
        let r = catch_unwind(AssertUnwindSafe(|| sb.copy_slice(mc, &src)));
        match r {
            Ok(_) => errs.push(format!("{}: copy_slice accepted a source of length {src_len} for a slice of length {len}", ex.class)),
            Err(p) => {
                let m = obs::panic_message(&*p);
                if !m.contains("is not length") {
                    errs.push(format!("{}: wrong-length copy panicked with: {m}", ex.class));
                }
                ex.panicked_as_expected = true;
            }
        }
        // the header was initialised: it is destructed exactly once, now
        ex.dropped_now.push(hid);
        (ex, None)
    }
}

fn run_copy<'gc>(mc: &'gc Mutation<'gc>, base: u32, len: usize, stage: Stage, errs: &mut Vec<String>) -> (Expect, Option<Gc<'gc, ()>>) {
    let mut ex = Expect { class: format!("copy_slice:{}", stage_name(stage, len)), ..Default::default() };
    let delta = match stage {
        Stage::WrongLen(d) if d != 0 => d as i64,
        _ => 0,
    };
    let src_len = (len as i64 + delta).max(0) as usize;
    let src: Vec<ECopy> = (0..src_len).map(|i| ECopy::make(base + i as u32)).collect();
    obs::capture_on();
    let b = GcSliceBuilder::<ECopy>::new(len);
    ex.block = obs::capture_off_seq().last().copied();
            // quarantine and poison the block as soon as it is released, so that anything the builder
            // touches after giving the memory back reads poison
            if let Some((b, _)) = ex.block {
                obs::watch(b, b);
            }
    if src_len == len {
        let g = b.copy_slice(mc, &src);
        ex.completed = true;
        if g.len() != len || g.iter().zip(src.iter()).any(|(a, b)| a.v != b.v) {
            errs.push(format!("{}: contents differ from the source", ex.class));
        }
        (ex, Some(Gc::erase(g)))
    } else {
        let r = catch_unwind(AssertUnwindSafe(|| b.copy_slice(mc, &src)));
        match r {
            Ok(_) => errs.push(format!("{}: copy_slice accepted a source of length {src_len} for a slice of length {len}", ex.class)),
            Err(p) => {
                let m = obs::panic_message(&*p);
                if !m.contains("is not length") {
                    errs.push(format!("{}: wrong-length copy panicked with: {m}", ex.class));
                }
                ex.panicked_as_expected = true;
            }
        }
        (ex, None)
    }
}

fn run_str<'gc>(mc: &'gc Mutation<'gc>, base: u32, len: usize, stage: Stage, meta: bool, errs: &mut Vec<String>) -> (Expect, Option<Gc<'gc, ()>>) {
    let mut ex = Expect { class: format!("str:{}:{}", stage_name(stage, len), if meta { "typemeta" } else { "plain" }), ..Default::default() };
    let delta = match stage {
        Stage::WrongLen(d) if d != 0 => d as i64,
        _ => 0,
    };
    let src_len = (len as i64 + delta).max(0) as usize;
    let s: String = (0..src_len).map(|i| (b'a' + ((base as usize + i) % 26) as u8) as char).collect();
    match stage {
        Stage::AbandonEmpty | Stage::AbandonAfterHeader => {
            if meta {
                obs::capture_on();
                let b = GcStrBuilder::<u64>::new_with_type_meta::<MetaA>(len);
                ex.block = obs::capture_off_seq().last().copied();
            // quarantine and poison the block as soon as it is released, so that anything the builder
            // touches after giving the memory back reads poison
            if let Some((b, _)) = ex.block {
                obs::watch(b, b);
            }
                drop(b);
            } else {
                obs::capture_on();
                let b = GcStrBuilder::new(len);
                ex.block = obs::capture_off_seq().last().copied();
            // quarantine and poison the block as soon as it is released, so that anything the builder
            // touches after giving the memory back reads poison
            if let Some((b, _)) = ex.block {
                obs::watch(b, b);
            }
                drop(b);
            }
            (ex, None)
        }
        _ if src_len != len => {
            obs::capture_on();
            let b = GcStrBuilder::new(len);
            ex.block = obs::capture_off_seq().last().copied();
            // quarantine and poison the block as soon as it is released, so that anything the builder
            // touches after giving the memory back reads poison
            if let Some((b, _)) = ex.block {
                obs::watch(b, b);
            }
            let r = catch_unwind(AssertUnwindSafe(|| b.copy_str(mc, &s)));
            match r {
                Ok(_) => errs.push(format!("{}: copy_str accepted a source of length {src_len} for a str of length {len}", ex.class)),
                Err(p) => {
                    let m = obs::panic_message(&*p);
                    if !m.contains("is not length") {
                        errs.push(format!("{}: wrong-length copy_str panicked with: {m}", ex.class));
                    }
                    ex.panicked_as_expected = true;
                }
            }
            (ex, None)
        }
        _ => {
            ex.completed = true;
            if meta {
                obs::capture_on();
                let b = GcStrBuilder::<u64>::new_with_type_meta::<MetaA>(len);
                ex.block = obs::capture_off_seq().last().copied();
            // quarantine and poison the block as soon as it is released, so that anything the builder
            // touches after giving the memory back reads poison
            if let Some((b, _)) = ex.block {
                obs::watch(b, b);
            }
                let g = b.copy_str(mc, &s);
                if &*g != s.as_str() || *Gc::type_metadata(g) != 0xfeed_beef_1234_5678 {
                    errs.push(format!("{}: contents or type metadata differ", ex.class));
                }
                (ex, Some(Gc::erase(g)))
            } else {
                obs::capture_on();
                let b = GcStrBuilder::new(len);
                ex.block = obs::capture_off_seq().last().copied();
            // quarantine and poison the block as soon as it is released, so that anything the builder
            // touches after giving the memory back reads poison
            if let Some((b, _)) = ex.block {
                obs::watch(b, b);
            }
                let g = b.copy_str(mc, &s);
                if &*g != s.as_str() {
                    errs.push(format!("{}: contents differ", ex.class));
                }
                (ex, Some(Gc::erase(g)))
            }
        }
    }
}

fn run_sized<'gc, T: Part + Collect<'gc>>(mc: &'gc Mutation<'gc>, base: u32, stage: Stage, variant: u8, errs: &mut Vec<String>) -> (Expect, Option<Gc<'gc, ()>>) {
    let mut ex = Expect { class: format!("sized<{}>:{}:v{}", T::NAME, stage_name(stage, 1), variant % 3), ..Default::default() };
    let complete = !matches!(stage, Stage::AbandonEmpty | Stage::AbandonAfterHeader | Stage::PanicAt(_));
    macro_rules! script {
        ($b:expr) => {{
            obs::capture_on();
            let b = $b;
            ex.block = obs::capture_off_seq().last().copied();
            // quarantine and poison the block as soon as it is released, so that anything the builder
            // touches after giving the memory back reads poison
            if let Some((b, _)) = ex.block {
                obs::watch(b, b);
            }
            if complete {
                let g = b.write(mc, T::make(base));
                ex.completed = true;
                if let Some(id) = g.id() {
                    if id != base {
                        errs.push(format!("{}: value reads id {id}", ex.class));
                    }
                }
                if T::DROPS {
                    if T::ZST { ex.zst_alive += 1 } else { ex.alive.push(base) }
                }
                Some(Gc::erase(g))
            } else {
                // nothing was written: nothing may be destructed
                drop(b);
                None
            }
        }};
    }
    let g = match variant % 3 {
        0 => script!(GcBuilder::<T>::new()),
        1 => script!(GcBuilder::<T, u64>::new_with_type_meta::<MetaA>()),
        _ => script!(GcBuilder::<Static<T>>::new().unwrap_static()),
    };
    (ex, g)
}

fn stage_name(s: Stage, len: usize) -> String {
    match s {
        Stage::AbandonEmpty => "abandon-empty".into(),
        Stage::AbandonAfterHeader => "abandon-after-header".into(),
        Stage::PanicAt(k) if (k as usize) < len => {
            let k = k as usize;
            if k == 0 {
                "panic-at-0".into()
            } else if k + 1 == len {
                "panic-at-last".into()
            } else {
                "panic-at-middle".into()
            }
        }
        Stage::PanicAt(_) | Stage::Complete => format!("complete-len{}", if len == 0 { "0" } else if len == 1 { "1" } else { "n" }),
        Stage::CompleteCopy => "complete-copy".into(),
        Stage::WrongLen(d) => {
            if d == 0 {
                "copy-right-length".into()
            } else if d < 0 {
                "copy-too-short".into()
            } else {
                "copy-too-long".into()
            }
        }
    }
}

fn dispatch<'gc>(mc: &'gc Mutation<'gc>, base: u32, kind: u8, hdr: u8, elem: u8, len: usize, stage: Stage, meta: bool, errs: &mut Vec<String>) -> (Expect, Option<Gc<'gc, ()>>) {
    match kind % 5 {
        0 => match elem % 4 {
            0 => run_sized::<ETok>(mc, base, stage, hdr, errs),
            1 => run_sized::<EBig>(mc, base, stage, hdr, errs),
            2 => run_sized::<EZst>(mc, base, stage, hdr, errs),
            _ => run_sized::<ECopy>(mc, base, stage, hdr, errs),
        },
        1 => {
            macro_rules! e {
                ($h:ty) => {
                    match elem % 5 {
                        0 => run_swh::<$h, ETok>(mc, base, len, stage, meta, errs),
                        1 => run_swh::<$h, EBig>(mc, base, len, stage, meta, errs),
                        2 => run_swh::<$h, EZst>(mc, base, len, stage, meta, errs),
                        3 => run_swh::<$h, ECopy>(mc, base, len, stage, meta, errs),
                        _ => run_swh::<$h, u8>(mc, base, len, stage, meta, errs),
                    }
                };
            }
            match hdr % 4 {
                0 => e!(ETok),
                1 => e!(EBig),
                2 => e!(()),
                _ => e!(EZst),
            }
        }
        2 => match elem % 4 {
            0 => run_slice::<ETok>(mc, base, len, stage, meta, errs),
            1 => run_slice::<EBig>(mc, base, len, stage, meta, errs),
            2 => run_slice::<EZst>(mc, base, len, stage, meta, errs),
            _ => run_slice::<ECopy>(mc, base, len, stage, meta, errs),
        },
        3 => {
            if hdr % 2 == 1 {
                run_copy_hdr(mc, base, len, stage, errs)
            } else {
                run_copy(mc, base, len, stage, errs)
            }
        }
        _ => run_str(mc, base, len, stage, meta, errs),
    }
}

pub fn run_case(case: &BCase) -> Outcome {
    obs::begin_case();
    ZST_DROPS.with(|c| c.set(0));
    let mut out = Outcome::default();
    let mut errs: Vec<String> = Vec::new();
    {
        let mut arena: Arena<Rootable![BRoot<'_>]> = Arena::new(|_mc| BRoot { items: RefLock::new(Vec::new()) });
        arena.metrics().set_pacing(crate::lang::pacing_preset(0));
        let mut alive_ids: Vec<u32> = Vec::new(); // ids inside completed allocations
        let mut dropped: std::collections::BTreeMap<u32, u32> = Default::default();
        let mut zst_alive_total: u64 = 0;
        let mut zst_dropped_expected: u64 = 0;
        let mut abandoned_blocks: Vec<usize> = Vec::new();
        let mut rooted_probe_ids: Vec<u32> = Vec::new();
        let mut base = 1000u32;
        let mut ev_cursor = obs::events_len();
        for st in &case.steps {
            if errs.len() > 3 {
                break;
            }
            match st {
                BStep::Build { kind, hdr, elem, len, stage, rooted, meta } => {
                    base += 1000;
                    let len = *len as usize % 41;
                    let m = arena.metrics().clone();
                    let (count0, debt0) = (m.total_gc_count(), m.allocation_debt());
                    let zst0 = ZST_DROPS.with(|c| c.get());
                    let ev0 = obs::events_len();
                    obs::set_quiet_panics(true);
                    let ex = arena.mutate_root(|mc, root| {
                        let (ex, g) = dispatch(mc, base, *kind, *hdr, *elem, len, *stage, *meta, &mut errs);
                        if let (Some(g), true) = (g, *rooted) {
                            root.items.get_mut().push(g);
                        }
                        ex
                    });
                    obs::set_quiet_panics(false);
                    let (count1, debt1) = (m.total_gc_count(), m.allocation_debt());
                    let evs = obs::events_since(ev0);
                    ev_cursor = obs::events_len();
                    let zst1 = ZST_DROPS.with(|c| c.get());
                    out.classes.push(ex.class.clone());
                    // --- events produced by the script itself
                    let mut now: Vec<u32> = Vec::new();
                    for ev in &evs {
                        match ev {
                            Ev::Drop { id, .. } => now.push(*id),
                            Ev::Trace { id, .. } => errs.push(format!("{}: a builder script caused a trace of {id}", ex.class)),
                            Ev::Free { .. } => {}
                        }
                    }
                    let mut want = ex.dropped_now.clone();
                    want.sort();
                    now.sort();
                    if now != want {
                        errs.push(format!("{}: parts destructed by the abandoned builder: {now:?}, expected exactly the initialised parts {want:?}", ex.class));
                    }
                    for id in &now {
                        *dropped.entry(*id).or_insert(0) += 1;
                    }
                    if zst1 - zst0 != ex.zst_dropped_now {
                        errs.push(format!("{}: {} zero-sized parts destructed, expected {}", ex.class, zst1 - zst0, ex.zst_dropped_now));
                    }
                    zst_dropped_expected += ex.zst_dropped_now;
                    if ex.completed && *rooted {
                        rooted_probe_ids.extend(ex.probe_ids.iter().copied());
                    }
                    if ex.completed {
                        if count1 != count0 + 1 {
                            errs.push(format!("{}: completing the builder changed the Gc count from {count0} to {count1}", ex.class));
                        }
                        alive_ids.extend(ex.alive.iter().copied());
                        zst_alive_total += ex.zst_alive;
                        match ex.block {
                            Some((b, seq)) => {
                                if !obs::block_is(b, seq) {
                                    errs.push(format!("{}: the block of the completed allocation was released", ex.class));
                                } else {
                                    obs::watch(b, b);
                                }
                            }
                            None => out.internal.push(format!("{}: no allocation captured", ex.class)),
                        }
                    } else {
                        if count1 != count0 {
                            errs.push(format!("{}: abandoned builder changed the Gc count from {count0} to {count1}", ex.class));
                        }
                        if debt1.to_bits() != debt0.to_bits() {
                            errs.push(format!("{}: abandoned builder changed the allocation debt from {debt0} to {debt1}", ex.class));
                        }
                        match ex.block {
                            Some((b, seq)) => {
                                if obs::block_is(b, seq) {
                                    errs.push(format!("{}: abandoned builder did not release its block {b:#x}", ex.class));
                                }
                                abandoned_blocks.push(b);
                            }
                            None => out.internal.push(format!("{}: no allocation captured", ex.class)),
                        }
                    }
                }
                BStep::Collect { api } => match api % 5 {
                    0 => arena.collect_debt(),
                    1 => {
                        arena.mark_debt();
                    }
                    2 => {
                        arena.finish_marking();
                    }
                    3 => arena.cycle_debt(),
                    _ => arena.finish_cycle(),
                },
                BStep::Work { n } => {
                    for _ in 0..(*n % 6 + 1) {
                        let m = arena.metrics().clone();
                        if m.total_gc_count() == 0 {
                            break;
                        }
                        m.adjust_debt(1e9);
                        let d = m.allocation_debt();
                        m.adjust_debt(1e-6 - d);
                        arena.collect_debt();
                    }
                }
            }
            // events of collections: every drop must be of a part that lives in a completed allocation
            for ev in obs::events_since(ev_cursor) {
                if let Ev::Drop { id, .. } = ev {
                    if !alive_ids.contains(&id) {
                        errs.push(format!("collection destructed part {id}, which is not part of any completed allocation"));
                    }
                    *dropped.entry(id).or_insert(0) += 1;
                }
                if let Ev::Trace { id, .. } = ev {
                    if id < crate::heap::ROOT_ID_BASE && !alive_ids.contains(&id) {
                        errs.push(format!("collection traced part {id}, which is not part of any completed allocation"));
                    }
                }
            }
            ev_cursor = obs::events_len();
            for f in obs::take_faults() {
                errs.push(format!("allocator: {f:?}"));
            }
        }
        // a completed, rooted allocation that contains a tracing part is visited by the next full cycle
        let t0 = obs::events_len();
        arena.finish_cycle();
        arena.finish_cycle();
        let traced: Vec<u32> = obs::events_since(t0).into_iter().filter_map(|e| if let Ev::Trace { id, .. } = e { Some(id) } else { None }).collect();
        for id in &rooted_probe_ids {
            if !traced.contains(id) {
                errs.push(format!("the completed, rooted allocation holding tracing part {id} was not traced by a full collection cycle (its needs-trace flag is wrong)"));
            }
        }
        for ev in obs::events_since(t0) {
            if let Ev::Drop { id, .. } = ev {
                if !alive_ids.contains(&id) {
                    errs.push(format!("collection destructed part {id}, which is not part of any completed allocation"));
                }
                *dropped.entry(id).or_insert(0) += 1;
            }
        }
        ev_cursor = obs::events_len();
        drop(arena);
        for ev in obs::events_since(ev_cursor) {
            if let Ev::Drop { id, .. } = ev {
                *dropped.entry(id).or_insert(0) += 1;
            }
        }
        for id in &alive_ids {
            let n = dropped.get(id).copied().unwrap_or(0);
            if n != 1 {
                errs.push(format!("part {id} of a completed allocation was destructed {n} times over the arena's lifetime"));
            }
        }
        for (id, n) in &dropped {
            if *n > 1 {
                errs.push(format!("part {id} was destructed {n} times"));
            }
        }
        let zst_total = ZST_DROPS.with(|c| c.get());
        if zst_total != zst_dropped_expected + zst_alive_total {
            errs.push(format!("{zst_total} zero-sized parts destructed in total, expected {}", zst_dropped_expected + zst_alive_total));
        }
        let _ = abandoned_blocks;
    }
    let end = obs::end_case();
    for f in end.faults {
        match f {
            obs::AllocFault::RedZone { watched: false, .. } => out.internal.push(format!("{f:?}")),
            f => errs.push(format!("allocator: {f:?}")),
        }
    }
    if !end.leaked_watched.is_empty() {
        errs.push(format!("{} blocks of completed allocations never returned to the allocator", end.leaked_watched.len()));
    }
    out.errors = errs;
    out
}
